#!/bin/bash
# (Re)generates build/overlay.json: files added to packages of /repo at
# build time. Nothing in /repo is touched.
set -eu
cd "$(dirname "$0")"
mkdir -p build
cat > build/overlay.json <<JSON
{"Replace": {"/repo/errbase/zz_verif_hooks.go": "$PWD/mc/hooks/errbase_hooks.go"}}
JSON
