#!/bin/bash
# (Re)generates build/overlay.json: files added to packages of /repo at
# build time. Nothing in /repo is touched.
set -eu
cd "$(dirname "$0")"
mkdir -p build
cat > build/overlay.json <<JSON
{"Replace": {"/repo/errbase/zz_verif_hooks.go": "$PWD/mc/hooks/errbase_hooks.go"}}
JSON
# C18 (schedmc): instrumented copy of /repo's working tree under build/instr
# plus build/overlay-sched.json and build/overlay-race.json. The C18 pre-step
# regenerates them again in-process on every check run; this keeps them fresh
# for manual builds. Never fatal for the other checks.
if [ -x build/mc-instr ]; then build/mc-instr || echo "mkoverlay: instrumenter failed (only C18 is affected)" >&2; fi
