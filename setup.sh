#!/bin/bash
# setup_cmd: build the checker binaries once so that quick checks do not pay
# the cold compile. Offline; uses only files on disk.
set -u
cd "$(dirname "$0")"
. ./env.sh
mkdir -p build evidence replays
./mkoverlay.sh
(cd mc && go build -tags verif -overlay "$VERIF_DIR/build/overlay.json" -o "$VERIF_DIR/build/mc" ./cmd/mc) || exit 1
echo "setup ok"
