#!/bin/bash
# setup_cmd: build the checker binaries once so that quick checks do not pay
# the cold compile. Offline; uses only files on disk.
set -u
cd "$(dirname "$0")"
. ./env.sh
mkdir -p build evidence replays
./mkoverlay.sh
(cd mc && go build -tags verif -overlay "$VERIF_DIR/build/overlay.json" -o "$VERIF_DIR/build/mc" ./cmd/mc) || exit 1
# C18 (schedmc) and the schedule dimension of C16 (callmc/conc, concworker; same
# two binaries): instrumenter, instrumented explorer, -race binary (the first
# -race build is slow; doing it here keeps `./check C18 quick` and
# `./check C16 quick` fast).
(cd mc && go build -o "$VERIF_DIR/build/mc-instr" ./cmd/instr) || exit 1
./build/mc-instr -v || exit 1
(cd mc && go build -tags verif,verifsched -overlay "$VERIF_DIR/build/overlay-sched.json" -o "$VERIF_DIR/build/mc-sched" ./cmd/mc-sched) || exit 1
(cd mc && CGO_ENABLED=1 go build -race -tags verif -overlay "$VERIF_DIR/build/overlay-race.json" -o "$VERIF_DIR/build/mc-race" ./cmd/mc-race) || exit 1
echo "setup ok"
