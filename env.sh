# sourced by check and setup.sh: offline Go environment
export GOFLAGS=-mod=mod GOPROXY=off GOSUMDB=off GOTOOLCHAIN=local CGO_ENABLED=0
export VERIF_DIR="${VERIF_DIR:-/verif}"
