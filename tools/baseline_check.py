#!/usr/bin/env python3
"""Runs the pinned suite of /repo (guard off, no overlay) and compares with BASELINE.json."""
import json, subprocess, sys, os
env = dict(os.environ, GOFLAGS='-mod=mod', GOPROXY='off', GOSUMDB='off', GOTOOLCHAIN='local')
repo = sys.argv[1] if len(sys.argv) > 1 else '/repo'
out = subprocess.run(['go','test','-json','-vet=off','-count=1','-timeout','25m','./...'], cwd=repo, env=env, capture_output=True, text=True).stdout
passed=set()
for line in out.splitlines():
    try: ev=json.loads(line)
    except Exception: continue
    if ev.get('Action')=='pass' and ev.get('Test'):
        passed.add(ev['Package']+'::'+ev['Test'])
base=json.load(open('/root/.vp/BASELINE.json'))
want=set(base['stable_pass'])
missing=sorted(want-passed)
print(f'passed={len(passed)} baseline={len(want)} missing={len(missing)}')
for m in missing: print('MISSING', m)
sys.exit(1 if missing else 0)
