#!/usr/bin/env python3
"""Writes /verif/seeded/<seed>/meta.json from notes.md and seeded/results.tsv, and prints the DESIGN §7 table."""
import json, os, re, collections, sys
root='/verif/seeded'
res=collections.defaultdict(dict)
if os.path.exists(root+'/results.tsv'):
    for ln in open(root+'/results.tsv'):
        f=ln.rstrip('\n').split('\t')
        if len(f)<7: continue
        seed,check,tier,rc,viol,harness,key=f[:7]
        res[seed][(check,tier)]={'rc':int(rc),'violations':int(viol),'harness_errors':int(harness),'first_key':key}
props={json.loads(l)['id']:json.loads(l) for l in open('/verif/properties.jsonl')}
rows=[]
for seed in sorted(os.listdir(root)):
    d=os.path.join(root,seed)
    if not os.path.isdir(d) or not os.path.exists(d+'/patch.diff'): continue
    pid=seed.split('-')[0]
    notes=open(d+'/notes.md').read() if os.path.exists(d+'/notes.md') else ''
    files=sorted(set(re.findall(r'^\+\+\+ b/(\S+)',open(d+'/patch.diff').read(),re.M)))
    caught=[f"{c}/{t}" for (c,t),v in sorted(res[seed].items()) if v['rc']==1 and v['violations']>0]
    missed=[f"{c}/{t}" for (c,t),v in sorted(res[seed].items()) if v['rc']==0]
    meta={
      'seed':seed,'breaks_property':pid,'property_title':props[pid]['title'],
      'files_changed':files,
      'needs_to_manifest':'see notes.md (written by the independent author of the change)',
      'confirmed':'patch applies to /repo HEAD; pinned suite 244/244 with the change; demo_test.go fails with the change and passes without it (tools/seed_eval.sh)',
      'ran':'tools/seedtest.sh seeded/%s/patch.diff <tier> <checks> (git -C /repo apply; checks; git -C /repo checkout -- .)'%seed,
      'results':{f"{c}/{t}":v for (c,t),v in sorted(res[seed].items())},
      'caught_by':caught,'not_caught_by':missed,
    }
    json.dump(meta,open(d+'/meta.json','w'),indent=1)
    rows.append((seed,', '.join(files),', '.join(caught) or '—',', '.join(missed) or ''))
print('| seeded change | files | caught by | run but not caught by |')
print('|---|---|---|---|')
for r in rows: print('| %s | %s | %s | %s |'%r)
