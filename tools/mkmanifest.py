#!/usr/bin/env python3
import json
checks = {
 "C01": ("termmc", "bounded exhaustive exploration of every constructor composition (full alphabet of library / stdlib / pkg-errors / OS / net / gRPC / user error kinds) up to the stated depth, every REG string in every slot, x hop sequences hop_K^k, on the real code; differential oracle: node-by-node shape equality with the origin, wire fixpoint from the 2nd encoding on; a twin encoded before any other use arrives the same", "bounded by term depth, REG alphabet and hop count reported in the evidence; gogo protobuf marshalling is deterministic"),
 "C02": ("termmc", "exhaustive exploration of (error, reference) pairs x transport histories (knowing processes, every singleton / the full set / all subsets of unknown types, evaluation at the unknowing process) on the real Is; oracle Is(after)=Is(before) with the reason-aware exemptions the statement names", "references: sentinels, nodes, fresh and perturbed copies; exemptions counted in the evidence; unknowing processes simulated by a registry-view hook"),
 "C03": ("termmc", "exhaustive taint exploration: every composition up to the bound x every hostile string in every unsafe slot x stages (local, k hops, unknowing hop, payload-blind hop, sender running the previous library version (+ relay)); no unsafe token may occur in any PII-free output (redacted renderings, safe details, wire reportable payload / type names, every Sentry field)", "safe/unsafe classification of constructor arguments taken from the library documentation; hostile alphabet as listed in tm/term.go"),
 "C04": ("termmc", "exhaustive exploration of trees x every subset of 'types unknown to the intermediary' x {origin->U(S)->K vs origin->K}; text, type names, safe details, byte-exact re-encoding, and equality of the final receiver's view (text, Is, annotations, %+v)", "unknowing process = registries lacking the keys (hook), cross-validated against hook-free wire renaming on every state"),
 "C05": ("faultmc", "exhaustive structured fault enumeration over every registered decoder key (from the live registries) x carrier form x payload fault x details fault x message type x embedding position, plus every single/pair field substitution on every wire message of the bounded term space; plus every register/unregister history of up to 3 (thorough 4) calls on a key in each decoder registry; DecodeError and a 23-observer battery must not panic", "nested errors structurally complete (the property's precondition); arbitrary bytes are replaced by exhaustive structured substitution"),
 "C06": ("termmc", "exhaustive exploration of compositions x hostile strings x {local, decoded, opaque} x verbs; marker grammar per line, congruence with the plain rendering for regular strings, refusal of %q/%x/%X", "bounded by depth and the hostile alphabet"),
 "C07": ("termmc", "exhaustive exploration of every hidden position (barrier cause, secondary error, error-valued format argument, mark reference) of every composition, local and after transfer; non-interference oracle: replacing the hidden sub-tree by a plain leaf of equal text changes no structural observer", "structural observers = every cause-analysis function and accessor of the public API (tm.Annotations + Is/As/HasType/If)"),
 "C08": ("termmc", "all ordered pairs over a pool of compositions, their nodes, sentinels, nil and systematically perturbed copies on the real Is/IsAny, compared with an independent reference implementation of the documented relation; reflexivity, monotonicity under every wrapper, IsAny = disjunction, nil law", "reference relation written from the doc comment using only exported functions"),
 "C09": ("termmc+corpus", "exhaustive exploration of compositions (local, decoded) x ~900 verb/flag/width/precision formats against fmt applied to Error(); structural oracle for %+v (entries, types line, own details); plus replay of the repository's 1.2k-case vetted formatting corpus under a closure-name normalisation overlay", "%p/%T out of scope (handled by fmt); headline clause decided for newline-free messages, corpus covers multi-line ones"),
 "C10": ("termmc", "exhaustive exploration of compositions against a compositional text model, node by node; transparency of annotation wrappers for text, root cause, Is, As; exhaustive constructor x nil table cross-checked with an AST scan of /repo", "text model per constructor written from the README/doc comments (tm/ops.go)"),
 "C11": ("termmc", "exhaustive exploration of compositions x hops 1..k; the full accessor vector (hints, details, links, keys, domain, tags, flags, codes, OS predicates, per-layer safe details, reportable frames, one-line source) is identical before and after; plus an order pass: the pool of depth<=2 terms observed front to back and back to front in fresh processes must give the same observations (no dependence on which other errors were looked at before)", "barrier and secondary layers' safe details excluded as the statement says"),
 "C12": ("termmc", "exhaustive retention exploration: every safe slot's token and every locally captured stack frame must be present in the Sentry report or GetAllSafeDetails locally and after k hops, including behind barriers and in secondary errors", "safe slots per the library documentation"),
 "C13": ("termmc", "exhaustive exploration of compositions with multi-cause nodes at every position, nested, x {local, k hops, unknowing hop}: tree semantics of Is/IsAny/As per node with branch order, leaf behaviour of Unwrap, branch preservation under transfer, visibility in %+v", "bounded by depth"),
 "C14": ("termmc", "exhaustive exploration of compositions; differential oracle against the real standard library errors.Is/As/Unwrap and pkg/errors.Cause", "agreement (not only implication) required on chains the other package can traverse"),
 "C15": ("termmc", "exhaustive exploration of compositions (local, decoded, opaque) on the real BuildSentryReport; counting and ordering relations between layers, stacks, exceptions, composition lines and type lines", "per-layer stacks obtained with the public GetReportableStackTrace"),
 "C16": ("callmc", "exhaustive enumeration of every exported stack-capturing / domain-computing function (cross-checked by an AST reachability scan) x depth 0..3 x 4 call paths (plain function, method via interface, generic function, method of a generic type; one link under a source path with colons) through non-inlinable helpers in distinct packages; plus a schedule dimension: 2 (thorough 3) threads calling the domain / stack constructors concurrently from different packages (identical site files in 4 directories, 1-2 calls each, same site twice, same site from two threads), every interleaving up to the preemption bound (quick 2, thorough 3) under C18's controlled scheduler on the instrumented library, each from a stated prewarmed state and followed by a sequential re-check of every site; oracle: every call returns what it returns alone and names its own caller's package / frame; separate free-running -race pass of the same bodies", "compiler must not inline the //go:noinline helpers; scheduling points are library statement boundaries and sync/atomic operations"),
 "C17": ("vermc", "exhaustive exploration of code-version assignments (old/new/other-rename/unknowing) to sender, intermediary, receiver x all registration orders of rename chains of length <= 3 for leaf and wrapper types (plain, proto-native leaf, marker-bearing), decoder-less processes, middle layers and forwarded marks, on the real registries", "a 'process' is a registry + migration-table configuration installed around each encode/decode step"),
 "C18": ("schedmc", "stateless model checking of the real code under a controlled cooperative scheduler (scheduling point before every statement of every library function): every pair of observers on a shared error, all interleavings up to the preemption bound; oracle: result equals the solo result, no panic, no deadlock; separate free-running -race pass for data races", "interleavings finer than one source statement and data races are covered only by the auxiliary -race pass (dynamic analysis, not enumeration)"),
 "C19": ("termmc", "exhaustive exploration of compositions of list-contributing constructors with repeated / empty texts, local and after a hop, against an independent list model", "model written from the doc comments"),
 "C20": ("rpcmc", "exhaustive exploration of compositions returned by a real handler behind the real server/client interceptors over an in-memory gRPC connection; differential oracle against direct EncodeError/DecodeError; (marshalled and in-memory), status code and pass-through clauses; environment answer: the caller's context live or done by the time the reply reaches the client interceptor", "gRPC's own goroutines are not under the controlled scheduler; the enumerated dimension is the input"),
}
tech = {
 "termmc": "explicit-state model checking of the implementation: bounded exhaustive enumeration of constructor/transport histories with reference-model oracles",
 "termmc+corpus": "explicit-state model checking of the implementation (bounded exhaustive enumeration) plus replay of the vetted corpus",
 "faultmc": "exhaustive fault enumeration on the real decoder",
 "callmc": "exhaustive enumeration of generated call paths on the real code, plus stateless model checking of concurrent calls from different packages under a controlled scheduler with iterative preemption bounding",
 "vermc": "explicit-state exploration of version-assignment x registration-order configurations",
 "schedmc": "stateless model checking under a controlled scheduler with iterative preemption bounding",
 "rpcmc": "explicit-state exploration through a real in-memory gRPC service",
}
m = {
 "version": 1,
 "setup_cmd": "./setup.sh",
 "hooks": {
  "guard": "verif",
  "enable": "go build -tags verif -overlay /verif/build/overlay.json (adds errbase/zz_verif_hooks.go); C18 and the schedule dimension of C16 additionally -tags verifsched -overlay /verif/build/overlay-sched.json (instrumented copies of the library + virtual scheduler package). Overlays are regenerated from /repo's working tree on every check run; nothing is committed to /repo for instrumentation",
  "baseline_off_cmd": "for m in $(cat /w/out/gomods.txt); do MF=$(cd /repo/$m && . /w/out/goenv.sh && gomodflag); (cd /repo/$m && go test $MF -json -vet=off -count=1 -timeout 25m ./...); done",
  "source_commits": [],
  "add_only": True,
 },
 "engines": [
  {"name": "termmc", "path": "mc/props + mc/tm", "serves_properties": ["C01","C02","C03","C04","C06","C07","C08","C09","C10","C11","C12","C13","C14","C15","C19"], "kind_free_text": "explicit-state exploration of constructor/transport histories on the real code"},
  {"name": "faultmc", "path": "mc/props/c05.go", "serves_properties": ["C05"], "kind_free_text": "decoder fault enumeration"},
  {"name": "schedmc", "path": "mc/schedmc", "serves_properties": ["C18", "C16"], "kind_free_text": "controlled-scheduler interleaving exploration + free-running race pass (instrumenter, scheduler and binaries shared with C16's schedule dimension, mc/callmc/conc + mc/callmc/concworker)"},
  {"name": "callmc", "path": "mc/callmc", "serves_properties": ["C16"], "kind_free_text": "generated call-path programs; concurrent call sites in four packages explored under schedmc's scheduler"},
  {"name": "vermc", "path": "mc/vermc", "serves_properties": ["C17"], "kind_free_text": "version-assignment / registration-order exploration"},
  {"name": "rpcmc", "path": "mc/props/c20.go", "serves_properties": ["C20"], "kind_free_text": "term universe through a real in-memory gRPC service"},
  {"name": "corpus", "path": "mc/props/c09.go (postC09)", "serves_properties": ["C09"], "kind_free_text": "the repository's formatting corpus as reference model"},
 ],
 "checks": [],
 "notes": "Known findings (genuine defects not repaired) and fixed findings are listed in /verif/KNOWN_FINDINGS.txt; see DESIGN.md §4.",
 "not_applicable": [],
}
for cid,(eng,text,note) in sorted(checks.items()):
    m["checks"].append({
      "property_id": cid,
      "quick_cmd": f"./check {cid} quick",
      "thorough_cmd": f"./check {cid} thorough",
      "evidence_file": f"evidence/{cid}.json",
      "replay_cmd_template": f"./check {cid} quick --replay {{path}}",
      "engine": eng,
      "level_claimed": {"category": "fault_enumeration" if cid=="C05" else "model_checking", "text": text, "design_ref": f"DESIGN.md §3 {cid}"},
      "level_note": note,
      "technique": tech[eng],
    })
json.dump(m, open('/verif/MANIFEST.json','w'), indent=1)
print("written")
