#!/bin/bash
# usage: tools/seedtest.sh <patch.diff> <tier> <ID>...
# Applies a seeded change to /repo's working tree, runs the given checks,
# prints one line per check, and ALWAYS restores /repo afterwards.
set -u
patch="$(readlink -f "$1")"; tier="$2"; shift 2
cd /verif
if ! git -C /repo diff --quiet; then echo "refusing: /repo working tree is dirty"; exit 2; fi
restore() { git -C /repo checkout -- . ; git -C /repo clean -fdq -- . >/dev/null 2>&1; }
trap restore EXIT
git -C /repo apply "$patch" || { echo "patch does not apply"; exit 2; }
for c in "$@"; do
  s=$(date +%s)
  VERIF_OUT_DIR=/tmp/seedout ./check $c $tier > /tmp/seedtest_$c.out 2>&1; rc=$?
  echo "$c rc=$rc $(( $(date +%s)-s ))s viol=$(grep -c '^VIOLATION' /tmp/seedtest_$c.out) harness=$(grep -c '^HARNESS' /tmp/seedtest_$c.out) first=$(grep -m1 -A1 '^VIOLATION' /tmp/seedtest_$c.out | tail -1 | cut -c1-120)"
done
