#!/bin/bash
# usage: tools/seed_confirm.sh <Cxx> <X>  — confirms a seeded change in its scratch worktree /tmp/wt/Cxx:
# the demonstration passes on the clean tree, fails with the change, and the pinned suite is unchanged.
set -u
id="$1"; x="$2"
export GOFLAGS=-mod=mod GOPROXY=off GOSUMDB=off GOTOOLCHAIN=local
wt=/tmp/wt/$id; sd=/verif/seeded/$id-$x
[ -f "$sd/patch.diff" ] || { echo "$id-$x: no patch"; exit 2; }
cd $wt && git checkout -q -- . && rm -rf seeddemo && mkdir seeddemo && cp $sd/demo_test.go seeddemo/demo_$(echo $x | tr A-Z a-z)_test.go
race=""; [ "$id" = C18 ] && grep -q -- "-race" $sd/notes.md 2>/dev/null && race="-race"
demo() { (cd $wt && CGO_ENABLED=${race:+1} go test -vet=off $race -count=1 ./seeddemo/ >/tmp/seed_demo_$id.out 2>&1; echo $?); }
clean=$(demo)
git -C $wt apply $sd/patch.diff || { echo "$id-$x: patch does not apply in worktree"; exit 2; }
mut=$(demo)
base=$(/verif/tools/baseline_check.py $wt | head -1)
git -C $wt checkout -q -- . ; rm -rf $wt/seeddemo
echo "$id-$x confirm: demo clean_rc=$clean mutated_rc=$mut suite: $base"
