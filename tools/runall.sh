#!/bin/bash
# runs every check of one tier and prints one summary line each
tier="${1:-quick}"; shift || true
cd "$(dirname "$0")/.."
ids="${*:-C01 C02 C03 C04 C05 C06 C07 C08 C09 C10 C11 C12 C13 C14 C15 C16 C17 C18 C19 C20}"
for c in $ids; do
  s=$(date +%s)
  ./check $c $tier > /tmp/runall_$c.out 2>&1; rc=$?
  echo "$c rc=$rc $(( $(date +%s)-s ))s viol=$(grep -c '^VIOLATION' /tmp/runall_$c.out) known=$(grep -c '^KNOWN-FINDING' /tmp/runall_$c.out) harness=$(grep -c '^HARNESS' /tmp/runall_$c.out) | $(tail -1 /tmp/runall_$c.out | cut -c1-140)"
done
