#!/usr/bin/env python3
"""Regenerates seeded/*/meta.json and replaces the detection table of DESIGN.md §7 with the current one."""
import subprocess, re
out = subprocess.run(['python3', '/verif/tools/mkseeded.py'], capture_output=True, text=True).stdout
table = out[out.index('| seeded change |'):].rstrip('\n') + '\n'
p = '/verif/DESIGN.md'
s = open(p).read()
a = s.index('| seeded change | files | caught by | run but not caught by |')
b = s.index('\nNot caught:', a)
open(p, 'w').write(s[:a] + table + s[b:])
print('table rows:', table.count('\n') - 2)
