#!/bin/bash
# usage: tools/seed_eval.sh <Cxx> <A|B> [tier] [checks...]
# 1) confirms the seeded change in the scratch worktree (suite unchanged, demo fails with / passes without)
# 2) applies it to /repo, runs the checks, restores /repo.
set -u
id="$1"; x="$2"; tier="${3:-quick}"; shift 3 2>/dev/null || shift $#
checks="${*:-$id}"
export GOFLAGS=-mod=mod GOPROXY=off GOSUMDB=off GOTOOLCHAIN=local
wt=/tmp/wt/$id; sd=/tmp/seed/$id/$x
[ -f "$sd/patch.diff" ] || { echo "$id/$x: no patch"; exit 2; }
cd $wt && git checkout -q -- . && rm -rf seeddemo && mkdir seeddemo && cp $sd/demo_test.go seeddemo/demo_$(echo $x | tr A-Z a-z)_test.go
race=""; grep -q "go test -race\|-race" $sd/demo_test.go $sd/notes.md 2>/dev/null && [ "$id" = C18 ] && race="-race"
runs="-count=1"; 
demo() { (cd $wt && CGO_ENABLED=${race:+1} go test -vet=off $race $runs ./seeddemo/ >/tmp/seed_demo.out 2>&1; echo $?); }
clean=$(demo)
git -C $wt apply $sd/patch.diff || { echo "$id/$x: patch does not apply in worktree"; exit 2; }
mut=$(demo)
base=$(/verif/tools/baseline_check.py $wt | head -1)
git -C $wt checkout -q -- . ; rm -rf $wt/seeddemo
echo "$id/$x confirm: demo clean_rc=$clean mutated_rc=$mut suite: $base"
/verif/tools/seedtest.sh $sd/patch.diff $tier $checks | sed "s|^|$id/$x check |"
