#!/bin/bash
# usage: tools/seedmatrix.sh <tier> <seed>... ; seed = C08-A ; env CHECKS="C08 C02" overrides the check list (default: the seed's own property)
# Appends one line per (seed, check) to /verif/seeded/results.tsv.
tier="$1"; shift
cd /verif
for seed in "$@"; do
  id=${seed%-*}
  checks="${CHECKS:-$id}"
  tools/seedtest.sh /verif/seeded/$seed/patch.diff $tier $checks | grep '^C[0-9]' | while read -r c rc dur viol harness first; do
    key=$(grep -m1 -A1 '^VIOLATION' /tmp/seedtest_$c.out | tail -1 | sed 's/^ *key=//; s/ count=.*//')
    printf "%s\t%s\t%s\t%s\t%s\t%s\t%s\n" "$seed" "$c" "$tier" "${rc#rc=}" "${viol#viol=}" "${harness#harness=}" "$key" >> seeded/results.tsv
    echo "$seed $c ${rc} ${viol} ${harness} $key" | cut -c1-200
  done
done
