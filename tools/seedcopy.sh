#!/bin/bash
# usage: tools/seedcopy.sh <slot> <seed> <tier> [checks...]   (seed = C08-A; default check = the seed's property)
# Runs checks against a seeded change WITHOUT touching /repo: a scratch git worktree of /repo HEAD
# (/tmp/seedrepo-<slot>) gets the patch, and a scratch copy of /verif (/tmp/seedverif-<slot>) is pointed at
# it (every "/repo" in the copy's sources is rewritten). Used while a long run occupies /repo; the result
# lines have the format of tools/seedmatrix.sh and are appended to seeded/results.tsv.
set -u
slot="$1"; seed="$2"; tier="$3"; shift 3
id=${seed%-*}; checks="${*:-$id}"
export GOFLAGS=-mod=mod GOPROXY=off GOSUMDB=off GOTOOLCHAIN=local
wt=/tmp/seedrepo-$slot; vd=/tmp/seedverif-$slot; out=/tmp/seedout-$slot
if [ ! -d $wt ]; then git -C /repo worktree add -q --detach $wt HEAD || exit 2; fi
git -C $wt checkout -q --detach "$(git -C /repo rev-parse HEAD)" && git -C $wt checkout -q -- . && git -C $wt clean -fdq
mkdir -p $vd $out
rsync -a --delete --exclude build --exclude replays --exclude evidence --exclude seeded --exclude .git /verif/ $vd/
mkdir -p $vd/build $vd/evidence $vd/replays
grep -rl '/repo' $vd/mc $vd/mkoverlay.sh $vd/check $vd/setup.sh 2>/dev/null | xargs sed -i "s#/repo#$wt#g"
git -C $wt apply /verif/seeded/$seed/patch.diff || { echo "$seed: patch does not apply"; exit 2; }
for c in $checks; do
  s=$(date +%s)
  (cd $vd && VERIF_DIR=$vd VERIF_OUT_DIR=$out ./check $c $tier) > $out/$c.out 2>&1; rc=$?
  viol=$(grep -c '^VIOLATION' $out/$c.out); harness=$(grep -c '^HARNESS' $out/$c.out)
  key=$(grep -m1 -A1 '^VIOLATION' $out/$c.out | tail -1 | sed 's/^ *key=//; s/ count=.*//')
  printf "%s\t%s\t%s\t%s\t%s\t%s\t%s\n" "$seed" "$c" "$tier" "$rc" "$viol" "$harness" "$key" >> /verif/seeded/results.tsv
  echo "$seed $c rc=$rc $(( $(date +%s)-s ))s viol=$viol harness=$harness $key" | cut -c1-220
done
git -C $wt checkout -q -- . ; git -C $wt clean -fdq
