// Package ut holds the user-defined error types of the alphabet: the kinds
// of third-party error a program composes with cockroachdb/errors. Each
// type exists in an unregistered flavour (travels as an opaque error) and,
// where it matters, a registered flavour (own encoder/decoder).
package ut

import (
	"context"
	"fmt"
	"os"

	"github.com/cockroachdb/errors/errbase"
	"github.com/cockroachdb/errors/errorspb"
	"github.com/cockroachdb/redact"
	"github.com/gogo/protobuf/proto"
)

// ---------- leaves ----------

// PtrLeaf: plain pointer leaf, unregistered.
type PtrLeaf struct{ Msg string }

func (e *PtrLeaf) Error() string { return e.Msg }

// RegLeaf: pointer leaf with a registered decoder (rebuilt from msg).
type RegLeaf struct{ Msg string }

func (e *RegLeaf) Error() string { return e.Msg }

// ValLeaf: comparable value type, unregistered.
type ValLeaf struct{ Msg string }

func (e ValLeaf) Error() string { return e.Msg }

// NCLeaf: non-comparable value type (slice field), unregistered.
type NCLeaf struct {
	Msg string
	X   []int
}

func (e NCLeaf) Error() string { return e.Msg }

// RegNCLeaf: non-comparable value type with a decoder.
type RegNCLeaf struct {
	Msg string
	X   []int
}

func (e RegNCLeaf) Error() string { return e.Msg }

// Sentinel is what IsLeaf/IsW claim to be.
var Sentinel = &PtrLeaf{Msg: "ut sentinel"}

// Sentinel2 is never matched by anything but itself.
var Sentinel2 = &PtrLeaf{Msg: "ut sentinel two"}

// ValSentinel is a value-typed sentinel.
var ValSentinel = ValLeaf{Msg: "ut value sentinel"}

// IsLeaf has an Is method (object identity with Sentinel), unregistered.
type IsLeaf struct{ Msg string }

func (e *IsLeaf) Error() string        { return e.Msg }
func (e *IsLeaf) Is(target error) bool { return target == error(Sentinel) }

// OsIsLeaf claims, through its Is method, to be os.ErrNotExist and
// context.DeadlineExceeded while carrying its own text (the way
// syscall.Errno and net's timeout errors do).
type OsIsLeaf struct{ Msg string }

func (e *OsIsLeaf) Error() string { return e.Msg }
func (e *OsIsLeaf) Is(target error) bool {
	return target == os.ErrNotExist || target == context.DeadlineExceeded
}

// TypeIsLeaf matches any reference of its own type, including the typed
// nil pointer commonly used as a type witness: Is(err, (*TypeIsLeaf)(nil)).
type TypeIsLeaf struct{ Msg string }

func (e *TypeIsLeaf) Error() string {
	if e == nil {
		return "<nil TypeIsLeaf>"
	}
	return e.Msg
}
func (e *TypeIsLeaf) Is(target error) bool { _, ok := target.(*TypeIsLeaf); return ok }

// RegIsLeaf is IsLeaf with a decoder: the Is method survives transfer.
type RegIsLeaf struct{ Msg string }

func (e *RegIsLeaf) Error() string        { return e.Msg }
func (e *RegIsLeaf) Is(target error) bool { return target == error(Sentinel) }

// AsTarget is what AsLeaf/AsW can convert themselves to.
type AsTarget struct{ From string }

func (e *AsTarget) Error() string { return "as-target from " + e.From }

// AsTargetLeaf returns the AsTarget type itself as an error value (a node
// that is directly assignable to the target AsLeaf/AsW convert to).

// AsLeaf has an As method, registered.
type AsLeaf struct{ Msg string }

func (e *AsLeaf) Error() string { return e.Msg }
func (e *AsLeaf) As(target interface{}) bool {
	if p, ok := target.(**AsTarget); ok {
		*p = &AsTarget{From: e.Msg}
		return true
	}
	return false
}

// FmtoLeaf: old-style Format only (pkg/errors style).
type FmtoLeaf struct{ Msg string }

func (e *FmtoLeaf) Error() string { return e.Msg }
func (e *FmtoLeaf) Format(s fmt.State, verb rune) {
	switch verb {
	case 'v':
		if s.Flag('+') {
			fmt.Fprint(s, e.Msg)
			fmt.Fprintf(s, "\n-- this is fmto payload")
			return
		}
		fallthrough
	default:
		fmt.Fprintf(s, fmt.Sprintf("%%%s%c", flags(s), verb), e.Msg)
	}
}

func flags(s fmt.State) string {
	f := ""
	for _, c := range "#+ -0" {
		if s.Flag(int(c)) {
			f += string(c)
		}
	}
	return f
}

// FmtpLeaf: Format forwards to FormatError but no FormatError method.
type FmtpLeaf struct{ Msg string }

func (e *FmtpLeaf) Error() string                 { return e.Msg }
func (e *FmtpLeaf) Format(s fmt.State, verb rune) { errbase.FormatError(e, s, verb) }

// FELeaf: errors.Formatter with detail.
type FELeaf struct{ Msg, Detail string }

func (e *FELeaf) Error() string                 { return e.Msg }
func (e *FELeaf) Format(s fmt.State, verb rune) { errbase.FormatError(e, s, verb) }
func (e *FELeaf) FormatError(p errbase.Printer) error {
	p.Print(e.Msg)
	if p.Detail() {
		p.Printf("-- fe detail: %s", e.Detail)
	}
	return nil
}

// SFELeaf: SafeFormatter with a safe constant part and an unsafe argument;
// Error() delegates to the formatter.
type SFELeaf struct{ SafePart, UnsafePart string }

func (e *SFELeaf) Error() string                 { return fmt.Sprint(e) }
func (e *SFELeaf) Format(s fmt.State, verb rune) { errbase.FormatError(e, s, verb) }
func (e *SFELeaf) SafeFormatError(p errbase.Printer) error {
	p.Printf("%s %s", redact.Safe(e.SafePart), e.UnsafePart)
	return nil
}

// Opt is sometimes a leaf and sometimes a wrapper (optional cause).
type Opt struct {
	Msg   string
	Cause error
}

func (e *Opt) Error() string {
	if e.Cause == nil {
		return e.Msg
	}
	return e.Msg + ": " + e.Cause.Error()
}
func (e *Opt) Unwrap() error { return e.Cause }

// TimeoutLeaf implements interface{ Timeout() bool }.
type TimeoutLeaf struct{ Msg string }

func (e *TimeoutLeaf) Error() string { return e.Msg }
func (e *TimeoutLeaf) Timeout() bool { return true }

// ---------- wrappers ----------

// UnwrapW: Unwrap only, "msg: cause".
type UnwrapW struct {
	Msg   string
	Cause error
}

func (e *UnwrapW) Error() string { return e.Msg + ": " + e.Cause.Error() }
func (e *UnwrapW) Unwrap() error { return e.Cause }

// CauseW: Cause only.
type CauseW struct {
	Msg string
	C   error
}

func (e *CauseW) Error() string { return e.Msg + ": " + e.C.Error() }
func (e *CauseW) Cause() error  { return e.C }

// BothW: Cause and Unwrap.
type BothW struct {
	Msg string
	C   error
}

func (e *BothW) Error() string { return e.Msg + ": " + e.C.Error() }
func (e *BothW) Cause() error  { return e.C }
func (e *BothW) Unwrap() error { return e.C }

// ValW: value-typed wrapper.
type ValW struct {
	Msg string
	C   error
}

func (e ValW) Error() string { return e.Msg + ": " + e.C.Error() }
func (e ValW) Unwrap() error { return e.C }

// NCW: non-comparable value-typed wrapper.
type NCW struct {
	Msg string
	C   error
	X   []int
}

func (e NCW) Error() string { return e.Msg + ": " + e.C.Error() }
func (e NCW) Unwrap() error { return e.C }

// FullW owns the whole message (elides its cause), unregistered.
type FullW struct {
	Msg string
	C   error
}

func (e *FullW) Error() string { return e.Msg }
func (e *FullW) Unwrap() error { return e.C }

// SuffixW puts its text after the cause ("cause - msg"): a full-message
// owner as far as prefix extraction can tell.
type SuffixW struct {
	Msg string
	C   error
}

func (e *SuffixW) Error() string { return e.C.Error() + " - " + e.Msg }
func (e *SuffixW) Unwrap() error { return e.C }

// EmptyW has no message of its own.
type EmptyW struct{ C error }

func (e *EmptyW) Error() string { return e.C.Error() }
func (e *EmptyW) Unwrap() error { return e.C }

// IsW has an Is method matching Sentinel, unregistered.
type IsW struct {
	Msg string
	C   error
}

func (e *IsW) Error() string        { return e.Msg + ": " + e.C.Error() }
func (e *IsW) Unwrap() error        { return e.C }
func (e *IsW) Is(target error) bool { return target == error(Sentinel) }

// AsW has an As method.
type AsW struct {
	Msg string
	C   error
}

func (e *AsW) Error() string { return e.Msg + ": " + e.C.Error() }
func (e *AsW) Unwrap() error { return e.C }
func (e *AsW) As(target interface{}) bool {
	if p, ok := target.(**AsTarget); ok {
		*p = &AsTarget{From: e.Msg}
		return true
	}
	return false
}

// RegW: registered prefix wrapper (payload carries the prefix).
type RegW struct {
	Msg string
	C   error
}

func (e *RegW) Error() string { return e.Msg + ": " + e.C.Error() }
func (e *RegW) Unwrap() error { return e.C }

// RegFullW: registered full-message wrapper (explicit FullMessage type).
type RegFullW struct {
	Msg string
	C   error
}

func (e *RegFullW) Error() string                 { return fmt.Sprintf("%v", e) }
func (e *RegFullW) Cause() error                  { return e.C }
func (e *RegFullW) Format(s fmt.State, verb rune) { errbase.FormatError(e, s, verb) }
func (e *RegFullW) FormatError(p errbase.Printer) error {
	p.Print(e.Msg)
	return nil
}

// MigW: a type that was renamed (migration registered), annotation-only.
type MigW struct{ C error }

func (e *MigW) Error() string                 { return e.C.Error() }
func (e *MigW) Cause() error                  { return e.C }
func (e *MigW) Format(s fmt.State, verb rune) { errbase.FormatError(e, s, verb) }

// MovedW: a type that kept its name but moved to another import path
// (repository move, /v2 module path, vendoring): migration registered.
type MovedW struct{ C error }

func (e *MovedW) Error() string                 { return e.C.Error() }
func (e *MovedW) Cause() error                  { return e.C }
func (e *MovedW) Format(s fmt.State, verb rune) { errbase.FormatError(e, s, verb) }

// FEW: errors.Formatter wrapper with detail.
type FEW struct {
	Msg string
	C   error
}

func (e *FEW) Error() string                 { return e.Msg + ": " + e.C.Error() }
func (e *FEW) Unwrap() error                 { return e.C }
func (e *FEW) Format(s fmt.State, verb rune) { errbase.FormatError(e, s, verb) }
func (e *FEW) FormatError(p errbase.Printer) error {
	p.Print(e.Msg)
	if p.Detail() {
		p.Printf("-- few detail\nsecond line")
	}
	return e.C
}

// SFEW: SafeFormatter wrapper, Error() delegating.
type SFEW struct {
	Msg string
	C   error
}

func (e *SFEW) Error() string                 { return fmt.Sprint(e) }
func (e *SFEW) Cause() error                  { return e.C }
func (e *SFEW) Format(s fmt.State, verb rune) { errbase.FormatError(e, s, verb) }
func (e *SFEW) SafeFormatError(p errbase.Printer) error {
	p.Printf("safe %s", e.Msg)
	return e.C
}

// FmtoW: old-style Format-only wrapper.
type FmtoW struct {
	Msg string
	C   error
}

func (e *FmtoW) Error() string { return e.Msg + ": " + e.C.Error() }
func (e *FmtoW) Unwrap() error { return e.C }
func (e *FmtoW) Format(s fmt.State, verb rune) {
	switch verb {
	case 'v':
		if s.Flag('+') {
			fmt.Fprintf(s, "%+v", e.C)
			fmt.Fprintf(s, "\n-- this is fmto wrapper payload")
			return
		}
		fallthrough
	default:
		fmt.Fprintf(s, fmt.Sprintf("%%%s%c", flags(s), verb), e.Error())
	}
}

// FmtpW: Format forwards to FormatError, no FormatError method.
type FmtpW struct {
	Msg string
	C   error
}

func (e *FmtpW) Error() string                 { return e.Msg + ": " + e.C.Error() }
func (e *FmtpW) Unwrap() error                 { return e.C }
func (e *FmtpW) Format(s fmt.State, verb rune) { errbase.FormatError(e, s, verb) }

// DelegW: Error() delegates to FormatError via Format.
type DelegW struct {
	Msg string
	C   error
}

func (e *DelegW) Error() string                 { return fmt.Sprintf("%v", e) }
func (e *DelegW) Cause() error                  { return e.C }
func (e *DelegW) Format(s fmt.State, verb rune) { errbase.FormatError(e, s, verb) }
func (e *DelegW) FormatError(p errbase.Printer) error {
	p.Print(e.Msg)
	if p.Detail() {
		p.Print("-- multi-line\nwrapper payload")
	}
	return e.C
}

// ---------- multi-cause ----------

// UMulti: user Unwrap() []error type, no decoder, no formatter.
type UMulti struct {
	Msg string
	Es  []error
}

func (e *UMulti) Error() string {
	s := e.Msg
	for _, c := range e.Es {
		s += " | " + c.Error()
	}
	return s
}
func (e *UMulti) Unwrap() []error { return e.Es }

// RegMulti: registered multi-cause type with SafeFormatError.
type RegMulti struct {
	Msg string
	Es  []error
}

func (e *RegMulti) Error() string                 { return fmt.Sprint(e) }
func (e *RegMulti) Format(s fmt.State, verb rune) { errbase.FormatError(e, s, verb) }
func (e *RegMulti) SafeFormatError(p errbase.Printer) error {
	p.Printf("%s", e.Msg)
	return nil
}
func (e *RegMulti) Unwrap() []error { return e.Es }

// IsMulti: a multi-cause type that also has an Is method.
type IsMulti struct {
	Msg string
	Es  []error
}

func (e *IsMulti) Error() string {
	s := e.Msg
	for _, c := range e.Es {
		s += " / " + c.Error()
	}
	return s
}
func (e *IsMulti) Unwrap() []error      { return e.Es }
func (e *IsMulti) Is(target error) bool { return target == error(Sentinel) }

// AsMulti: a multi-cause type whose own As method declines every target
// (the search must then go on into its branches, as the standard
// library's does).
type AsMulti struct {
	Msg string
	Es  []error
}

func (e *AsMulti) Error() string {
	s := e.Msg
	for _, c := range e.Es {
		s += " / " + c.Error()
	}
	return s
}
func (e *AsMulti) Unwrap() []error     { return e.Es }
func (e *AsMulti) As(interface{}) bool { return false }

// ---------- registration ----------

func key(e error) errbase.TypeKey { return errbase.GetTypeKey(e) }

func init() {
	errbase.RegisterTypeMigration("verif/old/path", "oldpkg.oldMigW", (*MigW)(nil))
	errbase.RegisterTypeMigration("verif/elsewhere/ut", "*ut.MovedW", (*MovedW)(nil))
	errbase.RegisterWrapperDecoder(key(&MovedW{}), func(_ context.Context, cause error, _ string, _ []string, _ proto.Message) error {
		return &MovedW{C: cause}
	})
	errbase.RegisterWrapperDecoder(key(&MigW{}), func(_ context.Context, cause error, _ string, _ []string, _ proto.Message) error {
		return &MigW{C: cause}
	})

	errbase.RegisterLeafDecoder(key(&RegLeaf{}), func(_ context.Context, msg string, _ []string, _ proto.Message) error {
		return &RegLeaf{Msg: msg}
	})
	errbase.RegisterLeafDecoder(key(RegNCLeaf{}), func(_ context.Context, msg string, _ []string, _ proto.Message) error {
		return RegNCLeaf{Msg: msg, X: []int{1}}
	})
	errbase.RegisterLeafDecoder(key(&RegIsLeaf{}), func(_ context.Context, msg string, _ []string, _ proto.Message) error {
		return &RegIsLeaf{Msg: msg}
	})
	errbase.RegisterLeafDecoder(key(&AsLeaf{}), func(_ context.Context, msg string, _ []string, _ proto.Message) error {
		return &AsLeaf{Msg: msg}
	})
	errbase.RegisterLeafDecoder(key(&TimeoutLeaf{}), func(_ context.Context, msg string, _ []string, _ proto.Message) error {
		return &TimeoutLeaf{Msg: msg}
	})

	errbase.RegisterWrapperEncoder(key(&RegW{}), func(_ context.Context, err error) (string, []string, proto.Message) {
		w := err.(*RegW)
		return w.Msg, nil, &errorspb.StringPayload{Msg: w.Msg}
	})
	errbase.RegisterWrapperDecoder(key(&RegW{}), func(_ context.Context, cause error, _ string, _ []string, payload proto.Message) error {
		m, ok := payload.(*errorspb.StringPayload)
		if !ok {
			return nil
		}
		return &RegW{Msg: m.Msg, C: cause}
	})
	errbase.RegisterWrapperEncoderWithMessageType(key(&RegFullW{}), func(_ context.Context, err error) (string, []string, proto.Message, errbase.MessageType) {
		return err.(*RegFullW).Msg, nil, nil, errbase.FullMessage
	})
	errbase.RegisterWrapperDecoder(key(&RegFullW{}), func(_ context.Context, cause error, msg string, _ []string, _ proto.Message) error {
		return &RegFullW{Msg: msg, C: cause}
	})
	errbase.RegisterWrapperDecoder(key(&AsW{}), func(_ context.Context, cause error, msg string, _ []string, _ proto.Message) error {
		return &AsW{Msg: msg, C: cause}
	})

	errbase.RegisterMultiCauseEncoder(key(&RegMulti{}), func(_ context.Context, err error) (string, []string, proto.Message) {
		m := err.(*RegMulti).Msg
		return m, nil, &errorspb.StringPayload{Msg: m}
	})
	errbase.RegisterMultiCauseDecoder(key(&RegMulti{}), func(_ context.Context, causes []error, _ string, _ []string, payload proto.Message) error {
		m, ok := payload.(*errorspb.StringPayload)
		if !ok {
			return nil
		}
		return &RegMulti{Msg: m.Msg, Es: causes}
	})
}

// ProtoW is a wrapper that is itself a protobuf message (as generated RPC
// error types are): the prefix is a message field, the cause is not. It has
// no registered encoder or decoder.
type ProtoW struct {
	Msg string `protobuf:"bytes,1,opt,name=msg,proto3" json:"msg,omitempty"`
	C   error  `protobuf:"-" json:"-"`
}

func (m *ProtoW) Reset()                { *m = ProtoW{} }
func (m *ProtoW) String() string        { return "msg:" + m.Msg }
func (*ProtoW) ProtoMessage()           {}
func (*ProtoW) XXX_MessageName() string { return "verif.ut.ProtoW" }
func (m *ProtoW) Error() string {
	if m.C == nil {
		return m.Msg
	}
	return m.Msg + ": " + m.C.Error()
}
func (m *ProtoW) Unwrap() error { return m.C }

func init() { proto.RegisterType((*ProtoW)(nil), "verif.ut.ProtoW") }
