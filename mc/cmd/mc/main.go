// Command mc is the model checker for cockroachdb/errors (see /verif/DESIGN.md).
package main

import (
	"verif/mc/core"
	_ "verif/mc/props"
)

func main() { core.Main() }
