// Command mc is the model checker for cockroachdb/errors (see /verif/DESIGN.md).
package main

import (
	_ "verif/mc/callmc"
	"verif/mc/core"
	_ "verif/mc/props"
	_ "verif/mc/schedmc"
	_ "verif/mc/vermc"
)

func main() { core.Main() }
