// Command mc-race is the auxiliary race pass of check C18: the same
// observer bodies as the scheduler pass (verif/mc/schedmc/driver), running
// FREE — no scheduler, no instrumentation — from 16 goroutines on one shared
// error, in a binary built with -race. The parent (verif/mc/schedmc.RacePass)
// runs it with GORACE="halt_on_error=0 exitcode=66 log_path=…" and turns
// every race report into a violation; this program itself only compares
// every result with the observer's solo result and prints a summary.
//
// This is a dynamic analysis, not an enumeration of schedules.
//
//	mc-race <quick|thorough>
package main

import (
	"encoding/json"
	"fmt"
	"os"
	"sync"
	"time"

	"verif/mc/schedmc"
	"verif/mc/schedmc/driver"
)

const goroutines = 16

func main() {
	tier := "quick"
	if len(os.Args) > 1 {
		tier = os.Args[1]
	}
	rounds, iters := 4, 30
	if tier == "thorough" {
		rounds, iters = 8, 250
	}
	t0 := time.Now()
	sum := schedmc.RaceSummary{Goroutines: goroutines, Rounds: rounds, Iterations: iters,
		Shapes: len(driver.Shapes), Observers: len(driver.Observers)}
	type mkey struct {
		shape, obs string
		panicked   bool
	}
	mism := map[mkey]*schedmc.RaceMismatch{}
	var mu sync.Mutex // guards mism and sum.Calls (harness state only)

	for _, sh := range driver.Shapes {
		// solo results: each observer alone on its own fresh error.
		solo := make([]string, len(driver.Observers))
		for i, o := range driver.Observers {
			solo[i], _ = driver.Guard(o, sh.Build())
		}
		for round := 0; round < rounds; round++ {
			// a fresh shared error per round: lazily initialised state,
			// if a change introduces any, starts cold in every round.
			shared := sh.Build()
			start := make(chan struct{})
			var wg sync.WaitGroup
			for g := 0; g < goroutines; g++ {
				wg.Add(1)
				go func(g int) {
					defer wg.Done()
					<-start
					var calls int64
					for it := 0; it < iters; it++ {
						for k := range driver.Observers {
							// rotate so that different observers overlap.
							i := (k + g + it) % len(driver.Observers)
							o := driver.Observers[i]
							got, p := driver.Guard(o, shared)
							calls++
							if got != solo[i] {
								mu.Lock()
								mk := mkey{sh.Name, o.Name, p}
								if m := mism[mk]; m != nil {
									m.Count++
								} else {
									mism[mk] = &schedmc.RaceMismatch{Shape: sh.Name, Observer: o.Name, Panic: p,
										Got: driver.Short(got, 1200), Want: driver.Short(solo[i], 1200), Count: 1}
								}
								mu.Unlock()
							}
						}
					}
					mu.Lock()
					sum.Calls += calls
					mu.Unlock()
				}(g)
			}
			close(start)
			wg.Wait()
		}
	}
	for _, m := range mism {
		sum.Mismatches = append(sum.Mismatches, *m)
	}
	sum.WallS = time.Since(t0).Seconds()
	b, _ := json.Marshal(sum)
	fmt.Printf("@@RACE-SUMMARY@@\n%s\n", b)
}
