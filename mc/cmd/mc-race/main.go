// Command mc-race is the auxiliary race pass of check C18: the same
// observer bodies as the scheduler pass (verif/mc/schedmc/driver), running
// FREE — no scheduler, no instrumentation — from 16 goroutines on shared
// errors, in a binary built with -race. The parent (verif/mc/schedmc) runs
// several fresh processes of it with GORACE="halt_on_error=0 exitcode=66
// log_path=…" and turns every race report into a violation; this program
// itself only compares every result with the observer's solo result and
// prints a summary.
//
// Order matters. Each process does, in this order:
//
//  1. COLD phase — the very first library use after package initialisation:
//     one shared error per shape (the standard shapes plus ~100 shapes over
//     generic user types that nothing has looked at before) is built, then
//     all goroutines are released together by one closed channel and each
//     runs every observer on every shape, each goroutine in its own rotation.
//     Lazily-filled package-level state (type-name caches, sync.Once-like
//     globals) is therefore first touched concurrently. No solo baseline has
//     been computed yet: that would warm it.
//
//  2. solo baselines (each observer alone on a fresh error), and comparison of
//     every cold-phase result against them.
//
//  3. rounds: every round builds brand-new shared objects for all standard
//     shapes and releases all goroutines on them at once (start gate per
//     round), each goroutine with its own rotation of the observers: state
//     that is lazily initialised per error VALUE is cold in every round.
//     Reference results come from twin objects, never from a shared one.
//
//  4. stampede: for each observer that formats or encodes, 48 goroutines are
//     released together and ALL run that one observer on the shapes whose
//     rendering nests formatting, so that far more calls are in flight at
//     one instant than any other phase produces.
//
// The goroutines share no harness state while they run (results go to
// per-goroutine slices): harness synchronisation would add happens-before
// edges and hide races.
//
// This is a dynamic analysis, not an enumeration of schedules.
//
//	mc-race <quick|thorough> [rounds iterations]
//	mc-race c16 <quick|thorough> [rounds iterations]   (check C16, see verif/mc/callmc/conc/race.go)
package main

import (
	"encoding/json"
	"fmt"
	"os"
	"strconv"
	"sync"
	"time"

	"verif/mc/callmc/conc"
	"verif/mc/schedmc"
	"verif/mc/schedmc/driver"
)

const goroutines = 16

// stampede phase: goroutines per observer, iterations, observers, shapes.
const (
	stampedeGoroutines = 48
	stampedeIters      = 3
)

var (
	stampedeObservers = map[string]bool{"Error": true, "v": true, "plusv": true, "redact": true, "Encode": true, "SafeDetails": true, "Sentry": true}
	stampedeShapes    = map[string]bool{"barrier": true, "secondary": true, "join": true, "decoded-wrapf": true, "local-annot": true}
)

type mkey struct {
	shape, obs string
	panicked   bool
}

type result struct {
	s string
	p bool
}

func main() {
	// mc-race c16 <tier>: the race pass of C16's schedule dimension
	// (verif/mc/callmc/conc), same binary, different bodies.
	if len(os.Args) > 1 && os.Args[1] == "c16" {
		conc.RaceMain(os.Args[2:])
		return
	}
	tier := "quick"
	if len(os.Args) > 1 {
		tier = os.Args[1]
	}
	rounds, iters := 6, 5
	if tier == "thorough" {
		rounds, iters = 25, 5
	}
	if len(os.Args) > 3 {
		rounds, _ = strconv.Atoi(os.Args[2])
		iters, _ = strconv.Atoi(os.Args[3])
	}
	t0 := time.Now()
	nobs := len(driver.Observers)
	sum := schedmc.RaceSummary{Goroutines: goroutines, Rounds: rounds, Iterations: iters,
		Shapes: len(driver.Shapes), Observers: nobs}
	mism := map[mkey]*schedmc.RaceMismatch{}
	note := func(sh *driver.Shape, o *driver.Observer, got result, want string) {
		mk := mkey{sh.Name, o.Name, got.p}
		if m := mism[mk]; m != nil {
			m.Count++
			return
		}
		mism[mk] = &schedmc.RaceMismatch{Shape: sh.Name, Observer: o.Name, Panic: got.p,
			Got: driver.Short(got.s, 1200), Want: driver.Short(want, 1200), Count: 1}
	}

	// ---- 1. cold phase: nothing below has run an observer yet.
	var coldShapes []*driver.Shape
	coldShapes = append(coldShapes, driver.Shapes...)
	for _, f := range driver.FreshTypes {
		coldShapes = append(coldShapes, f.Shapes...)
	}
	shared := make([]error, len(coldShapes))
	for i, sh := range coldShapes {
		shared[i] = sh.Build()
	}
	cold := make([][]result, goroutines) // [goroutine][shape*nobs+observer]
	start := make(chan struct{})
	var wg sync.WaitGroup
	for g := 0; g < goroutines; g++ {
		cold[g] = make([]result, len(coldShapes)*nobs)
		wg.Add(1)
		go func(g int, out []result) {
			defer wg.Done()
			ns := len(coldShapes)
			<-start
			for k := 0; k < ns; k++ {
				// every goroutine walks the shapes in its own rotation, in
				// alternating direction, so that first uses of a type by
				// one goroutine overlap with uses of other types by others.
				si := (k + g*ns/goroutines) % ns
				if g%2 == 1 {
					si = (ns - 1 - k + g*ns/goroutines) % ns
				}
				for j := 0; j < nobs; j++ {
					oi := (j + g) % nobs
					s, p := driver.Guard(driver.Observers[oi], shared[si])
					out[si*nobs+oi] = result{s, p}
				}
			}
		}(g, cold[g])
	}
	close(start)
	wg.Wait()
	sum.ColdShapes = len(coldShapes)
	sum.ColdCalls = int64(goroutines * len(coldShapes) * nobs)

	// ---- 2. solo baselines, computed only now; compare the cold phase.
	solo := map[*driver.Shape][]string{}
	for si, sh := range coldShapes {
		want := make([]string, nobs)
		for oi, o := range driver.Observers {
			want[oi], _ = driver.Guard(o, sh.Build())
			for g := 0; g < goroutines; g++ {
				if got := cold[g][si*nobs+oi]; got.s != want[oi] {
					note(sh, o, got, want[oi])
				}
			}
		}
		solo[sh] = want
	}
	cold = nil

	// ---- 3. rounds on the standard shapes. Every round builds brand-new
	// shared objects for ALL shapes (nothing has looked at them: reference
	// results come from the twins of phase 2) and releases all goroutines on
	// them at once, so that per-object lazily initialised state is first
	// touched concurrently in every round.
	type badResult struct {
		si, oi int
		got    result
	}
	std := driver.Shapes
	ns := len(std)
	for round := 0; round < rounds; round++ {
		objs := make([]error, ns)
		for i, sh := range std {
			objs[i] = sh.Build()
		}
		start := make(chan struct{})
		bad := make([][]badResult, goroutines)
		for g := 0; g < goroutines; g++ {
			wg.Add(1)
			go func(g int) {
				defer wg.Done()
				<-start
				for it := 0; it < iters; it++ {
					for k := 0; k < ns; k++ {
						// even rounds: all goroutines arrive at each fresh
						// object together; odd rounds: each goroutine has
						// its own rotation of the shapes.
						si := k
						if round%2 == 1 {
							si = (k + g*ns/goroutines) % ns
						}
						want := solo[std[si]]
						for j := 0; j < nobs; j++ {
							// rotate so that different observers overlap.
							oi := (j + g + it) % nobs
							s, p := driver.Guard(driver.Observers[oi], objs[si])
							if s != want[oi] && len(bad[g]) < 100 {
								bad[g] = append(bad[g], badResult{si, oi, result{s, p}})
							}
						}
					}
				}
			}(g)
		}
		close(start)
		wg.Wait()
		sum.Calls += int64(goroutines * iters * ns * nobs)
		for g := range bad {
			for _, b := range bad[g] {
				note(std[b.si], driver.Observers[b.oi], b.got, solo[std[b.si]][b.oi])
			}
		}
	}
	// ---- 4. stampede: many goroutines inside the SAME formatting/encoding
	// observer at the same instant, on shapes whose rendering nests
	// formatting (a barrier's masked error, a secondary error, join branches,
	// opaque wrappers, safe-detail formatting). Process-global state that is
	// correct for a few concurrent calls but not for many (in-flight
	// counters, bounded pools, …) only shows under such a load; it is no data
	// race, only the comparison with the twin reference can see it.
	var stShapes []int
	for i, sh := range std {
		if stampedeShapes[sh.Name] {
			stShapes = append(stShapes, i)
		}
	}
	for oi, o := range driver.Observers {
		if !stampedeObservers[o.Name] {
			continue
		}
		objs := make([]error, ns)
		for _, i := range stShapes {
			objs[i] = std[i].Build()
		}
		start := make(chan struct{})
		bad := make([][]badResult, stampedeGoroutines)
		for g := 0; g < stampedeGoroutines; g++ {
			wg.Add(1)
			go func(g int) {
				defer wg.Done()
				<-start
				for it := 0; it < stampedeIters; it++ {
					for k := range stShapes {
						si := stShapes[(k+g)%len(stShapes)]
						s, p := driver.Guard(o, objs[si])
						if s != solo[std[si]][oi] && len(bad[g]) < 20 {
							bad[g] = append(bad[g], badResult{si, oi, result{s, p}})
						}
					}
				}
			}(g)
		}
		close(start)
		wg.Wait()
		sum.StampedeCalls += int64(stampedeGoroutines * stampedeIters * len(stShapes))
		for g := range bad {
			for _, b := range bad[g] {
				note(std[b.si], o, b.got, solo[std[b.si]][b.oi])
			}
		}
	}
	sum.StampedeGoroutines = stampedeGoroutines
	for _, m := range mism {
		sum.Mismatches = append(sum.Mismatches, *m)
	}
	sum.WallS = time.Since(t0).Seconds()
	b, _ := json.Marshal(sum)
	fmt.Printf("@@RACE-SUMMARY@@\n%s\n", b)
}
