//go:build verifsched

// Command mc-sched is the worker binary of check C18: the C18 explorer
// linked against the INSTRUMENTED copy of the library. It is built by
// verif/mc/schedmc.Pre with
//
//	go build -tags verif,verifsched -overlay /verif/build/overlay-sched.json ./cmd/mc-sched
//
// and launched by the framework as `mc-sched worker C18 …`.
package main

import (
	"verif/mc/core"
	_ "verif/mc/schedmc/worker"
)

func main() { core.Main() }
