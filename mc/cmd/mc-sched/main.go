//go:build verifsched

// Command mc-sched is the worker binary of check C18: the C18 explorer
// linked against the INSTRUMENTED copy of the library. It is built by
// verif/mc/schedmc.Pre with
//
//	go build -tags verif,verifsched -overlay /verif/build/overlay-sched.json ./cmd/mc-sched
//
// and launched by the framework as `mc-sched worker C18 …`. The same binary
// also carries the schedule dimension of check C16 (`mc-sched worker C16 …`,
// verif/mc/callmc/concworker), launched by C16's pre-step.
package main

import (
	_ "verif/mc/callmc/concworker" // check C16, schedule dimension
	"verif/mc/core"
	_ "verif/mc/schedmc/worker"
)

func main() { core.Main() }
