// Command instr regenerates the instrumented copy of the library and the
// build overlays used by the C18 check (see verif/mc/schedmc/instrument).
//
//	instr            regenerate /verif/build/instr, overlay-sched.json, overlay-race.json
//	instr -v         same, and print statistics
//
// It reads /repo's current working tree (plus VERIF_MUTANT_DIR, demo only)
// and writes only under /verif/build.
package main

import (
	"fmt"
	"os"

	"verif/mc/schedmc/instrument"
)

func main() {
	cfg := instrument.Default()
	st, err := instrument.Run(cfg)
	if err != nil {
		fmt.Fprintln(os.Stderr, "instr:", err)
		os.Exit(1)
	}
	if len(os.Args) > 1 && os.Args[1] == "-v" {
		fmt.Printf("instrumented %d files in %d packages: %d scheduling points, %d sync imports redirected\n",
			st.Files, st.Packages, st.Points, st.SyncRewrites)
		if len(st.Mutants) > 0 {
			fmt.Printf("MUTANT files from %s: %v\n", cfg.MutantDir, st.Mutants)
		}
	}
}
