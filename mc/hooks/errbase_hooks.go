//go:build verif

// This file is NOT part of cockroachdb/errors. It is added to package errbase
// at build time by /verif's `go build -tags verif -overlay` (see
// /verif/DESIGN.md §2). It only adds code: read-only views of, and scoped
// save/restore for, the process-global registries, so that the model checker
// can simulate processes that know fewer (or other) error types.
package errbase

import "sort"

// VerifRegistryKeys returns the sorted keys of the five registries.
func VerifRegistryKeys() (leafEnc, leafDec, wrapEnc, wrapDec, multiDec []string) {
	for k := range leafEncoders {
		leafEnc = append(leafEnc, string(k))
	}
	for k := range leafDecoders {
		leafDec = append(leafDec, string(k))
	}
	for k := range encoders {
		wrapEnc = append(wrapEnc, string(k))
	}
	for k := range decoders {
		wrapDec = append(wrapDec, string(k))
	}
	for k := range multiCauseDecoders {
		multiDec = append(multiDec, string(k))
	}
	sort.Strings(leafEnc)
	sort.Strings(leafDec)
	sort.Strings(wrapEnc)
	sort.Strings(wrapDec)
	sort.Strings(multiDec)
	return
}

// VerifWithoutTypes runs fn in a process view where the given type keys
// have no encoder and no decoder (an older binary / a binary that never
// linked the package defining them). Registries are restored afterwards.
func VerifWithoutTypes(keys []string, fn func()) {
	type saved struct {
		le LeafEncoder
		ld LeafDecoder
		we WrapperEncoderWithMessageType
		wd WrapperDecoder
		md MultiCauseDecoder
	}
	sv := make(map[TypeKey]saved, len(keys))
	for _, ks := range keys {
		k := TypeKey(ks)
		if _, dup := sv[k]; dup {
			continue
		}
		sv[k] = saved{leafEncoders[k], leafDecoders[k], encoders[k], decoders[k], multiCauseDecoders[k]}
		delete(leafEncoders, k)
		delete(leafDecoders, k)
		delete(encoders, k)
		delete(decoders, k)
		delete(multiCauseDecoders, k)
	}
	defer func() {
		for k, s := range sv {
			if s.le != nil {
				leafEncoders[k] = s.le
			}
			if s.ld != nil {
				leafDecoders[k] = s.ld
			}
			if s.we != nil {
				encoders[k] = s.we
			}
			if s.wd != nil {
				decoders[k] = s.wd
			}
			if s.md != nil {
				multiCauseDecoders[k] = s.md
			}
		}
	}()
	fn()
}

// VerifRegistrySnapshot is an opaque copy of all registries and of the
// migration table.
type VerifRegistrySnapshot struct {
	le map[TypeKey]LeafEncoder
	ld map[TypeKey]LeafDecoder
	we map[TypeKey]WrapperEncoderWithMessageType
	wd map[TypeKey]WrapperDecoder
	md map[TypeKey]MultiCauseDecoder
	bw map[TypeKey]TypeKey
}

// VerifSnapshotRegistries copies the current registries.
func VerifSnapshotRegistries() *VerifRegistrySnapshot {
	s := &VerifRegistrySnapshot{
		le: map[TypeKey]LeafEncoder{}, ld: map[TypeKey]LeafDecoder{},
		we: map[TypeKey]WrapperEncoderWithMessageType{}, wd: map[TypeKey]WrapperDecoder{},
		md: map[TypeKey]MultiCauseDecoder{}, bw: map[TypeKey]TypeKey{},
	}
	for k, v := range leafEncoders {
		s.le[k] = v
	}
	for k, v := range leafDecoders {
		s.ld[k] = v
	}
	for k, v := range encoders {
		s.we[k] = v
	}
	for k, v := range decoders {
		s.wd[k] = v
	}
	for k, v := range multiCauseDecoders {
		s.md[k] = v
	}
	for k, v := range backwardRegistry {
		s.bw[k] = v
	}
	return s
}

// VerifInstallRegistries makes a copy of the snapshot current.
func VerifInstallRegistries(s *VerifRegistrySnapshot) {
	leafEncoders = map[TypeKey]LeafEncoder{}
	leafDecoders = map[TypeKey]LeafDecoder{}
	encoders = map[TypeKey]WrapperEncoderWithMessageType{}
	decoders = map[TypeKey]WrapperDecoder{}
	multiCauseDecoders = map[TypeKey]MultiCauseDecoder{}
	// The migration table is emptied through the library's own function,
	// not by assigning the variable: whatever that function also resets
	// (e.g. a cache of type keys derived from the table) is then reset here
	// too, so that a correct implementation stays consistent under this
	// hook. The restore func is deliberately dropped. The fresh table is
	// then filled entry by entry, before the library can observe anything.
	_ = TestingWithEmptyMigrationRegistry()
	for k, v := range s.le {
		leafEncoders[k] = v
	}
	for k, v := range s.ld {
		leafDecoders[k] = v
	}
	for k, v := range s.we {
		encoders[k] = v
	}
	for k, v := range s.wd {
		decoders[k] = v
	}
	for k, v := range s.md {
		multiCauseDecoders[k] = v
	}
	for k := range backwardRegistry {
		// only if the library's function did not leave an empty table
		delete(backwardRegistry, k)
	}
	for k, v := range s.bw {
		backwardRegistry[k] = v
	}
}

// VerifMigrationTable returns a copy of the migration table.
func VerifMigrationTable() map[string]string {
	r := map[string]string{}
	for k, v := range backwardRegistry {
		r[string(k)] = string(v)
	}
	return r
}
