package props

import (
	"encoding/json"
	"fmt"
	"strings"

	"github.com/cockroachdb/errors"

	"verif/mc/core"
	"verif/mc/tm"
)

func init() {
	core.Register(&core.Check{ID: "C08", Technique: "explicit-state exploration: all ordered pairs over a pool of constructor compositions, their nodes, sentinels and systematically perturbed copies, on the real Is/IsAny, against an independent reference implementation of the documented equivalence",
		Run: runC08})
}

// pairState identifies one (e, r) pair.
type pairState struct {
	E    *tm.Term `json:"term"`
	R    *tm.Term `json:"ref_term,omitempty"`
	Kind string   `json:"ref_kind"` // term | self | node | sentinel | nil
	Idx  int      `json:"ref_idx,omitempty"`
	W    string   `json:"wrapper,omitempty"`   // monotonicity: wrapper applied to e
	R2   *tm.Term `json:"ref2_term,omitempty"` // isany-near: second reference
}

func (ps pairState) String() string {
	s := "e=" + ps.E.String() + " r="
	switch ps.Kind {
	case "term", "termK":
		s += ps.Kind + " " + ps.R.String()
	case "node":
		s += fmt.Sprintf("node[%d] of e", ps.Idx)
	case "sentinel":
		s += tm.Sentinels()[ps.Idx].Name
	default:
		s += ps.Kind
	}
	if ps.W != "" {
		s += " w=" + ps.W
	}
	return s
}

// resolve builds fresh objects for the pair.
func (ps pairState) resolve() (e, r error, ok bool) {
	e = ps.E.Build()
	switch ps.Kind {
	case "term":
		r = ps.R.Build()
	case "termK":
		r, _ = tm.HopK(ps.R.Build())
	case "self":
		r = e
	case "node":
		ns := tm.Nodes(e)
		if ps.Idx >= len(ns) {
			return nil, nil, false
		}
		r = ns[ps.Idx]
	case "sentinel":
		r = tm.Sentinels()[ps.Idx].Err
	case "nil":
		r = nil
	}
	return e, r, true
}

// checkPair evaluates every clause of C08 on one pair of live objects.
// en/rn are the precomputed reference nodes (may be nil: computed here).
func checkPair(e, r error, en, rn *tm.RNode, others []error) string {
	if en == nil {
		en = tm.BuildRNode(e)
	}
	if rn == nil && r != nil {
		rn = tm.BuildRNode(r)
	}
	got, panicked := tm.IsG(e, r)
	if panicked {
		return fail("panic", "Is(e, r) panics")
	}
	want, why := tm.RefIsN(en, rn)
	if got != want {
		if got {
			return fail("false-positive", "Is(e, r) = true but the documented relation does not hold (e=%q %T, r=%q %T)", e.Error(), e, errText(r), r)
		}
		return fail("false-negative:"+why, "Is(e, r) = false but the documented relation holds by %s (e=%q, r=%q)", why, e.Error(), errText(r))
	}
	// IsAny = disjunction
	var anyGot bool
	if p := tm.Guard(func() { anyGot = errors.IsAny(e, r) }); p != nil {
		return fail("isany-panic", "IsAny(e, r) panics: %v", p)
	}
	if anyGot != got {
		return fail("isany", "IsAny(e, r) = %v but Is(e, r) = %v", anyGot, got)
	}
	for _, o := range others {
		og, p1 := tm.IsG(e, o)
		if p1 {
			continue
		}
		for _, lst := range [][]error{{o, r}, {r, o}, {nil, o, r}, {o, nil, r, o}} {
			var ag bool
			if p := tm.Guard(func() { ag = errors.IsAny(e, lst...) }); p != nil {
				return fail("isany-panic", "IsAny panics: %v", p)
			}
			wantAny := got || og
			for _, x := range lst {
				if x == nil && e == nil {
					wantAny = true
				}
			}
			if ag != wantAny {
				return fail("isany", "IsAny(e, %d refs) = %v but the disjunction of Is is %v", len(lst), ag, wantAny)
			}
		}
	}
	// Is(nil, r) <=> r == nil
	ng, pn := tm.IsG(nil, r)
	if pn {
		return fail("panic-nil", "Is(nil, r) panics")
	}
	if ng != (r == nil) {
		return fail("nil", "Is(nil, r) = %v with r %v", ng, r)
	}
	return ""
}

func errText(e error) string {
	if e == nil {
		return "<nil>"
	}
	return e.Error()
}

func evalPairState(ps pairState) string {
	return guarded("C08", func() string {
		e, r, ok := ps.resolve()
		if !ok {
			return ""
		}
		if ps.W != "" {
			// monotonicity: Is(e, r) => Is(w(e), r)
			base, p0 := tm.IsG(e, r)
			if p0 || !base {
				return ""
			}
			wt := tm.T("GoNew", ps.W)
			wt.Kid = nil
			var side []error
			for _, s := range wt.Side {
				side = append(side, s.Build())
			}
			we := wt.Op.Build(wt.S, e, side)
			g, p := tm.IsG(we, r)
			if p {
				return fail("monotone-panic", "Is(w(e), r) panics")
			}
			if !g {
				return fail("monotone", "Is(e, r) holds but Is(%s(e), r) does not", ps.W)
			}
			return ""
		}
		if ps.R2 != nil {
			r2 := ps.R2.Build()
			i1, _ := tm.IsG(e, r)
			i2, _ := tm.IsG(e, r2)
			var got bool
			p := tm.Guard(func() { got = errors.IsAny(e, r, r2) })
			if p != nil || got != (i1 || i2) {
				return fail("isany-near", "IsAny(e, r1, r2) = %v (panic=%v) but Is(e, r1)=%v, Is(e, r2)=%v", got, p != nil, i1, i2)
			}
			return ""
		}
		if ps.W == "" && (ps.Kind == "term" || ps.Kind == "termK") && ps.R != nil {
			for c := ps.E; c != nil && !c.Op.HidesCause && c.Op.Kind != tm.KMulti; c = c.Kid {
				if c.Op.SideIsReference && skeleton(c.Side[0]) == skeleton(ps.R) && c.Side[0].String() == ps.R.String() {
					if ok, p := tm.IsG(e, r); !ok || p {
						return fail("mark-law", "e contains Mark(x, r) on its cause chain but Is(e, r') is false for an equivalent copy r' of r (%q)", errText(r))
					}
				}
			}
		}
		if ps.Kind == "self" {
			if eg, p := tm.IsG(e, e); p || !eg {
				return fail("reflexive", "Is(e, e) = %v (panic=%v) for %T", eg, p, e)
			}
		}
		return checkPair(e, r, nil, nil, []error{errors.New("other"), tm.Sentinels()[0].Err})
	})
}

// reportPair confirms, minimises and records a failing pair.
var pairCache = map[string]string{}

func reportPair(r *core.Result, ps pairState, m string) {
	clause := keyOf(m)
	pre := clause + "|" + skeleton(ps.E) + "~" + ps.Kind + skeleton(ps.R) + fmt.Sprint(ps.Idx) + ps.W
	if k, ok := pairCache[pre]; ok {
		if k != "" {
			r.Violate(k, "", nil)
		}
		return
	}
	for i := 0; i < 4; i++ {
		if keyOf(evalPairState(ps)) != clause {
			r.HarnessError("pair fails differently across re-runs: %s", ps)
			pairCache[pre] = ""
			return
		}
	}
	min := ps
	for round := 0; round < 3; round++ {
		me := minimizeWith(min.E, func(c *tm.Term) bool {
			x := min
			x.E = c
			return keyOf(evalPairState(x)) == clause
		})
		changed := skeleton(me) != skeleton(min.E)
		min.E = me
		if min.Kind == "term" || min.Kind == "termK" {
			mr := minimizeWith(min.R, func(c *tm.Term) bool {
				x := min
				x.R = c
				return keyOf(evalPairState(x)) == clause
			})
			if skeleton(mr) != skeleton(min.R) {
				changed = true
			}
			min.R = mr
		}
		if !changed {
			break
		}
	}
	k := clause + "|" + skeleton(min.E) + "~" + min.Kind
	switch min.Kind {
	case "term", "termK":
		k += ":" + skeleton(min.R)
		e, rr, _ := min.resolve()
		if e.Error() == rr.Error() {
			k += "|samemsg"
		} else {
			k += "|diffmsg"
		}
	case "node":
		k += fmt.Sprint(min.Idx)
	case "sentinel":
		k += ":" + tm.Sentinels()[min.Idx].Name
	}
	if min.W != "" {
		k += "|w=" + min.W
	}
	if min.R2 != nil {
		k += "|r2=" + skeleton(min.R2)
	}
	pairCache[pre] = k
	r.Violate(k, textOf(evalPairState(min))+"\nminimal pair: "+min.String()+"\nfirst found as: "+ps.String(), min)
}

func runC08(c *core.Ctx, r *core.Result) {
	if c.Replay != nil {
		var ps pairState
		if err := json.Unmarshal(c.Replay, &ps); err != nil || ps.E == nil {
			r.HarnessError("bad replay payload: %v", err)
			return
		}
		r.States++
		if m := evalPairState(ps); m != "" {
			reportPair(r, ps, m)
		}
		return
	}
	// pool of terms
	var pool []*tm.Term
	add := func(sp tm.Space) {
		n := sp.Size()
		for i := int64(0); i < n; i++ {
			pool = append(pool, sp.At(i))
		}
	}
	add(tm.Full(1))
	add(tm.Full(2))
	for _, x := range tm.Extras() {
		// (the all-pairs pool is quadratic: the hand-picked terms that only vary
		// a payload value — every gRPC code — or a size are represented by one
		// of their kind)
		if s := x.String(); (strings.Contains(s, "WrapWithGrpcCode#") && !strings.Contains(s, "WrapWithGrpcCode#16(")) || strings.Contains(s, "bytes)") || x.Depth() > 8 {
			continue
		}
		pool = append(pool, x)
	}
	perturbBase := 3
	if c.Thorough() {
		add(tm.Core(3))
		perturbBase = 4
	}
	pool = append(pool, tm.QuirkTerms()[:0]...)
	r.Bounds = fmt.Sprintf("pool = A_full depth<=2%s (%d terms); every ordered pair (e, r) over pool x (pool ∪ 15 sentinels ∪ nil ∪ e itself ∪ every node of e ∪ fresh copy ∪ perturbed copies of e [one message / one type / one layer added / one layer removed]); perturbations also for A_core depth<=%d; monotonicity under every non-hiding wrapper of the alphabet", map[bool]string{true: " ∪ A_core depth 3", false: ""}[c.Thorough()], len(pool), perturbBase)
	r.Rule = "state = ordered pair of live error objects; non-trivial = the reference relation holds for a reason other than nil (identity / Is method / mark) or the pair is a near-miss (perturbed copy); outcome classes = reason of the match"
	r.Assumptions = []string{"reference relation written from the doc comment of markers.Is using only errbase.GetTypeMark and the mark a Mark layer puts on the wire (tm/refis.go)"}

	// second, independent copies as references
	type built struct {
		e error
		n *tm.RNode
	}
	refs := make([]built, len(pool))
	for j, t := range pool {
		e := t.Build()
		refs[j] = built{e, tm.BuildRNode(e)}
	}
	sent := tm.Sentinels()
	sentN := make([]*tm.RNode, len(sent))
	for i, s := range sent {
		sentN[i] = tm.BuildRNode(s.Err)
	}
	var wrappers []string
	for _, w := range tm.Wrappers {
		if !w.HidesCause && w.Name != "HopThenWrap" { // HopThenWrap transfers e: not a pure wrapper
			wrappers = append(wrappers, w.Name)
		}
	}
	others := []error{errors.New("other")}

	visit := func(ps pairState, e, rr error, en, rn *tm.RNode, full bool) {
		r.States++
		r.Evaluations++
		var m string
		if full {
			m = guarded("C08", func() string { return checkPair(e, rr, en, rn, others) })
		} else {
			m = guarded("C08", func() string { return checkPair(e, rr, en, rn, nil) })
		}
		if m != "" {
			reportPair(r, ps, m)
			return
		}
		ok, why := tm.RefIsN(en, rn)
		if ok && why != "nil" {
			r.Nontrivial++
			r.Outcome("match:" + why)
		} else if ps.Kind == "term" && ps.R != nil && skeleton(ps.R) != skeleton(ps.E) {
			r.Outcome("no-match")
		} else {
			r.Outcome("no-match:near")
		}
	}

	for i, t := range pool {
		if !c.Mine(int64(i)) {
			continue
		}
		if i&0x1f == 0 && c.Expired() {
			r.Cap("soft deadline in pair enumeration")
			break
		}
		e := t.Build()
		en := tm.BuildRNode(e)
		wireBefore := tm.Encode(e)
		verboseBefore := fmt.Sprintf("%+v", errors.Formattable(e))
		visit(pairState{E: t, Kind: "nil"}, e, nil, en, nil, true)
		// reflexivity
		if eg, p := tm.IsG(e, e); p || !eg {
			reportPair(r, pairState{E: t, Kind: "self"}, fail("reflexive", "Is(e, e) = %v (panic=%v)", eg, p))
		} else {
			visit(pairState{E: t, Kind: "self"}, e, e, en, en, true)
		}
		for k, n := range en.AllNodes() {
			visit(pairState{E: t, Kind: "node", Idx: k}, e, n.E, en, n, true)
		}
		for k := range sent {
			visit(pairState{E: t, Kind: "sentinel", Idx: k}, e, sent[k].Err, en, sentN[k], true)
		}
		// fresh copy and perturbed copies (both directions)
		near := append([]*tm.Term{t.Clone()}, tm.Perturb(t)...)
		var nearErrs []error
		var nearIs []bool
		for _, pt := range near {
			pe := pt.Build()
			pn := tm.BuildRNode(pe)
			visit(pairState{E: t, R: pt, Kind: "term"}, e, pe, en, pn, true)
			visit(pairState{E: pt, R: t, Kind: "term"}, pe, e, pn, en, false)
			r.Transitions += 2
			ok, _ := tm.IsG(e, pe)
			nearErrs = append(nearErrs, pe)
			nearIs = append(nearIs, ok)
		}
		// IsAny over every ordered pair of near references (same or nearly
		// the same text, different types / chains): the disjunction of Is
		for a := range nearErrs {
			for b := range nearErrs {
				if a == b {
					continue
				}
				var got bool
				p := tm.Guard(func() { got = errors.IsAny(e, nearErrs[a], nearErrs[b]) })
				r.States++
				if p != nil || got != (nearIs[a] || nearIs[b]) {
					ps := pairState{E: t, R: near[a], Kind: "term", R2: near[b]}
					reportPair(r, ps, fail("isany-near", "IsAny(e, r1, r2) = %v (panic=%v) but Is(e, r1)=%v, Is(e, r2)=%v (r1=%q %T, r2=%q %T)", got, p != nil, nearIs[a], nearIs[b], errText(nearErrs[a]), nearErrs[a], errText(nearErrs[b]), nearErrs[b]))
				}
			}
		}
		// references equivalent to the side arguments of e (mark references,
		// secondary errors, format arguments): a fresh copy and a copy that
		// went over the network (so that no Is method comparing object
		// identity can make up for a missing mark)
		for _, st := range sideTerms(t) {
			fe := st.Build()
			visit(pairState{E: t, R: st, Kind: "term"}, e, fe, en, tm.BuildRNode(fe), false)
			de, _ := tm.HopK(st.Build())
			visit(pairState{E: t, R: st, Kind: "termK"}, e, de, en, tm.BuildRNode(de), false)
			r.Transitions += 2
		}
		// the law of Mark, decided on the term (not on the object built):
		// Mark(x, r) anywhere on the visible cause chain makes the error
		// match every reference equivalent to r
		for c := t; c != nil && !c.Op.HidesCause && c.Op.Kind != tm.KMulti; c = c.Kid {
			if !c.Op.SideIsReference {
				continue
			}
			for _, kind := range []string{"term", "termK"} {
				ps := pairState{E: t, R: c.Side[0], Kind: kind}
				_, rr, _ := ps.resolve()
				r.States++
				if ok, p := tm.IsG(e, rr); !ok || p {
					reportPair(r, ps, fail("mark-law", "e contains Mark(x, r) on its cause chain but Is(e, r') is false for r' = %s copy of r (%q)", map[string]string{"term": "a fresh", "termK": "a transferred"}[kind], errText(rr)))
				}
			}
		}
		// every other pool element
		for j := range pool {
			visit(pairState{E: t, R: pool[j], Kind: "term"}, e, refs[j].e, en, refs[j].n, false)
		}
		r.Transitions += int64(len(pool))
		// monotonicity
		var matched []pairState
		matched = append(matched, pairState{E: t, Kind: "self"})
		for k, n := range en.AllNodes() {
			if ok, _ := tm.IsG(e, n.E); ok {
				matched = append(matched, pairState{E: t, Kind: "node", Idx: k})
			}
		}
		for k := range sent {
			if ok, _ := tm.IsG(e, sent[k].Err); ok {
				matched = append(matched, pairState{E: t, Kind: "sentinel", Idx: k})
			}
		}
		matched = append(matched, pairState{E: t, R: t.Clone(), Kind: "term"})
		for _, ps := range matched {
			for _, w := range wrappers {
				ps.W = w
				r.States++
				r.Transitions++
				if m := evalPairState(ps); m != "" {
					reportPair(r, ps, m)
				}
			}
		}
		// Is/IsAny are read-only: after all the queries above the error
		// encodes and prints exactly as before
		if string(tm.Encode(e)) != string(wireBefore) || fmt.Sprintf("%+v", errors.Formattable(e)) != verboseBefore {
			r.Violate("is-mutates|"+skeleton(t), "after Is/IsAny queries against it the error encodes or prints differently than before: "+t.String(), pairState{E: t, Kind: "self"})
		}
		if i%211 == 0 {
			r.Sample(map[string]interface{}{"e": t.String(), "refs": "nil, self, nodes, sentinels, copy, perturbed, whole pool"})
		}
	}
	// perturbations of deeper core terms
	for d := 3; d <= perturbBase; d++ {
		sp := tm.Core(d)
		sp.ForEach(func(i int64) bool { return c.Mine(i) }, c.Expired, func(i int64, t *tm.Term) {
			e := t.Build()
			en := tm.BuildRNode(e)
			for _, pt := range append([]*tm.Term{t.Clone()}, tm.Perturb(t)...) {
				pe := pt.Build()
				pn := tm.BuildRNode(pe)
				visit(pairState{E: t, R: pt, Kind: "term"}, e, pe, en, pn, false)
				visit(pairState{E: pt, R: t, Kind: "term"}, pe, e, pn, en, false)
			}
		})
	}
}

// sideTerms lists every side argument occurring anywhere in t.
func sideTerms(t *tm.Term) []*tm.Term {
	var out []*tm.Term
	var rec func(t *tm.Term)
	rec = func(t *tm.Term) {
		if t == nil {
			return
		}
		for _, s := range t.Side {
			out = append(out, s)
			rec(s)
		}
		rec(t.Kid)
	}
	rec(t)
	return out
}
