package props

import (
	"encoding/json"
	"fmt"
	"strings"

	"github.com/cockroachdb/errors"

	"verif/mc/core"
	"verif/mc/tm"
	"verif/mc/ut"
)

func init() {
	core.Register(&core.Check{ID: "C02", Technique: "explicit-state exploration of (error, reference) pairs x transport histories (knowing and unknowing processes, every singleton and the full set of unknown types; all subsets at small depth) on the real code; differential oracle Is(after) = Is(before) with reason-aware exemptions",
		Run: runC02})
}

// c02State is one (e, r, history) state.
type c02State struct {
	pairState
	EHist string `json:"e_history"` // local | K | KK | U:<keys>>K | atU:<keys>
	RHist string `json:"r_history"` // local | K | (atU: through the same U)
}

func (s c02State) String() string {
	return s.pairState.String() + " e-history=" + s.EHist + " r-history=" + s.RHist
}

// travel applies a history to e.
func travel(e error, hist string) (res error, atU []string) {
	switch {
	case hist == "local":
		return e, nil
	case hist == "K":
		d, _ := tm.HopK(e)
		return d, nil
	case hist == "KK":
		d, _ := tm.HopK(e)
		d, _ = tm.HopK(d)
		return d, nil
	case strings.HasPrefix(hist, "U:"):
		keys := splitKeys(strings.TrimSuffix(hist[2:], ">K"))
		w := tm.Encode(e)
		var w2 []byte
		tm.AtU(keys, func() {
			d := tm.Decode(w)
			w2 = tm.Encode(d)
		})
		return tm.Decode(w2), nil
	case strings.HasPrefix(hist, "atU:"):
		keys := splitKeys(hist[4:])
		return tm.DecodeU(tm.Encode(e), keys), keys
	}
	panic("unknown history " + hist)
}

func splitKeys(s string) []string {
	if s == "" {
		return nil
	}
	return strings.Split(s, ",")
}

// hasLiveIsMethod tells whether some node of e has an Is method that
// accepts r (the match can be re-established by the type itself).
func hasLiveIsMethod(e, r error) bool {
	for _, n := range tm.Nodes(e) {
		if x, ok := n.(interface{ Is(error) bool }); ok {
			yes := false
			tm.Guard(func() { yes = x.Is(r) })
			if yes {
				return true
			}
		}
	}
	return false
}

func hasMarkLayer(e error) bool {
	for _, n := range tm.Nodes(e) {
		if string(errors.GetTypeKey(n)) == tm.MarkKey && fmt.Sprintf("%T", n) == "*markers.withMark" {
			return true
		}
	}
	return false
}

// evalC02 returns "" (holds), a failure, or "exempt\x00..." for exempted
// states.
func evalC02(s c02State) string {
	return guarded("C02", func() string {
		e, r, ok := s.resolve()
		if !ok {
			return ""
		}
		base, p := tm.IsG(e, r)
		if p {
			return "" // C08's business
		}
		_, why := tm.RefIs(e, r)
		eh, atU := travel(e, s.EHist)
		rh := r
		if r != nil {
			switch {
			case s.RHist == "K":
				rh, _ = tm.HopK(r)
			case s.RHist == "sameU":
				rh = tm.DecodeU(tm.Encode(r), atU)
			}
		}
		var got bool
		var pp interface{}
		if atU != nil {
			tm.AtU(atU, func() { pp = tm.Guard(func() { got = errors.Is(eh, rh) }) })
		} else {
			pp = tm.Guard(func() { got = errors.Is(eh, rh) })
		}
		if pp != nil {
			return fail("panic-after-transfer", "Is panics after transfer: %v", pp)
		}
		if got == base {
			// IsAny with a reference of the same text but another type listed
			// first must still be the disjunction
			if rh != nil {
				decoy := &ut.PtrLeaf{Msg: errText(rh)}
				dIs, _ := tm.IsG(eh, decoy)
				var anyGot bool
				if p := tm.Guard(func() { anyGot = errors.IsAny(eh, decoy, rh) }); p != nil {
					return fail("isany-panic", "IsAny panics after transfer: %v", p)
				}
				if anyGot != (got || dIs) {
					return fail("isany-after-transfer", "IsAny(e', sameTextOtherType, r') = %v but Is(e', r') = %v and Is(e', decoy) = %v (e:%s r:%s)", anyGot, got, dIs, s.EHist, s.RHist)
				}
			}
			return ""
		}
		// exemptions
		// (a match that ALSO holds by mark equivalence — e.g. an explicit Mark with
		// the reference the error's Is method accepts anyway — must survive)
		if base && why == "method" && !tm.RefIsByMark(e, r) {
			if s.RHist != "local" {
				return "exempt\x00method-match and r travelled"
			}
			if !hasLiveIsMethod(eh, rh) {
				return "exempt\x00method of a type the receiver cannot instantiate"
			}
		}
		if atU != nil && ((hasMarkLayer(e) && !hasMarkLayer(eh)) || (r != nil && hasMarkLayer(r) && !hasMarkLayer(rh))) {
			return "exempt\x00explicit Mark evaluated at a process that does not know the mark wrapper"
		}
		// when the text of e (or r) itself changed in transit, the identity
		// change is a consequence: key by the layer whose text diverged
		cul := culprit(tm.ShapeOf(e), tm.ShapeOf(eh))
		if cul == "" && r != nil && rh != nil {
			cul = culprit(tm.ShapeOf(r), tm.ShapeOf(rh))
		}
		if cul != "" {
			dir := "gained"
			if base {
				dir = "lost"
			}
			return fail(dir+"|text@"+cul, "Is(e, r) was %v before and is %v after e:%s r:%s because the Error() text of a %s layer changed in transit (e=%q now %q; r=%q now %q)", base, got, s.EHist, s.RHist, cul, errText(e), errText(eh), errText(r), errText(rh))
		}
		if base {
			return fail("lost:"+why+":"+histClass(s), "Is(e, r) held before (by %s) but not after e:%s r:%s (e=%q r=%q)", why, s.EHist, s.RHist, errText(e), errText(r))
		}
		return fail("gained:"+histClass(s), "Is(e, r) did not hold before but holds after e:%s r:%s (e=%q r=%q)", s.EHist, s.RHist, errText(e), errText(r))
	})
}

func histClass(s c02State) string {
	h := s.EHist
	if i := strings.IndexByte(h, ':'); i >= 0 {
		h = h[:i]
	}
	return h + "/" + s.RHist
}

var c02Cache = map[string]string{}

func reportC02(r *core.Result, s c02State, m string) {
	clause := keyOf(m)
	pre := clause + "|" + skeleton(s.E) + "~" + s.Kind + skeleton(s.R) + fmt.Sprint(s.Idx) + s.EHist
	if k, ok := c02Cache[pre]; ok {
		if k != "" {
			r.Violate(k, "", nil)
		}
		return
	}
	for i := 0; i < 4; i++ {
		if keyOf(evalC02(s)) != clause {
			r.HarnessError("C02 state fails differently across re-runs: %s", s)
			c02Cache[pre] = ""
			return
		}
	}
	if q := tm.FindQuirk(s.E); q != nil {
		x := s
		x.E = tm.WithoutQuirks(s.E)
		x.E.FillTokensKeeping()
		if x.R != nil {
			x.R = tm.WithoutQuirks(s.R)
			x.R.FillTokensKeeping()
		}
		x.EHist = rehist(s.EHist, s.E, x.E)
		if keyOf(evalC02(x)) != clause {
			k := "quirk:" + q.Name
			c02Cache[pre] = k
			r.Violate(k, textOf(m)+"\nstate: "+s.String()+"\n(the same state with "+q.QuirkOf+" instead of "+q.Name+" passes)", s)
			return
		}
	}
	if strings.Contains(clause, "|text@") {
		c02Cache[pre] = clause
		r.Violate(clause, textOf(m)+"\nstate: "+s.String(), s)
		return
	}
	min := s
	// unknown-key histories name wire keys, which change when the term
	// shrinks: only shrink under histories that do not.
	if !strings.Contains(s.EHist, ":") || strings.HasPrefix(s.EHist, "U:*") || strings.HasPrefix(s.EHist, "atU:*") {
		for round := 0; round < 3; round++ {
			me := minimizeWith(min.E, func(c *tm.Term) bool {
				x := min
				x.E = c
				return keyOf(evalC02(x)) == clause
			})
			changed := skeleton(me) != skeleton(min.E)
			min.E = me
			if min.Kind == "term" || min.Kind == "termK" {
				mr := minimizeWith(min.R, func(c *tm.Term) bool {
					x := min
					x.R = c
					return keyOf(evalC02(x)) == clause
				})
				if skeleton(mr) != skeleton(min.R) {
					changed = true
				}
				min.R = mr
			}
			if !changed {
				break
			}
		}
	}
	k := clause + "|" + skeleton(min.E) + "~" + min.Kind
	if nd := nonDefaultStrings(min.E); nd != "" {
		k = clause + "|" + skeleton(min.E) + "[" + strings.ReplaceAll(nd, " ", "\u2423") + "]~" + min.Kind
	}
	switch min.Kind {
	case "term", "termK":
		k += ":" + skeleton(min.R)
	case "node":
		k += fmt.Sprint(min.Idx)
	case "sentinel":
		k += ":" + tm.Sentinels()[min.Idx].Name
	}
	c02Cache[pre] = k
	r.Violate(k, textOf(evalC02(min))+"\nminimal state: "+min.String()+"\nfirst found as: "+s.String(), min)
}

func runC02(c *core.Ctx, r *core.Result) {
	if c.Replay != nil {
		var s c02State
		if err := json.Unmarshal(c.Replay, &s); err != nil || s.E == nil {
			r.HarnessError("bad replay payload: %v", err)
			return
		}
		r.States++
		if m := evalC02(s); m != "" && !strings.HasPrefix(m, "exempt\x00") {
			reportC02(r, s, m)
		}
		return
	}
	p := plan{dupDepth: 2, fullDepth: 2, coreDepth: 3, strDepth: 1, strCoreDepth: 3, alphabet: tm.REG}
	subsetDepth := 1
	if c.Thorough() {
		p = plan{dupDepth: 2, fullDepth: 3, coreDepth: 4, strDepth: 2, alphabet: tm.REG}
		subsetDepth = 2
	}
	r.Bounds = fmt.Sprintf("e over %s; r over 15 sentinels ∪ nodes(e) ∪ fresh copy ∪ perturbed copies of e; e-histories {K, KK, U(all)>K, U({k})>K for every wire key k, evaluated also AT U(all) and U({k})}, all subsets of wire keys for depth<=%d; r-histories {local, K, through the same U}", p, subsetDepth)
	r.Rule = "state = (e, r, e-history, r-history); non-trivial = the pair matches locally (identity / method / mark) or is a perturbed near-miss; exempt states are counted separately"
	r.Assumptions = []string{"exemptions: method-based match when r travelled or when the receiver cannot instantiate the method's type; explicit Mark evaluated at a process without the mark wrapper (see DESIGN.md C02)"}
	sent := tm.Sentinels()
	eachTerm(c, r, p, func(t *tm.Term) {
		e0 := t.Build()
		keys := tm.WireKeys(tm.Encode(e0))
		// the law of Mark, from the composition (not from the object): an
		// error built with Mark(x, ref) on its visible chain keeps matching
		// ref after transfer between knowing processes, however the match
		// comes about locally
		for cpos, above := t, false; cpos != nil && !above; cpos = cpos.Kid {
			if cpos.Op.HidesCause {
				above = true
			}
			if !cpos.Op.SideIsReference || len(cpos.Side) == 0 {
				continue
			}
			refT := cpos.Side[0]
			report(r, t, map[string]interface{}{"mark_reference": refT.String()}, func(t *tm.Term) string {
				return guarded("C02", func() string {
					var refNow *tm.Term
					for q := t; q != nil; q = q.Kid {
						if q.Op.SideIsReference && len(q.Side) > 0 {
							refNow = q.Side[0]
							break
						}
						if q.Op.HidesCause {
							break
						}
					}
					if refNow == nil {
						return ""
					}
					e, ref := t.Build(), refNow.Build()
					for k := 1; k <= 2; k++ {
						e, _ = tm.HopK(e)
						for _, rr := range []error{ref, func() error { d, _ := tm.HopK(ref); return d }()} {
							if ok, p := tm.IsG(e, rr); !ok || p {
								return fail("mark-law-after-transfer", "the composition marks the error with reference %q, but after %d hop(s) Is(e', reference) is false (panic=%v)", errText(ref), k, p)
							}
						}
					}
					return ""
				})
			})
			r.States += 4
		}
		// string variants (a slot holds an alphabet string) are explored with
		// a reduced set of histories and references: what they add is the
		// dependence of identity on message fidelity
		variant := nonDefaultStrings(t) != ""
		hists := []string{"K", "KK", "U:*>K", "atU:*"}
		if variant {
			hists = []string{"K", "U:*>K"}
		}
		all := strings.Join(keys, ",")
		realHist := func(h string) string { return strings.Replace(h, "*", all, 1) }
		if variant {
		} else if t.Depth() <= subsetDepth && len(keys) <= 6 {
			tm.Subsets(keys, func(sub []string) {
				if len(sub) == 0 || len(sub) == len(keys) {
					return
				}
				hists = append(hists, "U:"+strings.Join(sub, ",")+">K", "atU:"+strings.Join(sub, ","))
			})
		} else {
			for _, k := range keys {
				hists = append(hists, "U:"+k+">K", "atU:"+k)
			}
		}
		var refs []pairState
		refs = append(refs, pairState{E: t, Kind: "self"})
		for k := range tm.Nodes(e0) {
			refs = append(refs, pairState{E: t, Kind: "node", Idx: k})
		}
		for k := range sent {
			refs = append(refs, pairState{E: t, Kind: "sentinel", Idx: k})
		}
		refs = append(refs, pairState{E: t, R: t.Clone(), Kind: "term"})
		if !variant {
			for _, pt := range tm.Perturb(t) {
				refs = append(refs, pairState{E: t, R: pt, Kind: "term"})
			}
			// references equivalent to the side arguments (mark references …)
			for _, st := range sideTerms(t) {
				refs = append(refs, pairState{E: t, R: st, Kind: "term"}, pairState{E: t, R: st, Kind: "termK"})
			}
		}
		for _, h := range hists {
			rh := []string{"local", "K"}
			if strings.HasPrefix(h, "atU") {
				rh = []string{"local", "sameU"}
			}
			for _, ps := range refs {
				for _, rhist := range rh {
					if rhist == "local" && strings.HasPrefix(h, "atU") && ps.Kind != "sentinel" {
						// a process that does not know a type cannot hold a
						// local instance of it
						continue
					}
					s := c02State{pairState: ps, EHist: h, RHist: rhist}
					if strings.Contains(h, "*") {
						// keep the symbolic form for minimisation; evaluate the real one
						s.EHist = realHist(h)
					}
					r.States++
					r.Transitions += 2
					m := evalC02(s)
					switch {
					case m == "":
					case strings.HasPrefix(m, "exempt\x00"):
						r.Count("exempt: "+textOf(m), 1)
					default:
						reportC02(r, s, m)
					}
				}
			}
		}
		r.Evaluations++
		r.Nontrivial += int64(len(refs))
		r.Outcome(t.Op.Class)
		if r.Evaluations%499 == 1 {
			r.Sample(map[string]interface{}{"e": t.String(), "histories": hists, "refs": len(refs)})
		}
	})
}

// rehist recomputes an "all keys" history for a modified term.
func rehist(h string, old, nw *tm.Term) string {
	for _, pre := range []string{"U:", "atU:"} {
		if strings.HasPrefix(h, pre) {
			oldAll := strings.Join(tm.WireKeys(tm.Encode(old.Build())), ",")
			rest := strings.TrimSuffix(strings.TrimPrefix(h, pre), ">K")
			if rest == oldAll {
				n := pre + strings.Join(tm.WireKeys(tm.Encode(nw.Build())), ",")
				if strings.HasSuffix(h, ">K") {
					n += ">K"
				}
				return n
			}
		}
	}
	return h
}

// culprit returns the original Go type of the deepest node whose text
// differs between two shapes while the texts of all its children agree
// ("" when the shapes agree or are not comparable node by node).
func culprit(a, b *tm.Shape) string {
	if a == nil || b == nil {
		return ""
	}
	if a.Cause != nil && b.Cause != nil {
		if c := culprit(a.Cause, b.Cause); c != "" {
			return c
		}
	}
	if len(a.Multi) == len(b.Multi) {
		for i := range a.Multi {
			if c := culprit(a.Multi[i], b.Multi[i]); c != "" {
				return c
			}
		}
	}
	if a.Text != b.Text || (a.Cause == nil) != (b.Cause == nil) || len(a.Multi) != len(b.Multi) {
		if a.Cause != nil && a.Text == ": "+a.Cause.Text {
			// a wrapper whose own message is empty but which still prints
			// the separator: one class of input whatever its Go type
			return "<wrapper-printing-only-separator>"
		}
		return a.Type
	}
	return ""
}
