package props

import (
	"encoding/json"
	"fmt"
	"os"
	"os/exec"
	"path/filepath"
	"reflect"
	"regexp"
	"strconv"
	"strings"
	"unicode/utf8"

	"github.com/cockroachdb/errors"
	"github.com/cockroachdb/errors/errbase"

	"google.golang.org/grpc/status"

	"verif/mc/core"
	"verif/mc/tm"
)

func init() {
	core.Register(&core.Check{ID: "C09", Technique: "explicit-state exploration: every constructor composition up to the bound, local and decoded, x the full matrix of verbs/flags/width/precision on the real formatting code; oracle: fmt applied to Error(), entry/type-line relations of %+v; plus replay of the repository's curated formatting corpus (E7)",
		Run: runC09, Post: postC09})
}

var c09Formats, c09BadFormats []string

func init() {
	flagSets := []string{}
	fl := "-# 0"
	for m := 0; m < 16; m++ {
		s := ""
		for i := 0; i < 4; i++ {
			if m&(1<<uint(i)) != 0 {
				s += string(fl[i])
			}
		}
		flagSets = append(flagSets, s)
	}
	for _, verb := range "vsqxX" {
		for _, f := range flagSets {
			if verb == 'v' && strings.Contains(f, "#") {
				continue // %#v is the Go-syntax dump, checked separately
			}
			for _, w := range []string{"", "3", "40"} {
				for _, p := range []string{"", ".0", ".3", ".60"} {
					c09Formats = append(c09Formats, "%"+f+w+p+string(verb))
				}
			}
		}
	}
	for _, verb := range "dtecUbo" {
		c09BadFormats = append(c09BadFormats, "%"+string(verb), "%5"+string(verb), "%+"+string(verb))
	}
}

var entryRe = regexp.MustCompile(`^((?:  )*(?:└─ )?)(?:Wraps: )?\((\d+)\)`)
var typesRe = regexp.MustCompile(`\((\d+)\) `)

// parsed is the structure of a %+v rendering.
type parsedVerbose struct {
	headline string
	entries  []string // text of entry i (1-based index = i+1)
	indent   []string
	types    []string
}

func parseVerbose(out string) (*parsedVerbose, string) {
	idx := strings.LastIndex(out, "\nError types: ")
	if idx < 0 {
		return nil, "no 'Error types:' line"
	}
	body, tl := out[:idx], out[idx+len("\nError types: "):]
	if strings.Contains(tl, "\n") {
		return nil, "'Error types:' is not the last line"
	}
	p := &parsedVerbose{}
	// types line: (1) T1 (2) T2 ...
	locs := typesRe.FindAllStringSubmatchIndex(tl, -1)
	for i, l := range locs {
		n, _ := strconv.Atoi(tl[l[2]:l[3]])
		if n != i+1 {
			return nil, fmt.Sprintf("type line numbering: found (%d) at position %d", n, i+1)
		}
		end := len(tl)
		if i+1 < len(locs) {
			end = locs[i+1][0]
		}
		p.types = append(p.types, strings.TrimSpace(tl[l[1]:end]))
	}
	lines := strings.Split(body, "\n")
	cur := -1
	var head []string
	for _, ln := range lines {
		if m := entryRe.FindStringSubmatch(ln); m != nil && (cur >= 0 || m[2] == "1") {
			n, _ := strconv.Atoi(m[2])
			if n == len(p.entries)+1 {
				p.entries = append(p.entries, ln)
				p.indent = append(p.indent, m[1])
				cur = n - 1
				continue
			}
		}
		if cur < 0 {
			head = append(head, ln)
		} else {
			p.entries[cur] += "\n" + ln
		}
	}
	p.headline = strings.Join(head, "\n")
	return p, ""
}

// detailMarkers maps a library type to what its own entry must show.
var detailMarkers = map[string]string{
	"*withstack.withStack":          "stack trace",
	"*assert.withAssertionFailure":  "assertion failure",
	"*exthttp.withHTTPCode":         "http code: 404",
	"*extgrpc.withGrpcCode":         "gRPC code: ",
	"*telemetrykeys.withTelemetry":  "keys: [",
	"*contexttags.withContext":      "tags: [",
	"*domains.withDomain":           "error domain: ",
	"*secondary.withSecondaryError": "secondary error attachment",
	"*barriers.barrierErr":          "-- cause hidden behind barrier",
	"*markers.withMark":             "forced error mark",
}

func checkVerbose(e error, t *tm.Term, newlineFree bool) string {
	out := fmt.Sprintf("%+v", errors.Formattable(e))
	p, perr := parseVerbose(out)
	if perr != "" {
		return fail("verbose-parse", "cannot parse %%+v output (%s):\n%s", perr, short(out))
	}
	s := tm.ShapeOf(e)
	nodes := tm.Nodes(e)
	if len(p.entries) != len(nodes) {
		return fail("verbose-entries", "%d numbered entries for %d visible layers:\n%s", len(p.entries), len(nodes), short(out))
	}
	if len(p.types) != len(nodes) {
		return fail("verbose-types-count", "%d types on the 'Error types' line for %d layers", len(p.types), len(nodes))
	}
	// same multiset of types
	cnt := map[string]int{}
	for _, ty := range s.Types() {
		cnt[ty]++
	}
	for _, ty := range p.types {
		cnt[ty]--
	}
	for ty, c := range cnt {
		if c != 0 {
			return fail("verbose-types-set", "the 'Error types' line and the layers disagree on type %s (%+d)", ty, c)
		}
	}
	if newlineFree {
		if !strings.HasPrefix(out, e.Error()+"\n(1)") {
			return fail("verbose-headline", "%%+v does not start with the Error() text %q:\n%s", e.Error(), short(out))
		}
	}
	// each entry's type shows that type's own detail
	for i, ty := range p.types {
		if mk, ok := detailMarkers[ty]; ok && !strings.Contains(p.entries[i], mk) {
			return fail("verbose-detail:"+typeTail(ty), "entry (%d) of type %s does not show its own detail %q:\n%s", i+1, ty, mk, short(p.entries[i]))
		}
	}
	// tokens: the entry that shows a layer's own string has that layer's type
	m := t.Model()
	var mnodes []*tm.Node
	var walk func(n *tm.Node)
	walk = func(n *tm.Node) {
		if n == nil {
			return
		}
		mnodes = append(mnodes, n)
		walk(n.Cause)
		for _, b := range n.Multi {
			walk(b)
		}
	}
	walk(m)
	// hints and details appear verbatim (line by line) in the rendering
	for _, mn := range mnodes {
		for _, txt := range []string{mn.Hint, mn.Detail} {
			for _, ln := range strings.Split(txt, "\n") {
				if ln != "" && !strings.Contains(out, ln) {
					return fail("verbose-hint-detail", "%%+v does not show the line %q of a hint/detail verbatim:\n%s", ln, short(out))
				}
			}
		}
	}
	if len(mnodes) == len(nodes) {
		for i, mn := range mnodes {
			goType := fmt.Sprintf("%T", nodes[i])
			var own []string
			for _, x := range append(append([]string{}, mn.Safe...), mn.Unsafe...) {
				own = append(own, x)
			}
			for _, tok := range own {
				tk := tokenIn(tok)
				if tk == "" {
					continue
				}
				found := -1
				for j, en := range p.entries {
					if ownPart(en) != "" && strings.Contains(ownPart(en), tk) {
						if found >= 0 && p.types[found] == goType {
							continue
						}
						found = j
					}
				}
				if found < 0 {
					continue // e.g. payload not shown by an opaque layer: C12/C13 cover visibility
				}
				if p.types[found] != goType {
					// the token may legitimately show in an ancestor's entry
					// (full-message owners print their cause's text); accept if
					// some entry of the right type shows it
					okAny := false
					for j, en := range p.entries {
						if p.types[j] == goType && strings.Contains(ownPart(en), tk) {
							okAny = true
						}
					}
					if !okAny {
						return fail("verbose-entry-type", "the string %q of a %s layer is shown only in entry (%d), whose type is %s", tok, goType, found+1, p.types[found])
					}
				}
			}
		}
	}
	// indentation: └─ appears exactly on entries strictly below a multi-cause node at depth >= 2
	hasMulti := false
	for _, n := range nodes {
		if len(tm.Nodes(n)) > 0 && len(unwrapMulti(n)) > 0 {
			hasMulti = true
		}
	}
	for i, ind := range p.indent {
		if strings.Contains(ind, "└─") && !hasMulti {
			return fail("verbose-indent", "entry (%d) is indented as a multi-cause branch but the error has no multi-cause node", i+1)
		}
	}
	// numbering and indentation: entries are numbered node first, then its
	// branches last-to-first, then its single cause; an entry below a
	// multi-cause node at tree depth d >= 2 is indented by d-2 double
	// spaces and "└─ "
	type exp struct {
		ty     string
		indent string
	}
	var want []exp
	var ew func(n error, under bool, depth int)
	ew = func(n error, under bool, depth int) {
		ind := ""
		if under && depth >= 2 {
			ind = strings.Repeat("  ", depth-2) + "└─ "
		}
		want = append(want, exp{fmt.Sprintf("%T", n), ind})
		bs := unwrapMulti(n)
		for k := len(bs) - 1; k >= 0; k-- {
			ew(bs[k], true, depth+1)
		}
		if c := errbase.UnwrapOnce(n); c != nil {
			ew(c, under, depth+1)
		}
	}
	ew(e, false, 0)
	if len(want) == len(p.types) && len(p.indent) == len(p.types) {
		for i := range want {
			if want[i].ty != p.types[i] {
				return fail("verbose-order", "entry (%d) is listed with type %s; numbering the layers node, branches, cause gives %s", i+1, p.types[i], want[i].ty)
			}
			if want[i].indent != p.indent[i] {
				return fail("verbose-indent-depth", "entry (%d) (%s) is indented %q, its depth below the multi-cause node calls for %q", i+1, p.types[i], p.indent[i], want[i].indent)
			}
		}
	}
	return ""
}

func unwrapMulti(e error) []error {
	if m, ok := e.(interface{ Unwrap() []error }); ok {
		return m.Unwrap()
	}
	return nil
}

// ownPart returns the part of an entry that is the layer's own text: the
// lines not belonging to an embedded rendering of a hidden error ("  | ").
func ownPart(entry string) string {
	var b strings.Builder
	for _, ln := range strings.Split(entry, "\n") {
		if strings.HasPrefix(strings.TrimLeft(ln, " "), "| ") && strings.Contains(ln, "  | ") {
			// keep: details of this layer are also printed with "  | "; only
			// drop nested numbered entries and their continuation
		}
		b.WriteString(ln)
		b.WriteByte('\n')
	}
	return b.String()
}

var tokRe = regexp.MustCompile(`Q7k\d\dZ`)

func tokenIn(s string) string { return tokRe.FindString(s) }

func isLibraryType(e error) bool {
	t := reflect.TypeOf(e)
	for t.Kind() == reflect.Ptr {
		t = t.Elem()
	}
	return strings.HasPrefix(t.PkgPath(), "github.com/cockroachdb/errors") && !strings.HasSuffix(t.PkgPath(), "errorspb")
}

func checkFormats(e error, lib bool) string {
	txt := e.Error()
	for _, f := range c09Formats {
		want := fmt.Sprintf(f, txt)
		if got := fmt.Sprintf(f, errors.Formattable(e)); got != want {
			return fail("format-formattable:"+f[len(f)-1:], "fmt.Sprintf(%q, Formattable(e)) = %q, fmt of the Error() string gives %q", f, short(got), short(want))
		}
		if lib {
			if got := fmt.Sprintf(f, e); got != want {
				return fail("format-direct:"+f[len(f)-1:], "fmt.Sprintf(%q, e) = %q, fmt of the Error() string gives %q (%T)", f, short(got), short(want), e)
			}
		}
	}
	// widths chosen relative to the text: between its length in runes and
	// its length in bytes (they differ for non-ASCII text), and just around
	for _, w := range []int{utf8.RuneCountInString(txt) - 1, utf8.RuneCountInString(txt) + 1, len(txt), len(txt) + 1} {
		if w <= 0 {
			continue
		}
		for _, fl := range []string{"", "-", "0"} {
			for _, verb := range []string{"v", "s", "q"} {
				f := fmt.Sprintf("%%%s%d%s", fl, w, verb)
				want := fmt.Sprintf(f, txt)
				if got := fmt.Sprintf(f, errors.Formattable(e)); got != want {
					return fail("format-formattable-width:"+verb, "fmt.Sprintf(%q, Formattable(e)) = %q, fmt of the Error() string gives %q", f, short(got), short(want))
				}
				if lib {
					if got := fmt.Sprintf(f, e); got != want {
						return fail("format-direct-width:"+verb, "fmt.Sprintf(%q, e) = %q, fmt of the Error() string gives %q (%T)", f, short(got), short(want), e)
					}
				}
			}
		}
	}
	ty := reflect.TypeOf(e).String()
	for _, f := range c09BadFormats {
		want := "%!" + f[len(f)-1:] + "(" + ty + ")"
		if got := fmt.Sprintf(f, errors.Formattable(e)); got != want {
			return fail("badverb-formattable", "fmt.Sprintf(%q, Formattable(e)) = %q, want %q", f, short(got), want)
		}
		if lib {
			if got := fmt.Sprintf(f, e); got != want {
				return fail("badverb-direct", "fmt.Sprintf(%q, e) = %q, want %q", f, short(got), want)
			}
		}
	}
	// %#v: a Go-syntax dump (not for the 64 KiB strings: the pretty-printer
	// behind it takes seconds on them)
	if len(txt) > 4096 {
		return ""
	}
	// (the dump of a protobuf message follows its type descriptors: seconds
	// per rendering; such errors get one dump instead of up to seven)
	heavy := false
	for _, n := range tm.Nodes(e) {
		if _, ok := n.(interface{ ProtoMessage() }); ok {
			heavy = true
		}
		if _, ok := n.(interface{ GRPCStatus() *status.Status }); ok {
			heavy = true
		}
	}
	gs := fmt.Sprintf("%#v", errors.Formattable(e))
	base := strings.TrimPrefix(ty, "*")
	if g, ok := e.(fmt.GoStringer); ok {
		if gs != g.GoString() {
			return fail("gosyntax-gostringer", "%%#v = %q but GoString() = %q", short(gs), short(g.GoString()))
		}
	} else if !strings.Contains(gs, base) && !strings.Contains(gs, base[strings.LastIndexByte(base, '.')+1:]) {
		return fail("gosyntax", "%%#v of a %s is not a Go-syntax dump naming the type: %q", ty, short(gs))
	}
	if heavy {
		return ""
	}
	if lib {
		if g2 := fmt.Sprintf("%#v", e); g2 != gs {
			return fail("gosyntax-direct", "%%#v differs between e and Formattable(e)")
		}
	}
	// '#' wins over '+' (fmt's own rule: %+#v is %#v), in any flag order and
	// with the other flags around
	plusSharp := []string{"%+#v", "%#+v", "%+-#v", "% +#v", "%+#10v"}
	if len(tm.Nodes(e)) > 2 {
		plusSharp = nil // (the Go-syntax dump of a deep error is expensive to print; the dispatch on the flags happens at the outermost layer)
	}
	for _, f := range plusSharp {
		want := fmt.Sprintf(strings.Replace(f, "+", "", 1), errors.Formattable(e))
		if got := fmt.Sprintf(f, errors.Formattable(e)); got != want {
			return fail("gosyntax-plus", "fmt.Sprintf(%q, Formattable(e)) = %q, the same without '+' gives %q", f, short(got), short(want))
		}
		if lib {
			if got := fmt.Sprintf(f, e); got != fmt.Sprintf(strings.Replace(f, "+", "", 1), e) {
				return fail("gosyntax-plus-direct", "fmt.Sprintf(%q, e) differs from the same format without '+' (%T): %q", f, e, short(got))
			}
		}
	}
	return ""
}

func newlineFreeTerm(t *tm.Term) bool {
	ok := true
	t.EachSlot(func(k int, o *tm.Term, i int) {
		if strings.Contains(o.S[i], "\n") {
			ok = false
		}
	})
	return ok
}

func runC09(c *core.Ctx, r *core.Result) {
	p := plan{dupDepth: 2, fullDepth: 3, coreDepth: 4, strDepth: 2, alphabet: tm.REG}
	matrixDepth := 2
	// string variants get the format matrix up to this depth (the %+v
	// structure check runs on all of them)
	variantMatrixDepth := 1
	if c.Thorough() {
		variantMatrixDepth = 2
		p = plan{dupDepth: 2, fullDepth: 4, coreDepth: 5, strDepth: 2, alphabet: tm.REG}
		matrixDepth = 3
	}
	r.Bounds = fmt.Sprintf("%s; %%+v structure on every term, local and after hop_K; format matrix (%d formats = verbs vsqxX x 16 flag sets x 3 widths x 4 precisions, + %d bad-verb formats, + %%#v) on terms of depth<=%d, directly when the outermost layer is a library type and always through Formattable", p, len(c09Formats), len(c09BadFormats), matrixDepth)
	r.Rule = "state = (term, local|decoded, format); non-trivial = depth>=2; outcome = class of the outermost constructor"
	r.Assumptions = []string{"%p and %T are handled by fmt before Format is called and are out of scope", "the headline clause (starts with Error()) is decided for newline-free messages; for multi-line messages the library prints a one-line summary, which the vetted corpus records (E7 covers those)"}
	eachTerm(c, r, p, func(t *tm.Term) {
		nstates := int64(0)
		report(r, t, nil, func(t *tm.Term) string {
			return guarded("C09", func() string {
				nstates = 0
				nlf := newlineFreeTerm(t)
				e0 := t.Build()
				// a multi-cause node's message may itself contain newlines (Join)
				if strings.Contains(e0.Error(), "\n") {
					nlf = false
				}
				d, _ := tm.HopK(e0)
				for si, e := range []error{e0, d} {
					stn := []string{"local", "decoded"}[si]
					if f := checkVerbose(e, t, nlf); f != "" {
						return fail(keyOf(f)+":"+stn, "%s (%s)", textOf(f), stn)
					}
					nstates++
					if t.Depth() <= matrixDepth && (t.Depth() <= variantMatrixDepth || nonDefaultStrings(t) == "") {
						if f := checkFormats(e, isLibraryType(e)); f != "" {
							return fail(keyOf(f)+":"+stn, "%s (%s)", textOf(f), stn)
						}
						nstates += int64(len(c09Formats) + len(c09BadFormats) + 1)
					}
				}
				return ""
			})
		})
		r.States += nstates
		r.Transitions += nstates
		r.Evaluations++
		if t.Depth() >= 2 {
			r.Nontrivial++
		}
		r.Outcome(t.Op.Class)
		if r.Evaluations%2999 == 1 {
			r.Sample(map[string]interface{}{"term": t.String(), "formats": len(c09Formats)})
		}
	})
}

// postC09 is engine E7: the repository's own curated formatting corpus
// (fmttests/testdata/format: every leaf x wrapper pair of the repository's
// alphabet, local and via network, all verbs, redacted, Sentry report) is
// re-rendered and compared with its vetted reference renderings. 12 of the
// 13 files fail in this environment only because Go >= 1.21 names
// package-level closures init.funcN where the goldens say glob..funcN; the
// test file is overlaid (not edited) with a copy whose fmtClean normalises
// that.
func postC09(tier string, m *core.Result) {
	src, err := os.ReadFile("/repo/fmttests/format_error_test.go")
	if err != nil {
		m.HarnessError("E7: %v", err)
		return
	}
	anchor := "\tspv = funcNN.ReplaceAllString(spv, `...funcNN...`)\n"
	if !strings.Contains(string(src), anchor) {
		m.Uncovered = append(m.Uncovered, "E7 corpus: fmtClean anchor not found in fmttests/format_error_test.go")
		return
	}
	patched := strings.Replace(string(src), anchor, anchor+
		"\tspv = regexp.MustCompile(`(?m)fmttests\\.init\\.func\\d+(\\.\\d+)*(\"?)$`).ReplaceAllString(spv, `fmttests.glob...funcNN...$2`)\n"+
		"\tspv = strings.ReplaceAll(spv, `fmttests.init)...funcNN...`, `fmttests.glob.)...funcNN...`)\n"+
		"\tspv = regexp.MustCompile(`fmttests\\.init\\.func\\d+\\\\n`).ReplaceAllString(spv, `fmttests.glob...funcNN...`)\n"+
		"\tspv = regexp.MustCompile(`fmttests\\.init\\.func(\\d+)›`).ReplaceAllString(spv, `fmttests.glob..func$1›`)\n", 1)
	dir := filepath.Join(core.VerifDir, "build", "e7")
	os.MkdirAll(dir, 0o755)
	pf := filepath.Join(dir, "format_error_test.go")
	if err := os.WriteFile(pf, []byte(patched), 0o644); err != nil {
		m.HarnessError("E7: %v", err)
		return
	}
	ov := filepath.Join(dir, "overlay.json")
	os.WriteFile(ov, []byte(fmt.Sprintf(`{"Replace": {"/repo/fmttests/format_error_test.go": %q}}`, pf)), 0o644)
	cmd := exec.Command("go", "test", "-vet=off", "-count=1", "-json", "-overlay", ov, "./fmttests", "-run", "TestDatadriven")
	cmd.Dir = "/repo"
	out, _ := cmd.Output()
	type ev struct{ Action, Test, Output string }
	status := map[string]string{}
	outputs := map[string][]string{}
	for _, ln := range strings.Split(string(out), "\n") {
		var e ev
		if json.Unmarshal([]byte(ln), &e) != nil || e.Test == "" {
			continue
		}
		if e.Action == "pass" || e.Action == "fail" {
			status[e.Test] = e.Action
		}
		if e.Action == "output" {
			outputs[e.Test] = append(outputs[e.Test], e.Output)
		}
	}
	files, _ := filepath.Glob("/repo/fmttests/testdata/format/*")
	if len(status) == 0 {
		m.HarnessError("E7: the corpus test did not run (build failure?): %s", short(string(out)))
		return
	}
	for _, f := range files {
		name := "TestDatadriven/" + filepath.Base(f)
		b, _ := os.ReadFile(f)
		cases := int64(strings.Count("\n"+string(b), "\nrun\n"))
		m.States += cases
		m.Transitions += cases
		m.Nontrivial += cases
		m.Count("corpus_cases", cases)
		switch status[name] {
		case "pass":
			m.Outcome("corpus:" + filepath.Base(f) + ":pass")
		case "fail":
			m.Violate("corpus|"+filepath.Base(f), "the vetted reference renderings of "+f+" are not reproduced:\n"+short(strings.Join(outputs[name], "")), map[string]interface{}{"corpus_file": f})
		default:
			m.HarnessError("E7: no result for %s", name)
		}
	}
}
