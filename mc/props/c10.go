package props

import (
	"fmt"
	"go/ast"
	"go/parser"
	"go/token"
	"os"
	"path/filepath"
	"sort"
	"strings"

	"github.com/cockroachdb/errors"
	"github.com/cockroachdb/errors/assert"
	"github.com/cockroachdb/errors/barriers"
	"github.com/cockroachdb/errors/contexttags"
	"github.com/cockroachdb/errors/domains"
	"github.com/cockroachdb/errors/errbase"
	"github.com/cockroachdb/errors/errutil"
	"github.com/cockroachdb/errors/extgrpc"
	"github.com/cockroachdb/errors/exthttp"
	grpcstatus "github.com/cockroachdb/errors/grpc/status"
	"github.com/cockroachdb/errors/hintdetail"
	"github.com/cockroachdb/errors/issuelink"
	"github.com/cockroachdb/errors/join"
	"github.com/cockroachdb/errors/markers"
	"github.com/cockroachdb/errors/safedetails"
	"github.com/cockroachdb/errors/secondary"
	"github.com/cockroachdb/errors/telemetrykeys"
	"github.com/cockroachdb/errors/withstack"
	"github.com/cockroachdb/redact"
	"google.golang.org/grpc/codes"

	"verif/mc/core"
	"verif/mc/tm"
)

func init() {
	core.Register(&core.Check{ID: "C10", Technique: "explicit-state exploration: every constructor composition up to the bound on the real code, compared node by node with a compositional text model; exhaustive constructor x nil table",
		Run: runC10})
}

// modelDiff compares the real error with the model tree node by node.
func modelDiff(e error, m *tm.Node, path string) string {
	if e == nil || m == nil {
		if e == nil && m == nil {
			return ""
		}
		return fmt.Sprintf("at %s: real node present=%v, model node present=%v", path, e != nil, m != nil)
	}
	if got := e.Error(); got != m.Text {
		return fmt.Sprintf("at %s (%T): Error() = %q, model says %q", path, e, got, m.Text)
	}
	if d := modelDiff(errbase.UnwrapOnce(e), m.Cause, path+".cause"); d != "" {
		return d
	}
	bs := errbase.UnwrapMulti(e)
	if len(bs) != len(m.Multi) {
		return fmt.Sprintf("at %s (%T): %d branches, model says %d", path, e, len(bs), len(m.Multi))
	}
	for i := range bs {
		if d := modelDiff(bs[i], m.Multi[i], fmt.Sprintf("%s.branch[%d]", path, i)); d != "" {
			return d
		}
	}
	return ""
}

// transparentClasses are the op classes the statement calls
// annotation-only.
var transparentClasses = map[string]bool{"annotation": true, "stack": true, "mark": true, "secondary": true}

func runC10(c *core.Ctx, r *core.Result) {
	p := plan{dupDepth: 3, fullDepth: 3, coreDepth: 4, strDepth: 2, pairDepth: 2, alphabet: tm.REG}
	if c.Thorough() {
		p = plan{dupDepth: 3, fullDepth: 4, coreDepth: 6, strDepth: 3, pairDepth: 2, alphabet: tm.REG}
	}
	r.Bounds = p.String() + "; nil table over every exported constructor found by an AST scan of /repo"
	r.Rule = "state = term (with strings); non-trivial = depth>=2 (a composition); outcome class = class of the outermost constructor"
	r.Assumptions = []string{"REG strings only (marker runes are escaped by redact by design)", "model of each constructor's text written from README/doc comments (tm/ops.go)"}
	sent := tm.Sentinels()
	probes := tm.AsProbes()
	eachTerm(c, r, p, func(t *tm.Term) {
		ok := report(r, t, nil, func(t *tm.Term) string {
			return guarded("C10", func() string {
				e := t.Build()
				if e == nil {
					return fail("leaf-nil", "constructor returned nil for non-nil input")
				}
				if d := modelDiff(e, t.Model(), "root"); d != "" {
					return fail("text", "%s", d)
				}
				if t.Kid != nil && transparentClasses[t.Op.Class] {
					// annotation-only: same text, same root, keeps Is/As matches
					cause := t.Kid.Build()
					var side []error
					for _, s := range t.Side {
						side = append(side, s.Build())
					}
					w := t.Op.Build(t.S, cause, side)
					if w.Error() != cause.Error() {
						return fail("annot-text", "annotation changed Error(): %q vs %q", w.Error(), cause.Error())
					}
					if !tm.Same(errors.UnwrapAll(w), errors.UnwrapAll(cause)) {
						return fail("annot-root", "annotation changed the root cause: %T vs %T", errors.UnwrapAll(w), errors.UnwrapAll(cause))
					}
					refs := append([]tm.NamedErr{}, sent...)
					for i, n := range tm.Nodes(cause) {
						refs = append(refs, tm.NamedErr{Name: fmt.Sprintf("node[%d]", i), Err: n})
					}
					for _, ref := range refs {
						// a panic inside Is is C08's business (reported there)
						inner, p1 := tm.IsG(cause, ref.Err)
						outer, p2 := tm.IsG(w, ref.Err)
						if p1 || p2 {
							continue
						}
						if inner && !outer {
							return fail("annot-is", "Is(e, %s) holds but Is(w(e), %s) does not", ref.Name, ref.Name)
						}
					}
					for _, pr := range probes {
						ok1, v1, _ := pr.Try(cause, errors.As)
						ok2, v2, _ := pr.Try(w, errors.As)
						// the "error" probe matches the outermost layer, which is w itself
						if pr.Name == "error" {
							continue
						}
						if ok1 && (!ok2 || v1 != v2) {
							return fail("annot-as", "As(%s) on e gives (%v,%s) but on w(e) (%v,%s)", pr.Name, ok1, v1, ok2, v2)
						}
					}
				}
				return ""
			})
		})
		r.States++
		r.Transitions += int64(t.Depth())
		r.Evaluations++
		if ok && t.Depth() >= 2 {
			r.Nontrivial++
		}
		r.Outcome(t.Op.Class)
		if r.Evaluations%1499 == 1 {
			r.Sample(map[string]interface{}{"term": t.String(), "text": t.Model().Text})
		}
	})
	if c.Shard == 0 && c.Replay == nil {
		nilTable(r)
	}
}

type nilCase struct {
	name string // pkg.Func as found by the AST scan
	call func() error
	want string // "nil" (default) or "arg" (returns the other argument)
}

var otherErr = errors.New("other")

func nilCases() []nilCase {
	ctx := tm.Bg()
	var n error
	return []nilCase{
		{"errors.WithMessage", func() error { return errors.WithMessage(n, "m") }, ""},
		{"errors.WithMessagef", func() error { return errors.WithMessagef(n, "m %d", 1) }, ""},
		{"errors.Wrap", func() error { return errors.Wrap(n, "m") }, ""},
		{"errors.Wrapf", func() error { return errors.Wrapf(n, "m %d", 1) }, ""},
		{"errors.Wrapf", func() error { return errors.Wrapf(n, "m %v", otherErr) }, ""},
		{"errors.WrapWithDepthf", func() error { return errors.WrapWithDepthf(0, n, "m %v %v", otherErr, 1) }, ""},
		{"errors.NewAssertionErrorWithWrappedErrf", func() error { return errors.NewAssertionErrorWithWrappedErrf(n, "m %v", otherErr) }, ""},
		{"errors.WithMessagef", func() error { return errors.WithMessagef(n, "m %v", otherErr) }, ""},
		{"errors.WithHintf", func() error { return errors.WithHintf(n, "h %v", otherErr) }, ""},
		{"errors.WithDetailf", func() error { return errors.WithDetailf(n, "d %v", otherErr) }, ""},
		{"errors.WithSafeDetails", func() error { return errors.WithSafeDetails(n, "d %v", otherErr) }, ""},
		{"status.WrapErrf", func() error { return grpcstatus.WrapErrf(codes.NotFound, n, "m %v", otherErr) }, ""},
		{"errutil.Wrapf", func() error { return errutil.Wrapf(n, "m %v", otherErr) }, ""},
		{"errutil.WrapWithDepthf", func() error { return errutil.WrapWithDepthf(0, n, "m %v", otherErr) }, ""},
		{"errors.WrapWithDepth", func() error { return errors.WrapWithDepth(0, n, "m") }, ""},
		{"errors.WrapWithDepthf", func() error { return errors.WrapWithDepthf(0, n, "m %d", 1) }, ""},
		{"errors.WithStack", func() error { return errors.WithStack(n) }, ""},
		{"errors.WithStackDepth", func() error { return errors.WithStackDepth(n, 0) }, ""},
		{"errors.WithHint", func() error { return errors.WithHint(n, "h") }, ""},
		{"errors.WithHintf", func() error { return errors.WithHintf(n, "h %d", 1) }, ""},
		{"errors.WithDetail", func() error { return errors.WithDetail(n, "d") }, ""},
		{"errors.WithDetailf", func() error { return errors.WithDetailf(n, "d %d", 1) }, ""},
		{"errors.WithSafeDetails", func() error { return errors.WithSafeDetails(n, "d %d", 1) }, ""},
		{"errors.WithTelemetry", func() error { return errors.WithTelemetry(n, "k") }, ""},
		{"errors.WithDomain", func() error { return errors.WithDomain(n, errors.NamedDomain("d")) }, ""},
		{"errors.WithIssueLink", func() error { return errors.WithIssueLink(n, errors.IssueLink{IssueURL: "u"}) }, ""},
		{"errors.WithContextTags", func() error { return errors.WithContextTags(n, ctx) }, ""},
		{"errors.WithAssertionFailure", func() error { return errors.WithAssertionFailure(n) }, ""},
		{"errors.Mark", func() error { return errors.Mark(n, otherErr) }, ""},
		{"errors.WithSecondaryError", func() error { return errors.WithSecondaryError(n, otherErr) }, ""},
		{"errors.CombineErrors", func() error { return errors.CombineErrors(n, otherErr) }, "arg"},
		{"errors.Handled", func() error { return errors.Handled(n) }, ""},
		{"errors.Opaque", func() error { return errors.Opaque(n) }, ""},
		{"errors.HandledWithMessage", func() error { return errors.HandledWithMessage(n, "m") }, ""},
		{"errors.HandledInDomain", func() error { return errors.HandledInDomain(n, errors.NamedDomain("d")) }, ""},
		{"errors.HandledInDomainWithMessage", func() error {
			return errors.HandledInDomainWithMessage(n, errors.NamedDomain("d"), "m")
		}, ""},
		{"errors.EnsureNotInDomain", func() error {
			return errors.EnsureNotInDomain(n, func(errors.Domain, error) error { return otherErr }, errors.NoDomain)
		}, ""},
		{"errors.HandleAsAssertionFailure", func() error { return errors.HandleAsAssertionFailure(n) }, ""},
		{"errors.HandleAsAssertionFailureDepth", func() error { return errors.HandleAsAssertionFailureDepth(0, n) }, ""},
		{"errors.NewAssertionErrorWithWrappedErrf", func() error { return errors.NewAssertionErrorWithWrappedErrf(n, "m %d", 1) }, ""},
		{"errors.Join", func() error { return errors.Join(n, n) }, ""},
		{"errors.JoinWithDepth", func() error { return errors.JoinWithDepth(0, n, n) }, ""},
		{"errors.Unwrap", func() error { return errors.Unwrap(n) }, ""},
		{"errors.UnwrapOnce", func() error { return errors.UnwrapOnce(n) }, ""},
		{"errors.UnwrapAll", func() error { return errors.UnwrapAll(n) }, ""},
		{"errors.Cause", func() error { return errors.Cause(n) }, ""},

		{"errutil.WithMessage", func() error { return errutil.WithMessage(n, "m") }, ""},
		{"errutil.WithMessagef", func() error { return errutil.WithMessagef(n, "m %d", 1) }, ""},
		{"errutil.Wrap", func() error { return errutil.Wrap(n, "m") }, ""},
		{"errutil.Wrapf", func() error { return errutil.Wrapf(n, "m %d", 1) }, ""},
		{"errutil.WrapWithDepth", func() error { return errutil.WrapWithDepth(0, n, "m") }, ""},
		{"errutil.WrapWithDepthf", func() error { return errutil.WrapWithDepthf(0, n, "m %d", 1) }, ""},
		{"errutil.HandleAsAssertionFailure", func() error { return errutil.HandleAsAssertionFailure(n) }, ""},
		{"errutil.HandleAsAssertionFailureDepth", func() error { return errutil.HandleAsAssertionFailureDepth(0, n) }, ""},
		{"errutil.NewAssertionErrorWithWrappedErrf", func() error { return errutil.NewAssertionErrorWithWrappedErrf(n, "m") }, ""},
		{"errutil.NewAssertionErrorWithWrappedErrDepthf", func() error {
			return errutil.NewAssertionErrorWithWrappedErrDepthf(0, n, "m")
		}, ""},
		{"errutil.JoinWithDepth", func() error { return errutil.JoinWithDepth(0, n) }, ""},
		{"withstack.WithStack", func() error { return withstack.WithStack(n) }, ""},
		{"withstack.WithStackDepth", func() error { return withstack.WithStackDepth(n, 0) }, ""},
		{"hintdetail.WithHint", func() error { return hintdetail.WithHint(n, "h") }, ""},
		{"hintdetail.WithHintf", func() error { return hintdetail.WithHintf(n, "h") }, ""},
		{"hintdetail.WithDetail", func() error { return hintdetail.WithDetail(n, "d") }, ""},
		{"hintdetail.WithDetailf", func() error { return hintdetail.WithDetailf(n, "d") }, ""},
		{"safedetails.WithSafeDetails", func() error { return safedetails.WithSafeDetails(n, "d") }, ""},
		{"telemetrykeys.WithTelemetry", func() error { return telemetrykeys.WithTelemetry(n, "k") }, ""},
		{"domains.WithDomain", func() error { return domains.WithDomain(n, domains.NamedDomain("d")) }, ""},
		{"domains.HandledInDomain", func() error { return domains.HandledInDomain(n, domains.NamedDomain("d")) }, ""},
		{"domains.HandledInDomainWithMessage", func() error {
			return domains.HandledInDomainWithMessage(n, domains.NamedDomain("d"), "m")
		}, ""},
		{"domains.Handled", func() error { return domains.Handled(n) }, ""},
		{"domains.EnsureNotInDomain", func() error {
			return domains.EnsureNotInDomain(n, func(domains.Domain, error) error { return otherErr }, domains.NoDomain)
		}, ""},
		{"issuelink.WithIssueLink", func() error { return issuelink.WithIssueLink(n, issuelink.IssueLink{}) }, ""},
		{"contexttags.WithContextTags", func() error { return contexttags.WithContextTags(n, ctx) }, ""},
		{"assert.WithAssertionFailure", func() error { return assert.WithAssertionFailure(n) }, ""},
		{"markers.Mark", func() error { return markers.Mark(n, otherErr) }, ""},
		{"secondary.WithSecondaryError", func() error { return secondary.WithSecondaryError(n, otherErr) }, ""},
		{"secondary.CombineErrors", func() error { return secondary.CombineErrors(n, otherErr) }, "arg"},
		{"barriers.Handled", func() error { return barriers.Handled(n) }, ""},
		{"barriers.HandledWithMessage", func() error { return barriers.HandledWithMessage(n, "m") }, ""},
		{"barriers.HandledWithMessagef", func() error { return barriers.HandledWithMessagef(n, "m %d", 1) }, ""},
		{"barriers.HandledWithSafeMessage", func() error { return barriers.HandledWithSafeMessage(n, redact.Sprint("m")) }, ""},
		{"join.Join", func() error { return join.Join(n, n) }, ""},
		{"exthttp.WrapWithHTTPCode", func() error { return exthttp.WrapWithHTTPCode(n, 404) }, ""},
		{"extgrpc.WrapWithGrpcCode", func() error { return extgrpc.WrapWithGrpcCode(n, codes.NotFound) }, ""},
		{"status.WrapErr", func() error { return grpcstatus.WrapErr(codes.NotFound, "m", n) }, ""},
		{"status.WrapErrf", func() error { return grpcstatus.WrapErrf(codes.NotFound, n, "m %d", 1) }, ""},
		{"errbase.UnwrapOnce", func() error { return errbase.UnwrapOnce(n) }, ""},
		{"errbase.UnwrapAll", func() error { return errbase.UnwrapAll(n) }, ""},
	}
}

// scanConstructors lists pkg.Func for every exported function of the
// library whose first error-typed parameter is the wrapped error and that
// returns exactly one error.
func scanConstructors(root string) ([]string, error) {
	var out []string
	fset := token.NewFileSet()
	err := filepath.Walk(root, func(path string, info os.FileInfo, err error) error {
		if err != nil {
			return err
		}
		if info.IsDir() {
			b := filepath.Base(path)
			if b == "testutils" || b == "fmttests" || b == "internal" || b == ".git" || b == "testdata" {
				return filepath.SkipDir
			}
			return nil
		}
		if !strings.HasSuffix(path, ".go") || strings.HasSuffix(path, "_test.go") || strings.HasSuffix(path, ".pb.go") {
			return nil
		}
		f, err := parser.ParseFile(fset, path, nil, 0)
		if err != nil {
			return nil
		}
		for _, d := range f.Decls {
			fd, ok := d.(*ast.FuncDecl)
			if !ok || fd.Recv != nil || !fd.Name.IsExported() || fd.Type.Results == nil {
				continue
			}
			if len(fd.Type.Results.List) != 1 || !isErrorType(fd.Type.Results.List[0].Type) || len(fd.Type.Results.List[0].Names) > 1 {
				continue
			}
			hasErrParam := false
			for _, pl := range fd.Type.Params.List {
				if isErrorType(pl.Type) {
					hasErrParam = true
				}
				if el, ok := pl.Type.(*ast.Ellipsis); ok && isErrorType(el.Elt) {
					hasErrParam = true
				}
			}
			if !hasErrParam {
				continue
			}
			out = append(out, f.Name.Name+"."+fd.Name.Name)
		}
		return nil
	})
	sort.Strings(out)
	return out, err
}

func isErrorType(e ast.Expr) bool {
	id, ok := e.(*ast.Ident)
	return ok && id.Name == "error"
}

// notConstructors are scanned functions that take an error but are not
// wrapper constructors (decoders, accessors returning an error value).
var notConstructors = map[string]bool{
	"errors.DecodeError": true, "errbase.DecodeError": true,
	"grpc.UnaryClientInterceptor": true, "middleware.UnaryClientInterceptor": true,
	"status.WrapErr": false, "status.WrapErrf": false,
}

func nilTable(r *core.Result) {
	covered := map[string]bool{}
	for _, nc := range nilCases() {
		covered[nc.name+nilVariant(nc.name, covered)] = true
		covered[nc.name] = true
		nc := nc
		var got error
		p := tm.Guard(func() { got = nc.call() })
		r.States++
		r.Evaluations++
		r.Nontrivial++
		switch {
		case p != nil:
			r.Violate("nil-panic|"+nc.name, fmt.Sprintf("%s(nil, …) panics: %v", nc.name, p), map[string]interface{}{"nil_case": nc.name})
		case nc.want == "arg" && !tm.Same(got, otherErr):
			r.Violate("nil-arg|"+nc.name, fmt.Sprintf("%s(nil, e) = %v, want e", nc.name, got), map[string]interface{}{"nil_case": nc.name})
		case nc.want == "" && got != nil:
			r.Violate("nil-not-nil|"+nc.name+nilVariant(nc.name, covered), fmt.Sprintf("%s(nil, …) returned a non-nil error (%T: %q); every wrapper constructor must return nil for a nil error", nc.name, got, got.Error()), map[string]interface{}{"nil_case": nc.name})
		}
	}
	r.Outcome("nil-table")
	// other nil laws
	e := errors.New("e")
	if got := errors.WithSecondaryError(e, nil); !tm.Same(got, e) {
		r.Violate("nil-law|WithSecondaryError(e,nil)", "WithSecondaryError(e, nil) != e", nil)
	}
	if got := errors.CombineErrors(e, nil); !tm.Same(got, e) {
		r.Violate("nil-law|CombineErrors(e,nil)", "CombineErrors(e, nil) != e", nil)
	}
	if got := errors.Join(); got != nil {
		r.Violate("nil-law|Join()", "Join() != nil", nil)
	}
	if got := errors.Join(nil, e, nil); got == nil || got.Error() != "e" {
		r.Violate("nil-law|Join(nil,e,nil)", fmt.Sprintf("Join(nil,e,nil) = %v", got), nil)
	}
	if got := errors.WithContextTags(e, tm.Bg()); !tm.Same(got, e) {
		// documented: no tags => error returned unchanged
		r.Violate("nil-law|WithContextTags(e,notags)", "WithContextTags(e, ctx without tags) != e", nil)
	}
	if got := errors.WithSafeDetails(e, ""); !tm.Same(got, e) {
		r.Violate("nil-law|WithSafeDetails(e,\"\")", "WithSafeDetails(e, \"\") != e", nil)
	}
	scanned, err := scanConstructors("/repo")
	if err != nil {
		r.HarnessError("AST scan of /repo failed: %v", err)
	}
	r.Count("constructors_scanned", int64(len(scanned)))
	for _, s := range scanned {
		if !covered[s] && !notConstructors[s] {
			r.Uncovered = append(r.Uncovered, "nil-table:"+s)
		}
	}
}

// nilVariant distinguishes the second (error-valued format argument)
// entry of a constructor in the nil table.
func nilVariant(name string, seen map[string]bool) string {
	if seen[name] {
		return "|err-arg"
	}
	return ""
}
