package props

import (
	"bytes"
	"fmt"

	"verif/mc/core"
	"verif/mc/tm"
)

func init() {
	core.Register(&core.Check{ID: "C01", Technique: "explicit-state exploration of construct/transport histories on the real code (bounded exhaustive term enumeration x hop sequences), differential shape oracle + wire fixpoint",
		Run: runC01})
}

func c01Plan(c *core.Ctx) (plan, int) {
	if c.Thorough() {
		return plan{dupDepth: 3, fullDepth: 4, coreDepth: 6, strDepth: 2, pairDepth: 2, alphabet: tm.REG}, 4
	}
	return plan{dupDepth: 3, fullDepth: 3, coreDepth: 4, strDepth: 2, pairDepth: 1, alphabet: tm.REG}, 3
}

func runC01(c *core.Ctx, r *core.Result) {
	p, hops := c01Plan(c)
	r.Bounds = fmt.Sprintf("%s; hop_K^k for k<=%d then re-encode", p, hops)
	r.Rule = "state = (term, hop count); non-trivial = a hop changed the Go type of at least one layer or the tree has a multi-cause/barrier/secondary node; distinct by construction (mixed-radix term index x string assignment)"
	r.Assumptions = []string{"messages range over the REG alphabet (regular text per the property's quantifier)", "trees deeper than the stated depth and alphabets beyond REG are not covered"}
	eachTerm(c, r, p, func(t *tm.Term) {
		var nontrivial bool
		var nstates int64
		ok := report(r, t, map[string]interface{}{"hops": hops}, func(t *tm.Term) string {
			return guarded("C01", func() string {
				nstates = 0
				e0 := t.Build()
				s0 := tm.ShapeOf(e0)
				nstates++
				cur := e0
				var prevWire []byte
				for k := 1; k <= hops; k++ {
					next, w := tm.HopK(cur)
					nstates++
					sk := tm.ShapeOf(next)
					if d := s0.Diff(sk); d != "" {
						return fail(fmt.Sprintf("shape:hop%d", min(k, 2)), "after %d hop(s) the cause tree differs: %s", k, d)
					}
					if k == 1 && fmt.Sprint(sk.Types()) != fmt.Sprint(s0.Types()) {
						nontrivial = true
					}
					// no drift: w_k (encoding of e_{k-1}) vs w_{k-1}
					if k == 2 {
						a, b := tm.BlankBarrierPayloads(prevWire), tm.BlankBarrierPayloads(w)
						if f, fam, d := tm.WireDiff(a, b); f != "" {
							return fail("drift:w2!=w1:"+f, "re-encoding after the first hop changed the wire (modulo barrier payloads): field %s of layer %s: %s", f, fam, d)
						}
					}
					if k >= 3 && !bytes.Equal(prevWire, w) {
						f, fam, d := tm.WireDiff(prevWire, w)
						return fail("drift:fixpoint:"+f, "wire not a fixpoint: hop %d re-encoding differs in field %s of layer %s: %s", k, f, fam, d)
					}
					// re-encoding the same object twice is deterministic
					if !bytes.Equal(tm.Encode(cur), w) {
						return fail("reenc-nondeterministic", "encoding the same error twice gave different bytes")
					}
					prevWire = w
					cur = next
				}
				// the order of use does not matter: a twin that is encoded
				// before any of its methods has been called arrives the same
				cold, _ := tm.HopK(t.Build())
				nstates++
				if d := s0.Diff(tm.ShapeOf(cold)); d != "" {
					return fail("shape:cold-hop1", "an error transferred before any other use arrives with a different cause tree: %s", d)
				}
				return ""
			})
		})
		r.States += nstates
		r.Transitions += nstates - 1
		r.Evaluations++
		if ok {
			m := t.Model()
			if nontrivial || len(m.Multi) > 0 || t.Depth() > 1 {
				r.Nontrivial++
			}
			r.Outcome(t.Op.Class)
		}
		if r.Evaluations%997 == 1 {
			r.Sample(map[string]interface{}{"term": t.String(), "hops": hops})
		}
	})
}

func min(a, b int) int {
	if a < b {
		return a
	}
	return b
}

// firstDiffType returns the origin-side Go type of the first node where
// two shapes differ.
func firstDiffType(a, b *tm.Shape) string {
	if a == nil || b == nil {
		if a != nil {
			return a.Type
		}
		return "nil"
	}
	if a.Text != b.Text {
		return a.Type
	}
	if t := firstDiffTypeOpt(a.Cause, b.Cause); t != "" {
		return t
	}
	if len(a.Multi) != len(b.Multi) {
		return a.Type
	}
	for i := range a.Multi {
		if t := firstDiffTypeOpt(a.Multi[i], b.Multi[i]); t != "" {
			return t
		}
	}
	return ""
}

func firstDiffTypeOpt(a, b *tm.Shape) string {
	if a == nil && b == nil {
		return ""
	}
	if a.Diff(b) == "" {
		return ""
	}
	return firstDiffType(a, b)
}
