package props

import (
	"fmt"
	"path/filepath"
	"reflect"
	"runtime"
	"strings"

	"github.com/cockroachdb/errors/errbase"

	"github.com/cockroachdb/errors"
	"github.com/cockroachdb/redact"

	"verif/mc/core"
	"verif/mc/tm"
)

func init() {
	core.Register(&core.Check{ID: "C15", Technique: "explicit-state exploration: every constructor composition up to the bound, local and decoded, on the real BuildSentryReport; oracle: counting/ordering relations between layers, stacks, exceptions, composition lines and type lines derived from an independent walk of the error",
		Run: runC15})
}

func checkReport(e error) string {
	ev, extras := errors.BuildSentryReport(e)
	if ev == nil {
		return fail("nil-event", "BuildSentryReport returned no event for a non-nil error")
	}
	L := tm.Nodes(e)
	type st struct {
		idx   int
		stack *errors.ReportableStackTrace
	}
	var S []st
	for i, n := range L {
		if s := errors.GetReportableStackTrace(n); s != nil {
			S = append(S, st{i, s})
		}
	}
	// message
	// the innermost recorded source, from an independent walk (deepest
	// layer of the cause chain with a stack, its innermost-caller frame)
	prefix := ""
	var inner *errors.ReportableStackTrace
	for c := e; c != nil; c = errors.UnwrapOnce(c) {
		if s := errors.GetReportableStackTrace(c); s != nil && len(s.Frames) > 0 {
			inner = s
		}
	}
	if inner != nil {
		f := inner.Frames[len(inner.Frames)-1]
		prefix = fmt.Sprintf("%s:%d: ", filepath.Base(f.AbsPath), f.Lineno)
	}
	// native stacks: the reported frames are those of the captured program counters
	for i, n := range L {
		sp, ok := n.(interface{ StackTrace() errbase.StackTrace })
		if !ok {
			continue
		}
		rs := errors.GetReportableStackTrace(n)
		pcs := sp.StackTrace()
		if rs == nil || len(rs.Frames) != len(pcs) {
			return fail("native-frames-count", "layer %d captured %d program counters but reports %d frames", i, len(pcs), func() int {
				if rs == nil {
					return 0
				}
				return len(rs.Frames)
			}())
		}
		for k, pc := range pcs {
			fn := runtime.FuncForPC(uintptr(pc) - 1)
			if fn == nil {
				continue
			}
			file, line := fn.FileLine(uintptr(pc) - 1)
			fr := rs.Frames[len(pcs)-1-k]
			if fr.AbsPath != file || fr.Lineno != line {
				return fail("native-frames", "layer %d frame %d reports %s:%d but the captured program counter is at %s:%d", i, k, fr.AbsPath, fr.Lineno, file, line)
			}
			// the function: the last component of the runtime's name, the
			// "[...]" of instantiated generic functions apart
			rn := strings.ReplaceAll(fn.Name(), "[...]", "")
			wantFn := rn[strings.LastIndexByte(rn, '.')+1:]
			if fr.Function != wantFn || strings.ReplaceAll(fr.Module+"."+fr.Function, "[...]", "") != rn {
				return fail("native-frames-function", "layer %d frame %d is reported as module %q function %q, the program counter lies in %s", i, k, fr.Module, fr.Function, fn.Name())
			}
		}
	}
	verbose := redact.Sprintf("%+v", e).Redact().StripMarkers()
	head := prefix + verbose + "\n-- report composition:\n"
	if !strings.HasPrefix(ev.Message, head) {
		return fail("message-head", "the event message does not begin with [file:line: ] + redacted %%+v + composition header:\n%q\nexpected prefix\n%q", short(ev.Message), short(head))
	}
	comp := strings.TrimSuffix(ev.Message[len(head):], "\n(check the extra data payloads)")
	lines := strings.Split(comp, "\n")
	if len(lines) != len(L) {
		return fail("composition-lines", "%d composition lines for %d layers:\n%s", len(lines), len(L), short(comp))
	}
	// composition lines go innermost (last visited) to outermost and name the type
	for k, ln := range lines {
		n := L[len(L)-1-k]
		tn := errors.GetSafeDetails(n).OriginalTypeName
		if !strings.Contains(ln, typeTail(tn)) {
			return fail("composition-type", "composition line %d (%q) does not name the type %s of the corresponding layer", k, ln, typeTail(tn))
		}
	}
	// exceptions
	want := len(S)
	if want == 0 {
		want = 1
	}
	if len(ev.Exception) != want {
		return fail("exception-count", "%d exceptions for %d layers with a stack trace", len(ev.Exception), len(S))
	}
	dom := string(errors.GetDomain(e))
	if len(S) == 0 {
		if ev.Exception[0].Stacktrace != nil {
			return fail("synthetic-stack", "the synthetic exception carries a stack trace")
		}
	}
	for i, x := range ev.Exception {
		if x.Module != dom {
			return fail("exception-module", "exception %d has module %q, the error's domain is %q", i, x.Module, dom)
		}
		if len(S) > 0 && !reflect.DeepEqual(x.Stacktrace, S[i].stack) {
			return fail("exception-order", "exception %d does not carry the frames of the %d-th layer with a stack (outermost first)", i, i)
		}
	}
	// error types extra
	tl, _ := extras["error types"].(string)
	tlines := strings.Split(strings.TrimSuffix(tl, "\n"), "\n")
	if len(tlines) != len(L) {
		return fail("types-lines", "%d lines in the 'error types' extra for %d layers", len(tlines), len(L))
	}
	for k, ln := range tlines {
		n := L[len(L)-1-k]
		sd := errors.GetSafeDetails(n)
		fm := "*"
		if sd.OriginalTypeName != sd.ErrorTypeMark.FamilyName {
			fm = sd.ErrorTypeMark.FamilyName
		}
		wantLn := fmt.Sprintf("%s (%s::%s)", sd.OriginalTypeName, fm, sd.ErrorTypeMark.Extension)
		if ln != wantLn {
			return fail("types-line", "line %d of the 'error types' extra is %q, expected %q", k, ln, wantLn)
		}
	}
	return ""
}

func runC15(c *core.Ctx, r *core.Result) {
	p := plan{fullDepth: 3, coreDepth: 4, strDepth: 2, alphabet: c15Alphabet}
	if c.Thorough() {
		p = plan{fullDepth: 4, coreDepth: 5, strDepth: 2, alphabet: c15Alphabet}
	}
	r.Bounds = p.String() + "; local, after hop_K and hop_K^2 (stacks re-parsed from text), and decoded at a process that knows no type"
	r.Rule = "state = (term, stage); non-trivial = the error has >= 2 layers and either >= 1 stack trace or a multi-cause node; outcome = (#layers, #stacks) class"
	if ev, ex := errors.BuildSentryReport(nil); ev != nil || ex != nil {
		r.Violate("nil-error", "BuildSentryReport(nil) returned something", nil)
	}
	stages := []stage{
		{"local", func(e error) error { return e }},
		{"K", func(e error) error { d, _ := tm.HopK(e); return d }},
		{"KK", func(e error) error { d, _ := tm.HopK(e); d, _ = tm.HopK(d); return d }},
		{"opaque", func(e error) error { w := tm.Encode(e); return tm.DecodeU(w, tm.WireKeys(w)) }},
	}
	eachTerm(c, r, p, func(t *tm.Term) {
		nl, ns := 0, 0
		report(r, t, nil, func(t *tm.Term) string {
			return guarded("C15", func() string {
				e0 := t.Build()
				nl = len(tm.Nodes(e0))
				ns = 0
				for _, n := range tm.Nodes(e0) {
					if errors.GetReportableStackTrace(n) != nil {
						ns++
					}
				}
				for _, st := range stages {
					if f := checkReport(st.get(e0)); f != "" {
						return fail(keyOf(f)+":"+st.name, "at stage %s: %s", st.name, textOf(f))
					}
				}
				return ""
			})
		})
		r.States += int64(len(stages))
		r.Transitions += int64(len(stages))
		r.Evaluations++
		if nl >= 2 && (ns >= 1 || len(t.Model().Multi) > 0) {
			r.Nontrivial++
		}
		r.Outcome(fmt.Sprintf("layers=%d stacks=%d", min(nl, 6), min(ns, 4)))
		if r.Evaluations%2999 == 1 {
			r.Sample(map[string]interface{}{"term": t.String(), "layers": nl, "stacks": ns})
		}
	})
}

// c15Alphabet: regular strings plus newlines at the boundaries (the report
// keeps "the first line" of several strings) and printf verbs.
var c15Alphabet = append(append([]string{}, tm.REG...), "\nx", "x\n", "a\n\nb", "", "50%", "%s%d%v")
