package props

import (
	"fmt"
	"reflect"
	"strings"

	"github.com/cockroachdb/errors"
	"github.com/cockroachdb/errors/errbase"

	"verif/mc/core"
	"verif/mc/tm"
)

func init() {
	core.Register(&core.Check{ID: "C13", Technique: "explicit-state exploration: every constructor composition containing a multi-cause node up to the bound x transport histories (knowing and unknowing receivers) on the real code; oracle: tree semantics of Is/IsAny/As per node, leaf behaviour of Unwrap, branch preservation under transfer",
		Run: runC13})
}

func multiNodes(e error) []error {
	var ms []error
	for _, n := range tm.Nodes(e) {
		if len(errbase.UnwrapMulti(n)) > 0 {
			ms = append(ms, n)
		}
	}
	return ms
}

// selfMatch: does the multi-cause node itself (not its branches) match r?
func selfMatch(m, r error) bool {
	if r == nil {
		return false
	}
	if reflect.TypeOf(r).Comparable() && tm.Same(m, r) {
		return true
	}
	if x, ok := m.(interface{ Is(error) bool }); ok && x.Is(r) {
		return true
	}
	return tm.RefMark(m) == tm.RefMark(r)
}

func checkMultiNode(m error, refs []tm.NamedErr, probes []tm.AsProbe) string {
	bs := errbase.UnwrapMulti(m)
	if errors.Unwrap(m) != nil || errors.UnwrapOnce(m) != nil {
		return fail("unwrap-not-nil", "Unwrap/UnwrapOnce of a multi-cause node (%T) is not nil", m)
	}
	if errors.UnwrapAll(m) != m && !tm.Same(errors.UnwrapAll(m), m) {
		return fail("unwrapall", "UnwrapAll of a multi-cause node does not stop at it")
	}
	for _, ref := range refs {
		got, p := tm.IsG(m, ref.Err)
		if p {
			return fail("is-panic", "Is(multi, %s) panics", ref.Name)
		}
		want := selfMatch(m, ref.Err)
		for _, b := range bs {
			if ok, _ := tm.IsG(b, ref.Err); ok {
				want = true
			}
		}
		if got != want {
			return fail("is-tree", "Is(multi, %s) = %v but self-or-some-branch says %v (%T with %d branches)", ref.Name, got, want, m, len(bs))
		}
		var any bool
		if p := tm.Guard(func() { any = errors.IsAny(m, errors.New("nomatch"), ref.Err) }); p != nil {
			return fail("isany-panic", "IsAny(multi, …) panics: %v", p)
		}
		if any != want {
			return fail("isany-tree", "IsAny(multi, other, %s) = %v but self-or-some-branch says %v", ref.Name, any, want)
		}
	}
	for _, pr := range probes {
		if pr.Name == "error" {
			continue
		}
		gotOK, gotV, _ := pr.Try(m, errors.As)
		// expected: the node itself if assignable / As method, else the
		// first branch (in order) on which As succeeds
		wantOK, wantV := false, ""
		selfOnly := &branchless{m}
		if ok, v, _ := pr.Try(selfOnly.asSelf(), errors.As); ok {
			wantOK, wantV = ok, v
		} else {
			for _, b := range bs {
				if ok, v, _ := pr.Try(b, errors.As); ok {
					wantOK, wantV = true, v
					break
				}
			}
		}
		if gotOK != wantOK || gotV != wantV {
			return fail("as-tree", "As(multi, %s) = (%v, %s) but the first matching branch in order gives (%v, %s)", pr.Name, gotOK, gotV, wantOK, wantV)
		}
	}
	return ""
}

// branchless lets the oracle ask "does the node itself match the As
// target" without the library's recursion into branches: a multi-cause
// node never is one of the probe target types except through its own
// type, which the probes do not target; so the node itself never matches.
type branchless struct{ e error }

func (b *branchless) asSelf() error { return errNone }

var errNone = errors.New("verif: no self match")

func runC13(c *core.Ctx, r *core.Result) {
	p := plan{dupDepth: 2, fullDepth: 2, coreDepth: 4, alphabet: tm.REGE}
	if c.Thorough() {
		p = plan{dupDepth: 2, fullDepth: 3, coreDepth: 5, alphabet: tm.REGE}
	}
	r.Bounds = p.String() + " restricted to trees with at least one visible multi-cause node; stages local, hop_K, hop_K^2, unknowing hop U(all)>K and evaluated at U(all)"
	r.Rule = "state = (term, stage); non-trivial = a reference or As target matches through a branch (the tree semantics is exercised) ; outcome = class of the outermost constructor"
	sent := tm.Sentinels()
	probes := tm.AsProbes()
	eachTerm(c, r, p, func(t *tm.Term) {
		m := t.Model()
		hasMulti := false
		var walk func(n *tm.Node)
		walk = func(n *tm.Node) {
			if n == nil {
				return
			}
			if len(n.Multi) > 0 {
				hasMulti = true
			}
			walk(n.Cause)
			for _, b := range n.Multi {
				walk(b)
			}
		}
		walk(m)
		if !hasMulti {
			return
		}
		exercised := false
		report(r, t, nil, func(t *tm.Term) string {
			return guarded("C13", func() string {
				e0 := t.Build()
				s0 := tm.ShapeOf(e0)
				// the tree is the one the constructors were asked to build: every
				// multi-cause node has the branches it was given, nested ones included
				if d := modelDiff(e0, t.Model(), "root"); d != "" {
					return fail("structure:local", "the error tree differs from the composition that built it: %s", short(d))
				}
				stages := []stage{
					{"local", func(e error) error { return e }},
					{"K", func(e error) error { d, _ := tm.HopK(e); return d }},
					{"KK", func(e error) error { d, _ := tm.HopK(e); d, _ = tm.HopK(d); return d }},
					{"atU", func(e error) error { w := tm.Encode(e); return tm.DecodeU(w, tm.WireKeys(w)) }},
					{"U>K", func(e error) error {
						w := tm.Encode(e)
						var w2 []byte
						tm.AtU(tm.WireKeys(w), func() { w2 = tm.Encode(tm.Decode(w)) })
						return tm.Decode(w2)
					}},
				}
				for _, st := range stages {
					e := st.get(e0)
					if d := s0.Diff(tm.ShapeOf(e)); d != "" {
						return fail("branches:"+st.name+"|text@"+typeTail(culprit(s0, tm.ShapeOf(e))), "branch count / order / content changed at stage %s: %s", st.name, d)
					}
					if st.name != "local" && st.name != "atU" {
						for i, n := range tm.Nodes(e0) {
							was, p1 := tm.IsG(e0, n)
							now, p2 := tm.IsG(e, n)
							if p1 || p2 || !was || now {
								continue
							}
							if _, why := tm.RefIs(e0, n); why == "method" && !hasLiveIsMethod(e, n) {
								continue
							}
							if cul := culprit(s0, tm.ShapeOf(e)); cul != "" {
								continue // a text change is reported by the branches clause
							}
							return fail("is-after-transfer:"+st.name, "the tree matched its own node %d (%T) before transfer but not at stage %s", i, n, st.name)
						}
					}
					var refs []tm.NamedErr
					refs = append(refs, sent...)
					for i, n := range tm.Nodes(e) {
						refs = append(refs, tm.NamedErr{Name: fmt.Sprintf("node[%d]", i), Err: n})
					}
					for i, n := range tm.Nodes(e0) {
						refs = append(refs, tm.NamedErr{Name: fmt.Sprintf("origin.node[%d]", i), Err: n})
					}
					// a match found on a multi-cause node that sits on the root's
					// single-cause chain is found from the root as well
					for c := e; c != nil; c = errors.UnwrapOnce(c) {
						if len(errbase.UnwrapMulti(c)) == 0 {
							continue
						}
						for _, pr := range probes {
							if pr.Name == "error" {
								continue
							}
							if ok, _, _ := pr.Try(c, errors.As); ok {
								if ok2, _, _ := pr.Try(e, errors.As); !ok2 {
									return fail("as-through-wrappers:"+st.name, "As(%s) succeeds on the multi-cause node (%T) but not on the error that wraps it (%T)", pr.Name, c, e)
								}
							}
						}
						for _, ref := range refs {
							if ok, _ := tm.IsG(c, ref.Err); ok {
								if ok2, _ := tm.IsG(e, ref.Err); !ok2 {
									return fail("is-through-wrappers:"+st.name, "Is(%s) holds on the multi-cause node but not on the error that wraps it", ref.Name)
								}
							}
						}
					}
					for _, mn := range multiNodes(e) {
						if f := checkMultiNode(mn, refs, probes); f != "" {
							return fail(keyOf(f)+":"+st.name, "at stage %s: %s", st.name, textOf(f))
						}
						for _, ref := range refs {
							if ok, _ := tm.IsG(mn, ref.Err); ok && !selfMatch(mn, ref.Err) {
								exercised = true
							}
						}
					}
					// %+v shows every branch: the message of each branch's root
					// cause (first line) occurs in the verbose rendering
					plain := fmt.Sprintf("%+v", errors.Formattable(e))
					// ... as a numbered entry of its own: every layer of every
					// branch, however many paths reach it, is one entry
					if pv, perr := parseVerbose(plain); perr == "" && len(multiNodes(e)) > 0 {
						if nn := len(tm.Nodes(e)); len(pv.entries) != nn {
							return fail("verbose-entries:"+st.name, "%%+v at stage %s has %d numbered entries for the %d layers reachable through the branches", st.name, len(pv.entries), nn)
						}
					}
					// the multi-cause error's own Format method (when it is the
					// outermost error handed to fmt) shows the same
					if _, ok := e.(fmt.Formatter); ok && len(errbase.UnwrapMulti(e)) > 0 {
						if direct := fmt.Sprintf("%+v", e); direct != plain {
							return fail("verbose-direct:"+st.name, "%%+v of the multi-cause error itself (%T) differs from its rendering through Formattable at stage %s: %d vs %d bytes; starts %q", e, st.name, len(direct), len(plain), short(direct))
						}
					}
					for _, mn := range multiNodes(e) {
						for bi, b := range errbase.UnwrapMulti(mn) {
							leaf := errors.UnwrapAll(b)
							if len(errbase.UnwrapMulti(leaf)) > 0 {
								continue
							}
							txt := leaf.Error()
							if k := strings.IndexByte(txt, '\n'); k >= 0 {
								txt = txt[:k]
							}
							if txt != "" && !strings.Contains(plain, txt) {
								return fail("verbose:"+st.name, "%%+v at stage %s does not show branch %d of a %T (root cause text %q)", st.name, bi, mn, txt)
							}
						}
					}
				}
				return ""
			})
		})
		r.States += 5
		r.Transitions += 5
		r.Evaluations++
		if exercised {
			r.Nontrivial++
		}
		r.Outcome(t.Op.Class)
		if r.Evaluations%999 == 1 {
			r.Sample(map[string]interface{}{"term": t.String()})
		}
	})
}
