package props

import (
	"fmt"
	"strings"

	"verif/mc/core"
	"verif/mc/tm"
)

func init() {
	core.Register(&core.Check{ID: "C03", Technique: "explicit-state exploration with taint tokens: every constructor composition up to the bound x every hostile string in every unsafe slot x stages {local, hop_K^k, unknowing hop, payload-blind hop, previous-version sender (+relay)} on the real code; oracle: no unsafe token in any PII-free output",
		Run: runC03})
}

// stage produces the error as seen at one point of a history.
type stage struct {
	name string
	get  func(e error) error
}

func c03Stages(thorough bool) []stage {
	st := []stage{
		{"local", func(e error) error { return e }},
		{"K", func(e error) error { d, _ := tm.HopK(e); return d }},
		{"atU(all)", func(e error) error { w := tm.Encode(e); return tm.DecodeU(w, tm.WireKeys(w)) }},
		{"U(all)>K", func(e error) error {
			w := tm.Encode(e)
			var w2 []byte
			tm.AtU(tm.WireKeys(w), func() { w2 = tm.Encode(tm.Decode(w)) })
			return tm.Decode(w2)
		}},
		{"Ubar", func(e error) error { return tm.Decode(tm.HidePayloadTypes(tm.Encode(e))) }},
		// version skew: the sender runs the previous version of the library
		// (barriers under their previous type name, plain-text message); the
		// receiver then relays once more between current processes. nil =
		// the history does not differ from K for this term.
		{"prevK", func(e error) error {
			w, changed := tm.AsPreviousSender(tm.Encode(e))
			if !changed {
				return nil
			}
			return tm.Decode(w)
		}},
		{"prevKK", func(e error) error {
			w, changed := tm.AsPreviousSender(tm.Encode(e))
			if !changed {
				return nil
			}
			d, _ := tm.HopK(tm.Decode(w))
			return d
		}},
	}
	if thorough {
		st = append(st, stage{"KK", func(e error) error { d, _ := tm.HopK(e); d, _ = tm.HopK(d); return d }})
		st = append(st, stage{"KKK", func(e error) error {
			d, _ := tm.HopK(e)
			d, _ = tm.HopK(d)
			d, _ = tm.HopK(d)
			return d
		}})
	}
	return st
}

func runC03(c *core.Ctx, r *core.Result) {
	p := plan{fullDepth: 2, coreDepth: 3, strDepth: 2, alphabet: tm.HOSTILE, aliasSides: true}
	if c.Thorough() {
		p = plan{fullDepth: 3, coreDepth: 4, strDepth: 2, pairDepth: 0, alphabet: tm.HOSTILE, aliasSides: true}
	}
	stages := c03Stages(c.Thorough())
	var sn []string
	for _, s := range stages {
		sn = append(sn, s.name)
	}
	r.Bounds = fmt.Sprintf("%s; stages %v; at the unknowing process also every singleton of unknown keys for depth<=2", p, sn)
	r.Rule = "state = (term, strings, stage); non-trivial = the term has at least one unsafe slot whose token occurs in the plain %+v rendering at that stage (the token is observable, so its absence from the PII-free outputs is meaningful)"
	r.Assumptions = []string{"slot classification safe/unsafe from the library's documentation (tm/ops.go); every slot carries a unique token so that safe strings cannot mask unsafe ones"}
	eachTerm(c, r, p, func(t *tm.Term) {
		var unsafeToks []tm.SlotInfo
		for _, si := range t.SlotInfos() {
			if !si.Safe && strings.Contains(si.Value, si.Token) {
				unsafeToks = append(unsafeToks, si)
			}
		}
		r.Evaluations++
		if len(unsafeToks) == 0 {
			r.States++
			return
		}
		observable := false
		report(r, t, nil, func(t *tm.Term) string {
			var toks []tm.SlotInfo
			for _, si := range t.SlotInfos() {
				if !si.Safe && strings.Contains(si.Value, si.Token) {
					toks = append(toks, si)
				}
			}
			e0 := t.Build()
			sts := stages
			if t.Depth() <= 2 {
				w := tm.Encode(e0)
				for _, k := range tm.WireKeys(w) {
					k := k
					sts = append(sts[:len(sts):len(sts)], stage{"atU(" + typeTail(k) + ")", func(e error) error { return tm.DecodeU(tm.Encode(e), []string{k}) }})
				}
			}
			for _, st := range sts {
				var m string
				stName := st.name
				if strings.HasPrefix(stName, "atU(") && stName != "atU(all)" {
					stName = "atU(one)"
				}
				if p := tm.Guard(func() {
					e := st.get(e0)
					if e == nil {
						return
					}
					plain := fmt.Sprintf("%+v", e)
					for _, o := range tm.PIIFreeOutputs(e) {
						for _, si := range toks {
							if strings.Contains(plain, si.Token) {
								observable = true
							}
							if strings.Contains(o.S, si.Token) {
								m = fail("leak:"+outClass(o.Name)+":"+stName, "unsafe string %q (slot %s.%s) appears in %s at stage %s: %s", si.Value, si.Op, si.Name, o.Name, st.name, short(o.S))
								return
							}
						}
					}
				}); p != nil {
					return fail("panic:"+stName, "panic while producing PII-free outputs at stage %s: %v", st.name, p)
				}
				if m != "" {
					return m
				}
			}
			return ""
		})
		r.States += int64(len(stages))
		r.Transitions += int64(len(stages))
		if observable {
			r.Nontrivial++
		}
		r.Outcome(t.Op.Class)
		if r.Evaluations%2999 == 1 {
			r.Sample(map[string]interface{}{"term": t.String(), "unsafe_slots": len(unsafeToks)})
		}
	})
}

// outClass reduces an output name to its family for violation keys.
func outClass(n string) string {
	switch {
	case strings.HasPrefix(n, "redact"):
		return "redacted-rendering"
	case strings.HasPrefix(n, "GetAllSafeDetails"), strings.HasPrefix(n, "GetSafeDetails"):
		return "safe-details"
	case strings.HasPrefix(n, "wire"):
		return "wire-reportable"
	case strings.HasPrefix(n, "sentry"):
		return "sentry"
	}
	return n
}
