// Package props holds one decision procedure per property.
package props

import (
	"encoding/json"
	"fmt"
	"os"
	"strconv"
	"strings"
	"time"

	"verif/mc/core"
	"verif/mc/tm"
)

// plan describes the term spaces of one tier.
type plan struct {
	fullDepth int // A_full for every depth 1..fullDepth
	coreDepth int // A_core for depths fullDepth+1..coreDepth
	// strDepth: every alphabet string in every slot for terms of depth
	// <= strDepth (deeper terms carry only their tokens)
	strDepth int
	// strCoreDepth: the same for terms of the A_core spaces (0 = strDepth)
	strCoreDepth int
	pairDepth    int // all pairs of slots x alphabet for depth <= pairDepth
	alphabet     []string
	// aliasSides: also visit, for every term with a side argument, the
	// variant whose side argument has the same message strings as the
	// wrapped error (same mark) but different annotation strings
	aliasSides bool
	// dupDepth: for terms of depth <= dupDepth with at least two string
	// slots, also the variant in which every slot holds the SAME string
	// (the tokens make all strings distinct otherwise)
	dupDepth int
}

func (p plan) String() string {
	return fmt.Sprintf("A_full depth<=%d, A_core depth<=%d, every alphabet string (%d) in every slot at depth<=%d, slot pairs at depth<=%d",
		p.fullDepth, p.coreDepth, len(p.alphabet), p.strDepth, p.pairDepth)
}

// eachTerm enumerates this shard's share of the plan. f receives every
// term variant (a fresh Term each time).
func eachTerm(c *core.Ctx, r *core.Result, p plan, f func(t *tm.Term)) {
	if c.Replay != nil {
		var rp struct {
			Term *tm.Term `json:"term"`
		}
		if err := json.Unmarshal(c.Replay, &rp); err != nil || rp.Term == nil {
			r.HarnessError("bad replay payload: %v", err)
			return
		}
		f(rp.Term)
		return
	}
	var base int64
	inCore := false
	run := func(sp tm.Space) bool {
		_, done := sp.ForEach(func(i int64) bool { return c.Mine(base + i) }, c.Expired, func(i int64, t *tm.Term) {
			f(t)
			if p.aliasSides {
				if a := tm.AliasSide(t); a != nil {
					f(a)
				}
			}
			d := t.Depth()
			sd := p.strDepth
			if inCore && p.strCoreDepth > 0 {
				sd = p.strCoreDepth
			}
			if d <= sd {
				tm.StringVariants(t, p.alphabet, func(_ int, _ string, v *tm.Term) { f(v) })
			}
			if d <= p.pairDepth {
				tm.StringPairs(t, tm.REG, f)
			}
			if d <= p.dupDepth {
				if v := tm.DupVariant(t, "same"); v != nil {
					f(v)
				}
			}
		})
		base += sp.Size()
		if !done {
			r.Cap(fmt.Sprintf("soft deadline reached inside %d-deep space", sp.Depth))
		}
		return done
	}
	// Order: the spaces every tier completes first (full depth <= 3, the
	// core spaces up to depth 4, the hand-picked compositions, the quirk
	// pass), then the deep spaces of the thorough tier, so that a soft
	// deadline inside a deep space never costs the small ones.
	type job struct {
		core bool
		d    int
	}
	var first, deep []job
	for d := 1; d <= p.fullDepth; d++ {
		if d <= 3 {
			first = append(first, job{false, d})
		} else {
			deep = append(deep, job{false, d})
		}
	}
	coreFrom := min(p.fullDepth, 3) + 1
	if p.strCoreDepth > p.strDepth {
		// the core spaces of small depth are visited again for their string variants
		coreFrom = p.strDepth + 1
	}
	for d := coreFrom; d <= p.coreDepth; d++ {
		switch {
		case d <= 4:
			first = append(first, job{true, d}) // (part of the full space when fullDepth >= d: done first all the same)
		case d > p.fullDepth:
			deep = append(deep, job{true, d})
		}
	}
	runJobs := func(js []job) bool {
		for _, j := range js {
			inCore = j.core
			sp := tm.Full(j.d)
			if j.core {
				sp = tm.Core(j.d)
			}
			if !run(sp) {
				return false
			}
		}
		return true
	}
	if !runJobs(first) {
		return
	}
	// hand-picked corner compositions
	ex := tm.Extras()
	emptyOK := false
	for _, a := range p.alphabet {
		if a == "" {
			emptyOK = true
		}
	}
	for i, t := range ex {
		if !emptyOK && hasEmptySlot(t) {
			// the property is quantified over non-empty strings
			continue
		}
		if c.Mine(base + int64(i)) {
			f(t)
		}
	}
	base += int64(len(ex))
	// quirk pass (see tm.Op.QuirkOf)
	qt := tm.QuirkTermsFor(c.ID)
	for i, t := range qt {
		if c.Mine(base + int64(i)) {
			f(t)
		}
	}
	base += int64(len(qt))
	runJobs(deep)
}

func contains(l []string, s string) bool {
	for _, x := range l {
		if x == s {
			return true
		}
	}
	return false
}

// confirm re-evaluates a failing state: a violation is only reported when
// the same state fails identically 4 more times; anything else is
// harness nondeterminism, never a violation.
func confirm(r *core.Result, t *tm.Term, first string, eval func(t *tm.Term) string) bool {
	for i := 0; i < 4; i++ {
		if m := eval(t); keyOf(m) != keyOf(first) {
			r.HarnessError("state fails differently across re-runs: %q vs %q on %s", first, m, t)
			return false
		}
	}
	return true
}

// failure messages are "clause\x00human text"
func fail(key, format string, args ...interface{}) string {
	return key + "\x00" + fmt.Sprintf(format, args...)
}
func keyOf(m string) string {
	if i := strings.IndexByte(m, 0); i >= 0 {
		return m[:i]
	}
	return m
}
func textOf(m string) string {
	if i := strings.IndexByte(m, 0); i >= 0 {
		return m[i+1:]
	}
	return m
}

// skeleton renders the constructor structure of a term without strings.
func skeleton(t *tm.Term) string {
	if t == nil {
		return ""
	}
	var b strings.Builder
	b.WriteString(t.Op.Name)
	if t.Kid != nil || len(t.Side) > 0 {
		b.WriteByte('(')
		b.WriteString(skeleton(t.Kid))
		for _, s := range t.Side {
			b.WriteString("|" + skeleton(s))
		}
		b.WriteByte(')')
	}
	return b.String()
}

// nonDefaultStrings lists the slots that hold something else than their
// token, as slotname=quoted-alphabet-string (token removed).
func nonDefaultStrings(t *tm.Term) string {
	var parts []string
	t.EachSlot(func(k int, o *tm.Term, i int) {
		tok := tm.Token(k)
		if o.S[i] != tok {
			v := strings.ReplaceAll(o.S[i], tok, "")
			if len(v) > 48 {
				v = fmt.Sprintf("%s…(%d bytes)", v[:16], len(v))
			}
			parts = append(parts, fmt.Sprintf("%s.%s=%q", o.Op.Name, o.Op.Slots[i].Name, v))
		}
	})
	return strings.Join(parts, ",")
}

// minimize shrinks a failing term while it keeps failing with the same
// clause: drop wrappers, simplify the leaf and the side trees, reset
// strings to their tokens. The result identifies the finding: the
// known-findings file lists (clause | minimal skeleton | strings).
func minimize(t *tm.Term, clause string, eval func(t *tm.Term) string) *tm.Term {
	return minimizeWith(t, func(c *tm.Term) bool { return keyOf(eval(c)) == clause })
}

// minimizeWith shrinks t while pred keeps holding.
func minimizeWith(t *tm.Term, pred func(c *tm.Term) bool) *tm.Term {
	still := func(c *tm.Term) bool {
		c.FillTokensKeeping()
		return pred(c)
	}
	cur := t.Clone()
	for changed := true; changed; {
		changed = false
		// drop one constructor of the spine (outermost first)
		spine := []*tm.Term{}
		for c := cur; c != nil; c = c.Kid {
			spine = append(spine, c)
		}
		for i := 0; i < len(spine)-1 && !changed; i++ {
			cand := cur.Clone()
			if i == 0 {
				cand = cand.Kid
			} else {
				p := cand
				for k := 0; k < i-1; k++ {
					p = p.Kid
				}
				p.Kid = p.Kid.Kid
			}
			if still(cand) {
				cur, changed = cand, true
			}
		}
		if changed {
			continue
		}
		// simplify the leaf
		for _, simple := range []string{"GoNew", "New"} {
			leafPos := cur
			for leafPos.Kid != nil {
				leafPos = leafPos.Kid
			}
			if leafPos.Op.Name == simple || leafPos.Op.Name == "GoNew" {
				break
			}
			cand := cur.Clone()
			lp := cand
			var parent *tm.Term
			for lp.Kid != nil {
				parent, lp = lp, lp.Kid
			}
			nl := tm.T(simple)
			if parent == nil {
				cand = nl
			} else {
				parent.Kid = nl
			}
			if still(cand) {
				cur, changed = cand, true
				break
			}
		}
		if changed {
			continue
		}
		// simplify side trees
		pos := 0
		var try func(c *tm.Term) bool
		try = func(c *tm.Term) bool {
			for ; c != nil; c = c.Kid {
				for si := range c.Side {
					if c.Side[si].Kid == nil && len(c.Side[si].Side) == 0 && c.Side[si].Op.Name == "GoNew" {
						continue
					}
					old := c.Side[si]
					c.Side[si] = tm.T("GoNew")
					if still(cur) {
						return true
					}
					c.Side[si] = old
					cur.FillTokensKeeping()
					pos++
				}
			}
			return false
		}
		if try(cur) {
			changed = true
			continue
		}
		// reset strings
		n := cur.NumSlots()
		for k := 0; k < n && !changed; k++ {
			cand := cur.Clone()
			if cand.ResetSlot(k) && still(cand) {
				cur, changed = cand, true
			}
		}
	}
	cur.FillTokensKeeping()
	return cur
}

var minCache = map[string]string{}

// report evaluates the state; on failure it confirms it (5 runs in
// total), minimises it and records the violation keyed by
// clause|minimal skeleton|strings, with the original and the minimal
// term as replay payload.
var slowMS, _ = strconv.Atoi(os.Getenv("VERIF_SLOW_MS"))

func report(r *core.Result, t *tm.Term, extra map[string]interface{}, eval func(t *tm.Term) string) bool {
	t0 := time.Now()
	m := eval(t)
	if slowMS > 0 && time.Since(t0) > time.Duration(slowMS)*time.Millisecond {
		// development aid: name the states that dominate a run
		fmt.Fprintf(os.Stderr, "SLOW %v %s\n", time.Since(t0).Round(time.Millisecond), t)
	}
	if m == "" {
		return true
	}
	clause := keyOf(m)
	pre := clause + "|" + skeleton(t) + "|" + nonDefaultStrings(t)
	if k, ok := minCache[pre]; ok {
		if k != "" {
			r.Violate(k, "", nil)
		}
		return false
	}
	if !confirm(r, t, m, eval) {
		minCache[pre] = ""
		return false
	}
	if q := tm.FindQuirk(t); q != nil {
		sib := tm.WithoutQuirks(t)
		sib.FillTokensKeeping()
		if keyOf(eval(sib)) != clause {
			// the failure disappears with the quirk-free sibling: this is
			// the documented quirk, keyed by clause and quirk op only.
			k := "quirk:" + q.Name
			minCache[pre] = k
			r.Violate(k, textOf(m)+"\nterm: "+t.String()+"\n(the same term with "+q.QuirkOf+" instead of "+q.Name+" passes)", map[string]interface{}{"term": t, "expr": t.String()})
			return false
		}
	}
	if strings.Contains(clause, "|") {
		// the clause already names the culprit layer (type family where
		// observation and expectation first diverge): that is the signature
		minCache[pre] = clause
		r.Violate(clause, textOf(m)+"\nterm: "+t.String(), map[string]interface{}{"term": t, "expr": t.String()})
		return false
	}
	mt := minimize(t, clause, eval)
	k := clause + "|" + skeleton(mt)
	if nd := nonDefaultStrings(mt); nd != "" {
		k += "|" + nd
	}
	k = strings.ReplaceAll(k, " ", "\u2423")
	minCache[pre] = k
	mm := eval(mt)
	rp := map[string]interface{}{"term": mt, "expr": mt.String(), "found_as": t.String()}
	for a, b := range extra {
		rp[a] = b
	}
	r.Violate(k, textOf(mm)+"\nminimal term: "+mt.String()+"\nfirst found as: "+t.String(), rp)
	return false
}

// guarded runs eval, turning a panic in library code into a failure.
func guarded(clause string, eval func() string) (m string) {
	defer func() {
		if p := recover(); p != nil {
			m = fail(clause+":panic", "panic: %v", p)
		}
	}()
	return eval()
}

func short(s string) string {
	if len(s) > 300 {
		return s[:300] + "…"
	}
	return s
}

// typeTail returns the last path component of a type or family name, for
// use in violation keys.
func typeTail(s string) string {
	if i := strings.LastIndexByte(s, '/'); i >= 0 {
		s = s[i+1:]
	}
	return s
}

func jsonUnmarshal(b []byte, v interface{}) error { return json.Unmarshal(b, v) }

func hasEmptySlot(t *tm.Term) bool {
	empty := false
	t.EachSlot(func(k int, o *tm.Term, i int) {
		if o.S[i] == "" {
			empty = true
		}
	})
	return empty
}
