package props

import (
	"encoding/json"
	"fmt"
	"path/filepath"
	"strings"

	"github.com/cockroachdb/errors"

	"verif/mc/core"
	"verif/mc/tm"
)

func init() {
	core.Register(&core.Check{ID: "C11", Technique: "explicit-state exploration of construct/transport histories on the real code; differential oracle: the accessor vector after hops 1..k equals the one before the first hop",
		Run: runC11, Post: postC11})
}

func runC11(c *core.Ctx, r *core.Result) {
	if strings.HasPrefix(c.Arg, orderArg) {
		runOrderWorker(c, r)
		return
	}
	if c.Replay != nil {
		var rp struct {
			Order bool `json:"order_pass"`
			Index int  `json:"term_index"`
		}
		if json.Unmarshal(c.Replay, &rp) == nil && rp.Order {
			orderCheck(c.Tier, r, rp.Index)
			return
		}
	}
	p, hops := plan{dupDepth: 3, fullDepth: 3, coreDepth: 4, strDepth: 2, pairDepth: 0, alphabet: tm.REGE}, 2
	if c.Thorough() {
		p, hops = plan{dupDepth: 3, fullDepth: 4, coreDepth: 5, strDepth: 2, pairDepth: 0, alphabet: tm.REGE}, 3
	}
	r.Bounds = fmt.Sprintf("%s; accessor vector observed before the first hop and after hops 1..%d", p, hops)
	r.Rule = "state = (term, hop count); non-trivial = the vector carries at least one annotation (hint/detail/link/key/domain/tag/flag/code/stack) and a hop changed a layer's Go type or re-parsed a stack"
	r.Assumptions = []string{"accessor vector = tm.Annotations (every Get*/Has*/Is* accessor of the public API, per-layer safe details except barrier/secondary layers, per-layer reportable frames, one-line source)"}
	eachTerm(c, r, p, func(t *tm.Term) {
		var annotated bool
		ok := report(r, t, map[string]interface{}{"hops": hops}, func(t *tm.Term) string {
			return guarded("C11", func() string {
				builds := []struct {
					name string
					e    error
				}{{"", t.Build()}}
				if t.Depth() <= 2 {
					// the same term built under 40 extra call frames: captured
					// stacks exceed the library's capture buffer
					builds = append(builds, struct {
						name string
						e    error
					}{"deep:", t.BuildDeep(40)})
				}
				for _, b := range builds {
					e := b.e
					v0 := tm.Annotations(e)
					annotated = hasAnnotation(v0)
					if f := checkOneLine(e); f != "" {
						return fail(b.name+"oneline:local", "%s", f)
					}
					cur := e
					for k := 1; k <= hops; k++ {
						cur, _ = tm.HopK(cur)
						vk := tm.Annotations(cur)
						if d := v0.Diff(vk); d != "" {
							return fail(fmt.Sprintf("%shop%d:%s", b.name, min(k, 2), stripIdx(v0.FirstKey(vk))), "accessor vector differs after %d hop(s): %s", k, short(d))
						}
						if f := checkOneLine(cur); f != "" {
							return fail(fmt.Sprintf("%soneline:hop%d", b.name, min(k, 2)), "%s", f)
						}
					}
				}
				return ""
			})
		})
		r.States += int64(hops) + 1
		r.Transitions += int64(hops)
		r.Evaluations++
		if ok && annotated {
			r.Nontrivial++
		}
		r.Outcome(t.Op.Class)
		if r.Evaluations%1999 == 1 {
			r.Sample(map[string]interface{}{"term": t.String(), "hops": hops})
		}
	})
}

func stripIdx(k string) string {
	for i := 0; i < len(k); i++ {
		if k[i] == '[' {
			return k[:i]
		}
	}
	return k
}

func hasAnnotation(v tm.Vec) bool {
	for _, kv := range v {
		switch kv.K {
		case "hints", "details", "telemetry", "tags":
			if kv.V != "" {
				return true
			}
		case "links":
			if kv.V != "[]" {
				return true
			}
		case "hasAssertion", "hasUnimplemented", "hasIssueLink", "os.IsPermission", "os.IsExist", "os.IsNotExist", "os.IsTimeout":
			if kv.V == "true" {
				return true
			}
		case "http":
			if kv.V != "-1" {
				return true
			}
		case "grpc":
			if kv.V != "Unknown" {
				return true
			}
		case "domain":
			if kv.V != "error domain: <none>" {
				return true
			}
		}
		if len(kv.K) > 6 && kv.K[:6] == "frames" && kv.V != "<nil>" {
			return true
		}
	}
	return false
}

// checkOneLine decides "GetOneLineSource reports file, line and function
// of the topmost caller of the innermost recorded stack" against an
// independent walk: the deepest node of the single-cause chain that has
// a reportable stack, and the last (innermost-caller) frame of it.
func checkOneLine(e error) string {
	var inner *errors.ReportableStackTrace
	for c := e; c != nil; c = errors.UnwrapOnce(c) {
		if st := errors.GetReportableStackTrace(c); st != nil && len(st.Frames) > 0 {
			inner = st
		}
	}
	file, line, fn, ok := errors.GetOneLineSource(e)
	if inner == nil {
		if ok {
			return fmt.Sprintf("GetOneLineSource reports %s:%d:%s but no layer of the cause chain has a stack", file, line, fn)
		}
		return ""
	}
	f := inner.Frames[len(inner.Frames)-1]
	if !ok || file != filepath.Base(f.AbsPath) || line != f.Lineno || fn != f.Function {
		return fmt.Sprintf("GetOneLineSource = (%s, %d, %s, %v) but the innermost stack's first frame is (%s, %d, %s)", file, line, fn, ok, filepath.Base(f.AbsPath), f.Lineno, f.Function)
	}
	return ""
}
