package props

import (
	"fmt"

	"verif/mc/core"
	"verif/mc/tm"
)

func init() {
	core.Register(&core.Check{ID: "C11", Technique: "explicit-state exploration of construct/transport histories on the real code; differential oracle: the accessor vector after hops 1..k equals the one before the first hop",
		Run: runC11})
}

func runC11(c *core.Ctx, r *core.Result) {
	p, hops := plan{fullDepth: 3, coreDepth: 4, strDepth: 2, pairDepth: 0, alphabet: tm.REGE}, 2
	if c.Thorough() {
		p, hops = plan{fullDepth: 4, coreDepth: 5, strDepth: 2, pairDepth: 0, alphabet: tm.REGE}, 3
	}
	r.Bounds = fmt.Sprintf("%s; accessor vector observed before the first hop and after hops 1..%d", p, hops)
	r.Rule = "state = (term, hop count); non-trivial = the vector carries at least one annotation (hint/detail/link/key/domain/tag/flag/code/stack) and a hop changed a layer's Go type or re-parsed a stack"
	r.Assumptions = []string{"accessor vector = tm.Annotations (every Get*/Has*/Is* accessor of the public API, per-layer safe details except barrier/secondary layers, per-layer reportable frames, one-line source)"}
	eachTerm(c, r, p, func(t *tm.Term) {
		var annotated bool
		ok := report(r, t, map[string]interface{}{"hops": hops}, func(t *tm.Term) string {
			return guarded("C11", func() string {
				e := t.Build()
				v0 := tm.Annotations(e)
				annotated = hasAnnotation(v0)
				cur := e
				for k := 1; k <= hops; k++ {
					cur, _ = tm.HopK(cur)
					vk := tm.Annotations(cur)
					if d := v0.Diff(vk); d != "" {
						return fail(fmt.Sprintf("hop%d:%s", min(k, 2), stripIdx(v0.FirstKey(vk))), "accessor vector differs after %d hop(s): %s", k, short(d))
					}
				}
				return ""
			})
		})
		r.States += int64(hops) + 1
		r.Transitions += int64(hops)
		r.Evaluations++
		if ok && annotated {
			r.Nontrivial++
		}
		r.Outcome(t.Op.Class)
		if r.Evaluations%1999 == 1 {
			r.Sample(map[string]interface{}{"term": t.String(), "hops": hops})
		}
	})
}

func stripIdx(k string) string {
	for i := 0; i < len(k); i++ {
		if k[i] == '[' {
			return k[:i]
		}
	}
	return k
}

func hasAnnotation(v tm.Vec) bool {
	for _, kv := range v {
		switch kv.K {
		case "hints", "details", "telemetry", "tags":
			if kv.V != "" {
				return true
			}
		case "links":
			if kv.V != "[]" {
				return true
			}
		case "hasAssertion", "hasUnimplemented", "hasIssueLink", "os.IsPermission", "os.IsExist", "os.IsNotExist", "os.IsTimeout":
			if kv.V == "true" {
				return true
			}
		case "http":
			if kv.V != "-1" {
				return true
			}
		case "grpc":
			if kv.V != "Unknown" {
				return true
			}
		case "domain":
			if kv.V != "error domain: <none>" {
				return true
			}
		}
		if len(kv.K) > 6 && kv.K[:6] == "frames" && kv.V != "<nil>" {
			return true
		}
	}
	return false
}
