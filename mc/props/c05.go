package props

import (
	"context"
	"encoding/json"
	"fmt"
	"runtime"
	"strings"

	"github.com/cockroachdb/errors"
	"github.com/cockroachdb/errors/errbase"
	"github.com/cockroachdb/errors/errorspb"
	"github.com/cockroachdb/errors/extgrpc"
	"github.com/cockroachdb/errors/exthttp"
	"github.com/cockroachdb/redact"
	gogorpc "github.com/gogo/googleapis/google/rpc"
	"github.com/gogo/protobuf/proto"
	"github.com/gogo/protobuf/types"

	"verif/mc/core"
	"verif/mc/tm"
	"verif/mc/ut"
)

func init() {
	core.Register(&core.Check{ID: "C05", Level: "fault_enumeration",
		Technique: "exhaustive fault enumeration: every registered decoder key (read from the live registries) x carrier form x payload fault x details fault x message type x position, and every single / pair of field substitutions on every wire message of the bounded term space; real DecodeError and the full observer battery",
		Run:       runC05})
}

type payloadFault struct {
	Name string
	Any  *types.Any
}

func anyOf(m proto.Message) *types.Any {
	a, err := types.MarshalAny(m)
	if err != nil {
		panic(err)
	}
	return a
}

func payloadFaults() []payloadFault {
	inner := errors.EncodeError(tm.Bg(), errors.New("nested"))
	sp := anyOf(&errorspb.StringPayload{Msg: "x"})
	fs := []payloadFault{
		{"absent", nil},
		{"StringPayload", sp},
		{"StringPayload-empty", anyOf(&errorspb.StringPayload{})},
		{"StringsPayload-0", anyOf(&errorspb.StringsPayload{})},
		{"StringsPayload-1", anyOf(&errorspb.StringsPayload{Details: []string{"a"}})},
		{"StringsPayload-2", anyOf(&errorspb.StringsPayload{Details: []string{"a", "b"}})},
		{"StringsPayload-3", anyOf(&errorspb.StringsPayload{Details: []string{"a", "b", "c"}})},
		{"TagsPayload-empty", anyOf(&errorspb.TagsPayload{})},
		{"TagsPayload", anyOf(&errorspb.TagsPayload{Tags: []errorspb.TagPayload{{Tag: "k", Value: "v"}}})},
		{"MarkPayload-empty", anyOf(&errorspb.MarkPayload{})},
		{"MarkPayload-notypes", anyOf(&errorspb.MarkPayload{Msg: "m"})},
		{"MarkPayload", anyOf(&errorspb.MarkPayload{Msg: "m", Types: []errorspb.ErrorTypeMark{{FamilyName: "f"}}})},
		{"ErrnoPayload-empty", anyOf(&errorspb.ErrnoPayload{})},
		{"ErrnoPayload-foreign", anyOf(&errorspb.ErrnoPayload{OrigErrno: 13, Arch: "plan9:x", IsPermission: true})},
		{"EncodedError", anyOf(&inner)},
		{"EncodedHTTPCode", anyOf(&exthttp.EncodedHTTPCode{Code: 404})},
		{"EncodedGrpcCode", anyOf(&extgrpc.EncodedGrpcCode{Code: 5})},
		{"rpc.Status", anyOf(&gogorpc.Status{Code: 5, Message: "s"})},
		{"rpc.Status-empty", anyOf(&gogorpc.Status{})},
		{"TestError", anyOf(&errorspb.TestError{})},
		{"TagsPayload-emptykeys", anyOf(&errorspb.TagsPayload{Tags: []errorspb.TagPayload{{Tag: "", Value: "v"}, {Tag: "", Value: ""}}})},
		{"TagsPayload-mixedkeys", anyOf(&errorspb.TagsPayload{Tags: []errorspb.TagPayload{{Tag: "", Value: "v"}, {Tag: "k", Value: ""}}})},
		{"StringsPayload-empties", anyOf(&errorspb.StringsPayload{Details: []string{"", "", ""}})},
		{"MarkPayload-emptytype", anyOf(&errorspb.MarkPayload{Msg: "", Types: []errorspb.ErrorTypeMark{{}}})},
		{"ErrnoPayload-thisarch", anyOf(&errorspb.ErrnoPayload{OrigErrno: 2, Arch: runtime.GOOS + ":" + runtime.GOARCH, IsNotExist: true})},
		{"ErrnoPayload-bigerrno", anyOf(&errorspb.ErrnoPayload{OrigErrno: 1 << 40, Arch: runtime.GOOS + ":" + runtime.GOARCH})},
		{"EncodedError-wrapper", anyOf(func() proto.Message { e := errors.EncodeError(tm.Bg(), errors.Wrap(errors.New("in"), "w")); return &e }())},
		{"rpc.Status-bigcode", anyOf(&gogorpc.Status{Code: 9999, Message: ""})},
		{"garbage-bytes", &types.Any{TypeUrl: sp.TypeUrl, Value: []byte{0xff, 0xff, 0xff, 0x01}}},
		{"unregistered-url", &types.Any{TypeUrl: "type.googleapis.com/verif.NoSuchMessage", Value: []byte{1, 2, 3}}},
		{"empty-url", &types.Any{}},
	}
	// the right type URL with bytes that do not parse: garbage and a
	// truncated valid encoding, for every registered payload type
	seen := map[string]bool{}
	for _, f := range append([]payloadFault{}, fs...) {
		if f.Any == nil || f.Any.TypeUrl == "" || seen[f.Any.TypeUrl] || strings.Contains(f.Any.TypeUrl, "NoSuchMessage") {
			continue
		}
		seen[f.Any.TypeUrl] = true
		short := f.Any.TypeUrl[strings.LastIndexByte(f.Any.TypeUrl, '.')+1:]
		fs = append(fs, payloadFault{"garbage:" + short, &types.Any{TypeUrl: f.Any.TypeUrl, Value: []byte{0xff, 0xff, 0xff, 0x01}}})
		if len(f.Any.Value) > 2 {
			fs = append(fs, payloadFault{"truncated:" + short, &types.Any{TypeUrl: f.Any.TypeUrl, Value: f.Any.Value[:len(f.Any.Value)-1]}})
		}
	}
	return fs
}

var detailFaults = []struct {
	Name string
	D    []string
}{
	{"none", nil},
	{"one-empty", []string{""}},
	{"one", []string{"d0"}},
	{"many", []string{"d0", "d1", "d2", "d3"}},
	{"stacklike", []string{"main.f\n\t/x/y.go:12\nmain.g\n\t/x/z.go:3"}},
	{"elide", []string{"elide"}},
	{"leading-newline", []string{"\nsecond line", "d1"}},
	{"only-newline", []string{"\n"}},
	{"trailing-cr", []string{"first\r\nsecond\r"}},
	// printed-stack look-alikes with irregular continuation lines
	{"stack-nocolon", []string{"main.main\n\t<autogenerated>"}},
	{"stack-colon-nonumber", []string{"main.main\n\t/x/y.go:"}},
	{"stack-onlyfunc", []string{"main.main"}},
	{"stack-onlytab", []string{"\t"}},
	{"stack-blanklines", []string{"\n\nmain.f\n\n\t/x/y.go:1\n\n"}},
	{"stack-unknown", []string{"unknown\n\t:0"}},
}

var msgTypes = []errorspb.MessageType{0, 1, 7}

func mkDetails(family string, det []string, p *types.Any) errorspb.EncodedErrorDetails {
	return errorspb.EncodedErrorDetails{
		OriginalTypeName:  family,
		ErrorTypeMark:     errorspb.ErrorTypeMark{FamilyName: family, Extension: "ext"},
		ReportablePayload: det,
		FullDetails:       p,
	}
}

func plainLeaf(msg string) *errorspb.EncodedError {
	e := errors.EncodeError(tm.Bg(), fmt.Errorf("%s", msg))
	return &e
}

// carrier builds the faulty message for one key in one of three forms.
func carrier(form int, family string, det []string, p *types.Any, mt errorspb.MessageType) *errorspb.EncodedError {
	switch form {
	case 0:
		return &errorspb.EncodedError{Error: &errorspb.EncodedError_Leaf{Leaf: &errorspb.EncodedErrorLeaf{Message: "lm", Details: mkDetails(family, det, p)}}}
	case 1:
		return &errorspb.EncodedError{Error: &errorspb.EncodedError_Leaf{Leaf: &errorspb.EncodedErrorLeaf{Message: "lm", Details: mkDetails(family, det, p),
			MultierrorCauses: []*errorspb.EncodedError{plainLeaf("b0"), plainLeaf("b1")}}}}
	default:
		return &errorspb.EncodedError{Error: &errorspb.EncodedError_Wrapper{Wrapper: &errorspb.EncodedWrapper{Cause: *plainLeaf("cz"), Message: "wm", Details: mkDetails(family, det, p), MessageType: mt}}}
	}
}

const placeholder = "VERIF-PLACEHOLDER"

// substitute replaces the leaf whose message is the placeholder (also
// inside nested payload messages) by x.
func substitute(enc *errorspb.EncodedError, x *errorspb.EncodedError) bool {
	if w := enc.GetWrapper(); w != nil {
		if nestedSubst(&w.Details, x) {
			return true
		}
		if l := w.Cause.GetLeaf(); l != nil && l.Message == placeholder {
			w.Cause = *x
			return true
		}
		return substitute(&w.Cause, x)
	}
	if l := enc.GetLeaf(); l != nil {
		if nestedSubst(&l.Details, x) {
			return true
		}
		for i, c := range l.MultierrorCauses {
			if cl := c.GetLeaf(); cl != nil && cl.Message == placeholder {
				l.MultierrorCauses[i] = x
				return true
			}
			if substitute(c, x) {
				return true
			}
		}
	}
	return false
}

func nestedSubst(d *errorspb.EncodedErrorDetails, x *errorspb.EncodedError) bool {
	if d.FullDetails == nil || !strings.HasSuffix(d.FullDetails.TypeUrl, "errorspb.EncodedError") {
		return false
	}
	var nested errorspb.EncodedError
	if proto.Unmarshal(d.FullDetails.Value, &nested) != nil {
		return false
	}
	if l := nested.GetLeaf(); l != nil && l.Message == placeholder {
		d.FullDetails.Value = tm.Marshal(x)
		return true
	}
	if substitute(&nested, x) {
		d.FullDetails.Value = tm.Marshal(&nested)
		return true
	}
	return false
}

// positions returns named contexts with a placeholder leaf.
func positions() map[string][]byte {
	ph := fmt.Errorf("%s", placeholder)
	return map[string][]byte{
		"cause-of-Wrap":           tm.Encode(errors.Wrap(ph, "w")),
		"cause-of-WithHint":       tm.Encode(errors.WithHint(ph, "h")),
		"cause-of-Mark":           tm.Encode(errors.Mark(ph, errors.New("ref"))),
		"cause-of-WithDomain":     tm.Encode(errors.WithDomain(ph, "dom")),
		"cause-of-goErrorf":       tm.Encode(fmt.Errorf("x: %w", ph)),
		"branch-of-Join":          tm.Encode(errors.Join(ph, errors.New("other"))),
		"hidden-by-Handled":       tm.Encode(errors.Handled(ph)),
		"secondary-of-WithSecond": tm.Encode(errors.WithSecondaryError(errors.New("prim"), ph)),
	}
}

// battery runs every observer on e; it returns the name of the first
// observer that panics (or shows a swallowed panic) and the panic text.
func battery(e error) (string, string) {
	obs := []struct {
		name string
		f    func() string
	}{
		{"Error", func() string { return e.Error() }},
		{"%v", func() string { return fmt.Sprintf("%v", e) }},
		{"%s", func() string { return fmt.Sprintf("%s", e) }},
		{"%+v", func() string { return fmt.Sprintf("%+v", e) }},
		{"%#v", func() string { return fmt.Sprintf("%#v", e) }},
		{"%q", func() string { return fmt.Sprintf("%q", e) }},
		{"%x", func() string { return fmt.Sprintf("%x", e) }},
		{"%d", func() string { return fmt.Sprintf("%d", e) }},
		{"%10.3v", func() string { return fmt.Sprintf("%10.3v", e) }},
		{"Formattable%+v", func() string { return fmt.Sprintf("%+v", errors.Formattable(e)) }},
		{"Formattable%v", func() string { return fmt.Sprintf("%v", errors.Formattable(e)) }},
		{"redact%v", func() string { return string(redact.Sprintf("%v", e)) }},
		{"redact%+v", func() string { return string(redact.Sprintf("%+v", e)) }},
		{"redact.Sprint", func() string { return string(redact.Sprint(e).Redact()) }},
		{"Annotations", func() string { tm.Annotations(e); return "" }},
		{"GetAllSafeDetails", func() string { return fmt.Sprint(errors.GetAllSafeDetails(e)) }},
		{"UnwrapAll", func() string { errors.UnwrapAll(e); return "" }},
		{"Is", func() string {
			for _, s := range tm.Sentinels() {
				errors.Is(e, s.Err)
				errors.Is(s.Err, e)
			}
			errors.Is(e, e)
			return ""
		}},
		{"As", func() string {
			for _, p := range tm.AsProbes() {
				p.Try(e, errors.As)
			}
			return ""
		}},
		{"HasType", func() string { errors.HasType(e, errors.New("x")); return "" }},
		{"BuildSentryReport", func() string {
			ev, _ := errors.BuildSentryReport(e)
			return ev.Message
		}},
		{"EncodeError", func() string { return string(tm.Encode(e)) }},
		{"re-decode", func() string { d, _ := tm.HopK(e); return d.Error() }},
	}
	for _, o := range obs {
		var out string
		if p := tm.Guard(func() { out = o.f() }); p != nil {
			return o.name, fmt.Sprint(p)
		}
		if i := strings.Index(out, "(PANIC="); i >= 0 {
			end := i + 160
			if end > len(out) {
				end = len(out)
			}
			return o.name, "panic swallowed by the formatter: " + out[i:end]
		}
	}
	return "", ""
}

// decodeAndObserve is the oracle of C05 on one wire message.
func decodeAndObserve(w []byte) string {
	var e error
	if p := tm.Guard(func() { e = tm.Decode(w) }); p != nil {
		return fail("panic-decode", "DecodeError panics: %v", p)
	}
	if e == nil {
		return fail("nil-decode", "DecodeError returned nil for a structurally complete message")
	}
	if o, p := battery(e); o != "" {
		return fail("panic-observe:"+o, "the decoded error (%T) panics in %s: %s", e, o, p)
	}
	return ""
}

type c05State struct {
	Wire     string `json:"wire_hex"`
	Family   string `json:"family,omitempty"`
	Form     int    `json:"form"`
	Fault    string `json:"payload_fault,omitempty"`
	Details  string `json:"details_fault,omitempty"`
	MsgType  int    `json:"message_type"`
	Position string `json:"position,omitempty"`
	Desc     string `json:"desc,omitempty"`
	// History, when set, is a registration history "kind:op,op,..." applied
	// to a key of its own before decoding (op = reg | unreg).
	History string `json:"registry_history,omitempty"`
}

const histKey = "verif/mc/props/c05.HistoryType"

// applyHistory replays a registration history for histKey: kind is the
// registry (leaf, wrapper, multi), each op registers a working decoder or
// unregisters (the documented way: registering nil).
func applyHistory(h string) {
	i := strings.IndexByte(h, ':')
	if i < 0 {
		return
	}
	kind, ops := h[:i], strings.Split(h[i+1:], ",")
	for _, op := range ops {
		switch kind {
		case "leaf":
			var d errbase.LeafDecoder
			if op == "reg" {
				d = func(_ context.Context, msg string, _ []string, _ proto.Message) error { return &ut.RegLeaf{Msg: msg} }
			}
			errbase.RegisterLeafDecoder(histKey, d)
		case "wrapper":
			var d errbase.WrapperDecoder
			if op == "reg" {
				d = func(_ context.Context, cause error, msg string, _ []string, _ proto.Message) error {
					return &ut.RegW{Msg: msg, C: cause}
				}
			}
			errbase.RegisterWrapperDecoder(histKey, d)
		case "multi":
			var d errbase.MultiCauseDecoder
			if op == "reg" {
				d = func(_ context.Context, causes []error, msg string, _ []string, _ proto.Message) error {
					return &ut.RegMulti{Msg: msg, Es: causes}
				}
			}
			errbase.RegisterMultiCauseDecoder(histKey, d)
		}
	}
}

// clearHistory leaves histKey unregistered in all three registries.
func clearHistory() {
	errbase.RegisterLeafDecoder(histKey, nil)
	errbase.RegisterWrapperDecoder(histKey, nil)
	errbase.RegisterMultiCauseDecoder(histKey, nil)
}

func runC05(c *core.Ctx, r *core.Result) {
	if c.Replay != nil {
		var st c05State
		if err := json.Unmarshal(c.Replay, &st); err != nil {
			r.HarnessError("bad replay: %v", err)
			return
		}
		var w []byte
		fmt.Sscanf(st.Wire, "%x", &w)
		r.States++
		if st.History != "" {
			applyHistory(st.History)
			defer clearHistory()
		}
		if m := decodeAndObserve(w); m != "" {
			r.Violate(keyOf(m)+"|"+typeTail(st.Family)+"|"+panicClass(textOf(m)), textOf(m), st)
		}
		return
	}
	leafEnc, leafDec, wrapEnc, wrapDec, multiDec := errbase.VerifRegistryKeys()
	keyset := map[string]bool{}
	for _, ks := range [][]string{leafEnc, leafDec, wrapEnc, wrapDec, multiDec} {
		for _, k := range ks {
			keyset[k] = true
		}
	}
	r.Count("registered_decoder_keys", int64(len(leafDec)+len(wrapDec)+len(multiDec)))
	// keys seen on the wire of the term space
	sp1, sp2 := tm.Full(1), tm.Full(2)
	var wires [][]byte
	var wireTerms []*tm.Term
	spaces := []tm.Space{sp1, tm.Core(2), tm.Core(3)}
	if c.Thorough() {
		spaces = []tm.Space{sp1, sp2, tm.Core(3)}
	}
	for _, sp := range spaces {
		n := sp.Size()
		for i := int64(0); i < n; i++ {
			t := sp.At(i)
			w := tm.Encode(t.Build())
			wires = append(wires, w)
			wireTerms = append(wireTerms, t)
			for _, k := range tm.WireKeys(w) {
				keyset[k] = true
			}
		}
	}
	keyset["verif/unknown.Type"] = true
	var keys []string
	for k := range keyset {
		keys = append(keys, k)
	}
	sortStrings(keys)
	r.Count("type_keys", int64(len(keys)))
	faults := payloadFaults()
	pos := positions()
	var posNames []string
	for k := range pos {
		posNames = append(posNames, k)
	}
	sortStrings(posNames)
	r.Bounds = fmt.Sprintf("%d type keys (all registered encoders/decoders from the live registries ∪ keys on the wire of the term spaces below ∪ an unknown key) x 3 carrier forms (incl. the wrong form for the key) x %d payload faults x %d details faults x message type {0,1,7} at the root, and x %d embedding positions for the first details fault; plus every single field substitution (payload / details, at every layer incl. nested payloads) on every wire message of %s (%d messages)%s", len(keys), len(faults), len(detailFaults), len(posNames), map[bool]string{true: "A_full depth<=2 ∪ A_core depth 3", false: "A_full depth 1 ∪ A_core depth 2..3"}[c.Thorough()], len(wires), map[bool]string{true: " and every pair of substitutions", false: " and every pair of substitutions on depth-1 messages"}[c.Thorough()])
	r.Rule = "case = one synthesised or mutated EncodedError; non-trivial = the decoder for the key ran on a payload it did not produce (payload fault != the encoder's own) ; distinct by construction"
	r.Assumptions = []string{"nested errors are structurally complete (the property's precondition)", "arbitrary fuzzed bytes are replaced by exhaustive structured substitution (stated bound); sampling is not this technique"}

	var idx int64
	visit := func(st c05State, enc *errorspb.EncodedError) {
		idx++
		if !c.Mine(idx) {
			return
		}
		w := tm.Marshal(enc)
		r.States++
		r.Evaluations++
		r.Transitions++
		r.Nontrivial++
		m := decodeAndObserve(w)
		if m == "" {
			return
		}
		// confirm
		for i := 0; i < 4; i++ {
			if keyOf(decodeAndObserve(w)) != keyOf(m) {
				r.HarnessError("C05 case fails differently across re-runs: %+v", st)
				return
			}
		}
		st.Wire = fmt.Sprintf("%x", w)
		k := keyOf(m) + "|" + typeTail(st.Family) + "|" + panicClass(textOf(m))
		r.Violate(k, textOf(m)+fmt.Sprintf("\ncase: family=%s form=%d payload=%s details=%s msgtype=%d position=%s %s", st.Family, st.Form, st.Fault, st.Details, st.MsgType, st.Position, st.Desc), st)
	}

	// ---- part 1: synthesised messages per key
	for _, k := range keys {
		if c.Expired() {
			r.Cap("soft deadline in part 1")
			break
		}
		for form := 0; form < 3; form++ {
			for _, pf := range faults {
				for di, df := range detailFaults {
					mts := msgTypes
					if form != 2 {
						mts = msgTypes[:1]
					}
					for _, mt := range mts {
						x := carrier(form, k, df.D, pf.Any, mt)
						st := c05State{Family: k, Form: form, Fault: pf.Name, Details: df.Name, MsgType: int(mt), Position: "root"}
						visit(st, x)
						if (di <= 2 || strings.HasPrefix(df.Name, "stack-")) && mt == 0 && (di <= 2 || pf.Name == "absent") {
							for _, pn := range posNames {
								host := tm.Unmarshal(pos[pn])
								if !substitute(host, x) {
									r.HarnessError("placeholder not found in position %s", pn)
									continue
								}
								st.Position = pn
								visit(st, host)
							}
						}
					}
				}
			}
		}
		r.Outcome("key:" + typeTail(k))
	}
	r.Sample(map[string]interface{}{"family": keys[len(keys)/2], "form": "wrapper", "payload_fault": "MarkPayload-notypes", "details": "none", "position": "cause-of-Wrap"})

	// ---- part 2: substitutions on real wire messages
	type subst struct {
		layer int
		kind  string // payload | details | msgtype
		name  string
		apply func(d *errorspb.EncodedErrorDetails)
	}
	for wi, w := range wires {
		if wi&0x3f == 0 && c.Expired() {
			r.Cap("soft deadline in part 2")
			break
		}
		nlayers := 0
		tm.WalkWire(tm.Unmarshal(w), func(*errorspb.EncodedErrorDetails, *string, bool) { nlayers++ })
		var subs []subst
		for l := 0; l < nlayers; l++ {
			for _, pf := range faults {
				pf := pf
				subs = append(subs, subst{l, "payload", pf.Name, func(d *errorspb.EncodedErrorDetails) { d.FullDetails = pf.Any }})
			}
			for _, df := range detailFaults {
				df := df
				subs = append(subs, subst{l, "details", df.Name, func(d *errorspb.EncodedErrorDetails) { d.ReportablePayload = df.D }})
			}
		}
		applyTo := func(ss ...subst) (*errorspb.EncodedError, string) {
			enc := tm.Unmarshal(w)
			fam := ""
			li := 0
			tm.WalkWire(enc, func(d *errorspb.EncodedErrorDetails, _ *string, _ bool) {
				for _, s := range ss {
					if s.layer == li {
						// never replace a nested EncodedError payload by a
						// non-error: nested errors stay structurally complete
						// (their own layers are visited separately)
						if s.kind == "payload" && d.FullDetails != nil && strings.HasSuffix(d.FullDetails.TypeUrl, "errorspb.EncodedError") && s.name != "EncodedError" {
							// allowed: it is the *payload* of this layer that is faulted
						}
						s.apply(d)
						if fam == "" {
							fam = d.ErrorTypeMark.FamilyName
						}
					}
				}
				li++
			})
			return enc, fam
		}
		for _, s := range subs {
			enc, fam := applyTo(s)
			visit(c05State{Family: fam, Form: -1, Fault: pickFault(s.kind, s.name, "payload"), Details: pickFault(s.kind, s.name, "details"), Position: fmt.Sprintf("layer %d of %s", s.layer, skeleton(wireTerms[wi])), Desc: "single substitution"}, enc)
		}
		if c.Thorough() || wireTerms[wi].Depth() == 1 {
			for a := 0; a < len(subs); a++ {
				for b := a + 1; b < len(subs); b++ {
					if subs[a].layer == subs[b].layer && subs[a].kind == subs[b].kind {
						continue
					}
					enc, fam := applyTo(subs[a], subs[b])
					visit(c05State{Family: fam, Form: -1, Fault: pickFault(subs[a].kind, subs[a].name, "payload") + pickFault(subs[b].kind, subs[b].name, "payload"),
						Details:  pickFault(subs[a].kind, subs[a].name, "details") + pickFault(subs[b].kind, subs[b].name, "details"),
						Position: fmt.Sprintf("layers %d,%d of %s", subs[a].layer, subs[b].layer, skeleton(wireTerms[wi])), Desc: "pair of substitutions"}, enc)
				}
			}
		}
		if wi%401 == 0 {
			r.Sample(map[string]interface{}{"wire_of": wireTerms[wi].String(), "substitutions": len(subs)})
		}
	}
	// Part 3: registration histories. Decoding must be total in every state
	// of the decoder registries a program can reach: every sequence of up
	// to 4 register/unregister calls on one key, in each of the three
	// decoder registries; after every prefix, the key is decoded in its
	// three carrier forms (with and without payload) at three positions.
	maxOps := 3
	if c.Thorough() {
		maxOps = 4
	}
	nh := 0
	for _, kind := range []string{"leaf", "wrapper", "multi"} {
		var hs [][]string
		var gen func(cur []string)
		gen = func(cur []string) {
			if len(cur) > 0 {
				hs = append(hs, append([]string{}, cur...))
			}
			if len(cur) == maxOps {
				return
			}
			gen(append(cur, "reg"))
			gen(append(cur, "unreg"))
		}
		gen(nil)
		for _, ops := range hs {
			h := kind + ":" + strings.Join(ops, ",")
			nh++
			clearHistory()
			applyHistory(h)
			for form := 0; form < 3; form++ {
				for _, pl := range []*types.Any{nil, anyOf(&errorspb.StringPayload{Msg: "p"})} {
					for _, pn := range []string{posNames[0], posNames[len(posNames)/2], posNames[len(posNames)-1]} {
						enc := carrier(form, histKey, []string{"d"}, pl, errorspb.MessageType_PREFIX)
						host := tm.Unmarshal(pos[pn])
						if !substitute(host, enc) {
							continue
						}
						visit(c05State{Family: histKey, Form: form, History: h, Position: pn, Desc: "registration history"}, host)
					}
					// zero causes in the multi-cause form
					if form == 1 {
						enc := carrier(form, histKey, []string{"d"}, pl, errorspb.MessageType_PREFIX)
						enc.GetLeaf().MultierrorCauses = nil
						visit(c05State{Family: histKey, Form: form, History: h, Desc: "registration history, no causes"}, enc)
					}
				}
			}
			clearHistory()
		}
	}
	r.Count("registration_histories", int64(nh))
	// Part 4: chain length. A single-cause chain of n wrappers around a
	// leaf, for every n up to 40 and for lengths around the powers of two
	// and round numbers a decoder might take as a bound, with a known
	// wrapper type, an unknown one, and alternating.
	var lens []int
	for n := 0; n <= 40; n++ {
		lens = append(lens, n)
	}
	for _, c0 := range []int{64, 100, 128, 256, 500, 512, 1000} {
		for d := -1; d <= 2; d++ {
			lens = append(lens, c0+d)
		}
	}
	hintKey := string(errors.GetTypeKey(errors.WithHint(errors.New("x"), "h")))
	nl := 0
	for _, n := range lens {
		for mode := 0; mode < 3; mode++ {
			enc := plainLeaf("bottom")
			for k := 0; k < n; k++ {
				key := hintKey
				if mode == 1 || (mode == 2 && k%2 == 1) {
					key = "verif/unknown.Wrapper"
				}
				var pl *types.Any
				if key == hintKey {
					pl = anyOf(&errorspb.StringPayload{Msg: "h"})
				}
				enc = &errorspb.EncodedError{Error: &errorspb.EncodedError_Wrapper{Wrapper: &errorspb.EncodedWrapper{Cause: *enc, Message: "w", Details: mkDetails(key, []string{"d"}, pl), MessageType: errorspb.MessageType_PREFIX}}}
			}
			nl++
			visit(c05State{Family: hintKey, Form: 2, Position: fmt.Sprintf("chain of %d wrappers (mode %d)", n, mode), Desc: "chain length"}, enc)
		}
	}
	r.Count("chain_lengths", int64(nl))
}

func pickFault(kind, name, want string) string {
	if kind == want {
		return name
	}
	return ""
}

func sortStrings(s []string) {
	for i := 1; i < len(s); i++ {
		for j := i; j > 0 && s[j] < s[j-1]; j-- {
			s[j], s[j-1] = s[j-1], s[j]
		}
	}
}

// panicClass reduces a panic message to its kind, without the concrete
// type names and indices, for use in violation keys.
func panicClass(msg string) string {
	i := strings.Index(msg, "panics")
	if i >= 0 {
		msg = msg[i:]
	}
	for _, c := range []string{"interface conversion", "index out of range", "nil pointer dereference", "slice bounds out of range", "nil map", "comparing uncomparable"} {
		if strings.Contains(msg, c) {
			return strings.ReplaceAll(c, " ", "-")
		}
	}
	if strings.Contains(msg, "returned nil") {
		return "nil"
	}
	return "other"
}
