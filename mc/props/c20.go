package props

import (
	"context"
	"fmt"
	"github.com/cockroachdb/logtags"
	gogorpc "github.com/gogo/googleapis/google/rpc"
	gogostatus "github.com/gogo/status"
	"net"
	"strconv"
	"strings"
	"sync"
	"time"

	"github.com/cockroachdb/errors"
	"github.com/cockroachdb/errors/extgrpc"
	egrpc "github.com/cockroachdb/errors/grpc"
	"github.com/cockroachdb/errors/grpc/middleware"
	"github.com/hydrogen18/memlistener"
	"google.golang.org/grpc"
	"google.golang.org/grpc/codes"
	"google.golang.org/grpc/status"

	"verif/mc/core"
	"verif/mc/tm"
)

func init() {
	core.Register(&core.Check{ID: "C20", Technique: "explicit-state exploration: every constructor composition up to the bound returned by a real handler behind the real server/client interceptors over an in-memory gRPC connection; differential oracle against the direct EncodeError/DecodeError transfer",
		Run: runC20})
}

// echoServer returns the error registered under the request text.
type echoServer struct {
	mu      sync.Mutex
	pending map[string]error
}

func (s *echoServer) Echo(ctx context.Context, req *egrpc.EchoRequest) (*egrpc.EchoReply, error) {
	s.mu.Lock()
	err := s.pending[req.Text]
	delete(s.pending, req.Text)
	s.mu.Unlock()
	return &egrpc.EchoReply{Reply: "echoing: " + req.Text}, err
}

type rpcRig struct {
	srv    *echoServer
	gs     *grpc.Server
	conn   *grpc.ClientConn
	client egrpc.EchoerClient
	// rawCode is the status code seen by an interceptor placed after
	// (inside) the library's client interceptor.
	rawCode codes.Code
	rawErr  error
	seq     int
	// cancelAfterReply, when set, is called once the reply has arrived and
	// before the library's client interceptor sees it.
	cancelAfterReply func()
	cancelMode       bool
}

// outerServerInterceptor stands for whatever else a service installs around
// the library's interceptor: it tags the handler's context (request-scoped
// log tags) and appends a detail of its own to a failing call's status.
func outerServerInterceptor(ctx context.Context, req interface{}, info *grpc.UnaryServerInfo, handler grpc.UnaryHandler) (interface{}, error) {
	ctx = logtags.AddTag(logtags.AddTag(ctx, "rpc", "echo"), "n", 3)
	resp, err := handler(ctx, req)
	if err != nil {
		if st, ok := gogostatus.FromError(err); ok {
			if st2, e2 := st.WithDetails(&gogorpc.RequestInfo{RequestId: "r-1"}); e2 == nil {
				return resp, st2.Err()
			}
		}
	}
	return resp, err
}

func newRig(chained ...bool) (*rpcRig, error) {
	rig := &rpcRig{srv: &echoServer{pending: map[string]error{}}}
	lis := memlistener.NewMemoryListener()
	if len(chained) > 0 && chained[0] {
		rig.gs = grpc.NewServer(grpc.ChainUnaryInterceptor(outerServerInterceptor, middleware.UnaryServerInterceptor))
	} else {
		rig.gs = grpc.NewServer(grpc.UnaryInterceptor(middleware.UnaryServerInterceptor))
	}
	egrpc.RegisterEchoerServer(rig.gs, rig.srv)
	go rig.gs.Serve(lis)
	raw := func(ctx context.Context, method string, req, reply interface{}, cc *grpc.ClientConn, invoker grpc.UnaryInvoker, opts ...grpc.CallOption) error {
		err := invoker(ctx, method, req, reply, cc, opts...)
		rig.rawErr = err
		rig.rawCode = status.Code(err)
		// environment answer: the caller's context is done by the time the
		// reply is back with the library's interceptor (a fan-out cancelled
		// by its first failure, a deadline that expires right after)
		if rig.cancelAfterReply != nil {
			rig.cancelAfterReply()
		}
		return err
	}
	conn, err := grpc.Dial("",
		grpc.WithDialer(func(string, time.Duration) (net.Conn, error) { return lis.Dial("", "") }),
		grpc.WithInsecure(),
		grpc.WithChainUnaryInterceptor(middleware.UnaryClientInterceptor, raw))
	if err != nil {
		return nil, err
	}
	rig.conn = conn
	rig.client = egrpc.NewEchoerClient(conn)
	return rig, nil
}

func (rig *rpcRig) close() {
	rig.conn.Close()
	rig.gs.Stop()
}

// call makes the handler return e and gives back what the client sees.
func (rig *rpcRig) call(e error) (error, codes.Code, error) {
	rig.seq++
	key := strconv.Itoa(rig.seq)
	rig.srv.mu.Lock()
	rig.srv.pending[key] = e
	rig.srv.mu.Unlock()
	ctx, cancel := context.WithTimeout(context.Background(), 30*time.Second)
	defer cancel()
	if rig.cancelMode {
		rig.cancelAfterReply = cancel
		defer func() { rig.cancelAfterReply = nil }()
	}
	_, err := rig.client.Echo(ctx, &egrpc.EchoRequest{Text: key})
	return err, rig.rawCode, rig.rawErr
}

// c20Modes: every term is sent with a live context; terms of depth <= 2
// (and the hand-picked ones of depth <= 3) also with a context that is
// done by the time the reply reaches the library's client interceptor.
func c20Modes(t *tm.Term) []bool {
	if t.Depth() <= 2 {
		return []bool{false, true}
	}
	return []bool{false}
}

func runC20(c *core.Ctx, r *core.Result) {
	p := plan{dupDepth: 2, fullDepth: 3, coreDepth: 4, strDepth: 2, alphabet: tm.REG}
	if c.Thorough() {
		p = plan{dupDepth: 2, fullDepth: 4, coreDepth: 5, strDepth: 2, pairDepth: 1, alphabet: tm.REG}
	}
	r.Bounds = p.String() + "; one RPC per term through grpc.Server+UnaryServerInterceptor and a client with UnaryClientInterceptor over memlistener; plus a message-size sweep (every ASCII padding length up to the bound followed by 2/3/4-byte runes)"
	r.Rule = "state = (term, RPC); non-trivial = the handler's error is not already a gRPC status error (so it is encoded into the status details and decoded by the client interceptor)"
	r.Assumptions = []string{"gRPC's own goroutines are not under a controlled scheduler: the property is functional and the enumerated dimension is the input", "REG strings (valid UTF-8): proto3 string fields are specified as such"}
	rig, err := newRig()
	if err != nil {
		r.HarnessError("cannot set up the in-memory gRPC service: %v", err)
		return
	}
	defer rig.close()
	plainRig := rig
	chainRig, err := newRig(true)
	if err != nil {
		r.HarnessError("cannot set up the chained in-memory gRPC service: %v", err)
		return
	}
	defer chainRig.close()
	// nil passes through
	if got, code, _ := rig.call(nil); got != nil || code != codes.OK {
		r.Violate("nil-handler-error", fmt.Sprintf("a nil handler error arrives as %v (code %v)", got, code), nil)
	}
	encoded := false
	// one evaluates one term with one RPC (rig.cancelMode chosen by the caller).
	one := func(t *tm.Term) string {
		e := t.Build()
		got, rawCode, rawErr := rig.call(e)
		if got == nil {
			return fail("lost", "the handler returned %T but the client got nil", e)
		}
		if _, isStatus := e.(interface{ GRPCStatus() *status.Status }); isStatus {
			// the handler's error itself is a gRPC status error: it
			// passes through unchanged (a tree that merely contains one
			// is an ordinary error and must arrive like a direct transfer)
			st, _ := status.FromError(e)
			gs, ok := status.FromError(got)
			if !ok || gs.Code() != st.Code() || gs.Message() != st.Message() {
				return fail("status-passthrough", "a handler error that already is a gRPC status (%v %q) arrives as %T %q", st.Code(), st.Message(), got, got.Error())
			}
			return ""
		}
		encoded = true
		// the code attached with WrapWithGrpcCode, from the term's model:
		// the outermost code layer on the visible single-cause chain
		wantCode := codes.Unknown
		for _, n := range t.Model().Spine() {
			if n.GRPC >= 0 {
				wantCode = codes.Code(n.GRPC)
				break
			}
		}
		if got := extgrpc.GetGrpcCode(e); got != wantCode {
			return fail("getgrpccode", "GetGrpcCode of the handler's error is %v, the code attached on its cause chain is %v", got, wantCode)
		}
		if rawCode != wantCode {
			return fail("status-code", "the gRPC status code on the wire is %v, the error carries %v (raw error: %v)", rawCode, wantCode, rawErr)
		}
		direct, _ := tm.HopK(e)
		sd, sg := tm.ShapeOf(direct), tm.ShapeOf(got)
		if d := sd.Diff(sg); d != "" {
			return fail("text|text@"+typeTail(culprit(sd, sg)), "the error received through the interceptors differs from the direct transfer: %s", d)
		}
		if fmt.Sprint(sd.Types()) != fmt.Sprint(sg.Types()) {
			return fail("types", "Go types differ from the direct transfer: %v vs %v", sg.Types(), sd.Types())
		}
		refs := tm.Nodes(e)
		if a, b := isVec(got, refs), isVec(direct, refs); a != b {
			return fail("is", "Is vector differs from the direct transfer: %s vs %s", a, b)
		}
		if d := tm.Annotations(direct).Diff(tm.Annotations(got)); d != "" {
			return fail("annotations:"+stripIdx(tm.Annotations(direct).FirstKey(tm.Annotations(got))), "annotations differ from the direct transfer: %s", short(d))
		}
		if a, b := fmt.Sprintf("%+v", errors.Formattable(got)), fmt.Sprintf("%+v", errors.Formattable(direct)); a != b {
			return fail("verbose", "%%+v differs from the direct transfer:\n%s\n-- vs --\n%s", short(a), short(b))
		}
		// the reference of the statement is EncodeError/DecodeError as
		// such: also without the protobuf marshalling in between
		if t.Depth() > 2 && t.Depth() < 4 {
			return "" // (the bulk of the depth-3 space is compared with the marshalled transfer only)
		}
		mem := errors.DecodeError(tm.Bg(), errors.EncodeError(tm.Bg(), e))
		if a, b := fmt.Sprintf("%+v", errors.Formattable(got)), fmt.Sprintf("%+v", errors.Formattable(mem)); a != b {
			return fail("verbose-inmem", "%%+v differs from the in-memory EncodeError/DecodeError transfer:\n%s\n-- vs --\n%s", short(a), short(b))
		}
		if d := tm.Annotations(mem).Diff(tm.Annotations(got)); d != "" {
			return fail("annotations-inmem:"+stripIdx(tm.Annotations(mem).FirstKey(tm.Annotations(got))), "annotations differ from the in-memory transfer: %s", short(d))
		}
		return ""
	}
	visit := func(t *tm.Term) {
		if strings.Contains(t.String(), "WrapWithGrpcCode#0(") {
			return // a non-nil error cannot travel with code OK (DESIGN.md §4.4)
		}
		encoded = false
		report(r, t, nil, func(t *tm.Term) string {
			return guarded("C20", func() string {
				defer func() { rig = plainRig; rig.cancelMode = false }()
				for _, cm := range c20Modes(t) {
					rig = plainRig
					rig.cancelMode = cm
					if m := one(t); m != "" {
						if cm {
							return "ctx-done:" + m
						}
						return m
					}
				}
				rig.cancelMode = false
				if t.Depth() <= 2 {
					// the same behind another server interceptor
					rig = chainRig
					if m := one(t); m != "" {
						return "chained:" + m
					}
				}
				return ""
			})
		})
		r.States++
		r.Transitions += 2
		r.Evaluations++
		if encoded {
			r.Nontrivial++
		}
		r.Outcome(t.Op.Class)
		if r.Evaluations%999 == 1 {
			r.Sample(map[string]interface{}{"term": t.String()})
		}
	}
	eachTerm(c, r, p, visit)
	// message-size sweep: every length 0..maxPad of ASCII padding followed
	// by 2-, 3- and 4-byte runes, so that every byte offset up to the bound
	// falls once inside a multi-byte rune (status messages, trailers and
	// detail payloads all have size-dependent paths)
	if c.Replay == nil {
		maxPad := 300
		if c.Thorough() {
			maxPad = 5000
		}
		for pad := 0; pad <= maxPad; pad++ {
			if !c.Mine(int64(1<<30 + pad)) {
				continue
			}
			msg := strings.Repeat("a", pad) + "é€𝄞z"
			for _, names := range [][]string{{"New"}, {"GoNew", "Wrap"}, {"New", "WrapWithGrpcCode"}} {
				t := tm.T(names...)
				t.EachSlot(func(k int, o *tm.Term, i int) {
					if o.Op.Slots[i].Name == "msg" && o.Kid == nil {
						o.S[i] = msg
					}
				})
				visit(t)
			}
		}
		r.Count("size_sweep_max_pad", int64(maxPad))
	}
}
