package props

import (
	goerrors "errors"
	"fmt"

	"github.com/cockroachdb/errors"
	"github.com/cockroachdb/errors/errbase"
	pkgerrors "github.com/pkg/errors"

	"verif/mc/core"
	"verif/mc/tm"
	"verif/mc/ut"
)

func init() {
	core.Register(&core.Check{ID: "C14", Technique: "explicit-state exploration: every constructor composition up to the bound on the real code, differential oracle against the real standard library errors.Is/As/Unwrap and pkg/errors.Cause",
		Run: runC14})
}

// chainKinds tells whether every wrapper in the visible tree exposes its
// cause through Unwrap (what the standard library can traverse) and
// through Cause (what pkg/errors can traverse).
func chainKinds(e error) (allUnwrap, allCause, hasMulti bool) {
	allUnwrap, allCause = true, true
	for _, n := range tm.Nodes(e) {
		if errors.UnwrapOnce(n) != nil {
			if _, ok := n.(interface{ Unwrap() error }); !ok {
				allUnwrap = false
			}
			if _, ok := n.(interface{ Cause() error }); !ok {
				allCause = false
			}
		}
		if _, ok := n.(interface{ Unwrap() []error }); ok {
			hasMulti = true
		}
	}
	return
}

func safeUnwrapOnceText(e error) string {
	if e == nil {
		return ""
	}
	return e.Error()
}

// structDiff is modelDiff without the texts: causes and branches only.
func structDiff(e error, m *tm.Node, path string) string {
	if e == nil || m == nil {
		if e == nil && m == nil {
			return ""
		}
		return fmt.Sprintf("at %s: real node present=%v, the composition has one=%v", path, e != nil, m != nil)
	}
	if d := structDiff(errbase.UnwrapOnce(e), m.Cause, path+".cause"); d != "" {
		return d
	}
	bs := errbase.UnwrapMulti(e)
	if len(bs) != len(m.Multi) {
		return fmt.Sprintf("at %s (%T): %d branches, the composition has %d", path, e, len(bs), len(m.Multi))
	}
	for i := range bs {
		if d := structDiff(bs[i], m.Multi[i], fmt.Sprintf("%s.branch[%d]", path, i)); d != "" {
			return d
		}
	}
	return ""
}

func runC14(c *core.Ctx, r *core.Result) {
	p := plan{dupDepth: 2, fullDepth: 3, coreDepth: 4, alphabet: tm.REGE}
	if c.Thorough() {
		p = plan{dupDepth: 2, fullDepth: 4, coreDepth: 6, alphabet: tm.REGE}
	}
	r.Bounds = p.String() + "; references: 15 sentinels ∪ every node of e ∪ a fresh copy's nodes; 9 As target types (pointer, value, interface, error, type with As method)"
	r.Rule = "state = (term, reference or target); non-trivial = the standard library finds a match (so the implication is not vacuous) or the chain mixes Cause-only and Unwrap-only wrappers"
	r.Assumptions = []string{"agreement of As/Unwrap is required on chains every wrapper of which has an Unwrap method (what the standard library can traverse); Cause agreement on chains every wrapper of which has Cause (the documented difference)"}
	sent := tm.Sentinels()
	probes := tm.AsProbes()
	visit := func(t *tm.Term) {
		nontrivial := false
		report(r, t, nil, func(t *tm.Term) string {
			return guarded("C14", func() string {
				e := t.Build()
				// the chain is there for the standard library to traverse: the
				// error has the causes its constructors were given (a constructor
				// that silently builds a leaf satisfies every differential clause)
				if d := structDiff(e, t.Model(), "root"); d != "" {
					return fail("structure", "the error tree differs from the composition that built it: %s", short(d))
				}
				allUnwrap, allCause, hasMulti := chainKinds(e)
				if !allUnwrap || !allCause {
					nontrivial = true
				}
				var refs []tm.NamedErr
				refs = append(refs, sent...)
				for i, n := range tm.Nodes(e) {
					refs = append(refs, tm.NamedErr{Name: fmt.Sprintf("node[%d]", i), Err: n})
				}
				for i, n := range tm.Nodes(t.Build()) {
					refs = append(refs, tm.NamedErr{Name: fmt.Sprintf("copy.node[%d]", i), Err: n})
				}
				// typed nil pointers used as type witnesses
				refs = append(refs, tm.NamedErr{Name: "(*ut.TypeIsLeaf)(nil)", Err: (*ut.TypeIsLeaf)(nil)},
					tm.NamedErr{Name: "(*ut.PtrLeaf)(nil)", Err: (*ut.PtrLeaf)(nil)})
				for _, ref := range refs {
					var stdIs bool
					if p := tm.Guard(func() { stdIs = goerrors.Is(e, ref.Err) }); p != nil {
						continue // the standard library itself panics on this pair
					}
					libIs, lp := tm.IsG(e, ref.Err)
					if lp {
						return fail("is-panic", "Is(e, %s) panics where the standard library does not", ref.Name)
					}
					if stdIs {
						nontrivial = true
						if !libIs {
							return fail("is-implication", "standard errors.Is(e, %s) holds but this library's Is does not", ref.Name)
						}
					}
				}
				for _, pr := range probes {
					var sOK, lOK bool
					var sV, lV string
					var sE, lE error
					if p := tm.Guard(func() { sOK, sV, sE = pr.Try(e, goerrors.As) }); p != nil {
						continue
					}
					if p := tm.Guard(func() { lOK, lV, lE = pr.Try(e, errors.As) }); p != nil {
						return fail("as-panic", "As(%s) panics where the standard library does not: %v", pr.Name, p)
					}
					if sOK {
						nontrivial = true
						if !lOK {
							return fail("as-implication", "standard errors.As(e, %s) succeeds but this library's As does not", pr.Name)
						}
						// "the same first match" is decided where both walk the same
						// chain; with a Cause()-only wrapper in the tree this library
						// sees causes the standard library cannot, and may
						// legitimately find an earlier match
						if allUnwrap && (sV != lV || !tm.Same(sE, lE)) {
							return fail("as-value", "As(%s) assigns a different value than the standard library: %s vs %s", pr.Name, lV, sV)
						}
					}
					if allUnwrap && lOK != sOK {
						return fail("as-agreement", "on a chain the standard library can traverse, As(%s) = %v but standard As = %v", pr.Name, lOK, sOK)
					}
				}
				// Unwrap
				for i, n := range tm.Nodes(e) {
					lu := errors.Unwrap(n)
					su := goerrors.Unwrap(n)
					if _, isMulti := n.(interface{ Unwrap() []error }); isMulti {
						if lu != nil || errors.UnwrapOnce(n) != nil {
							return fail("unwrap-multi", "Unwrap of the multi-cause node %d (%T) is not nil", i, n)
						}
						continue
					}
					if _, hasUnwrap := n.(interface{ Unwrap() error }); hasUnwrap || su != nil {
						if !tm.Same(lu, su) {
							return fail("unwrap-agreement", "Unwrap of node %d (%T) differs from the standard library: %q vs %q", i, n, safeUnwrapOnceText(lu), safeUnwrapOnceText(su))
						}
					}
				}
				// Cause / UnwrapAll / pkg/errors.Cause
				lc, ua := errors.Cause(e), errors.UnwrapAll(e)
				if !tm.Same(lc, ua) {
					return fail("cause-unwrapall", "Cause and UnwrapAll disagree: %T vs %T", lc, ua)
				}
				if allCause && !hasMulti {
					if pc := pkgerrors.Cause(e); !tm.Same(pc, lc) {
						return fail("cause-pkgerrors", "Cause differs from pkg/errors.Cause on a Cause()-only chain: %T %q vs %T %q", lc, lc.Error(), pc, pc.Error())
					}
				}
				// library-built chains are traversable by the standard library
				if allUnwrap && !hasMulti {
					root := errors.UnwrapAll(e)
					cur := e
					for k := 0; k < 4096; k++ {
						n := goerrors.Unwrap(cur)
						if n == nil {
							break
						}
						cur = n
					}
					if !tm.Same(cur, root) {
						return fail("std-traversal", "the standard library's Unwrap does not reach the root cause: stops at %T, root is %T", cur, root)
					}
					var stdIs bool
					if p := tm.Guard(func() { stdIs = goerrors.Is(e, root) }); p == nil && !stdIs {
						if ok, _ := tm.IsG(root, root); ok {
							// only when the root is comparable does std Is find it
							if cmpOK := tm.Guard(func() { _ = root == root }); cmpOK == nil && isComparableValue(root) {
								return fail("std-is-root", "the standard library's Is does not find the root cause %T", root)
							}
						}
					}
				}
				return ""
			})
		})
		r.States += int64(15 + len(probes))
		r.Transitions += int64(t.Depth())
		r.Evaluations++
		if nontrivial {
			r.Nontrivial++
		}
		r.Outcome(t.Op.Class)
		if r.Evaluations%2999 == 1 {
			r.Sample(map[string]interface{}{"term": t.String()})
		}
	}
	eachTerm(c, r, p, visit)
	// multi-cause nodes with an As (or Is) method of their own that declines:
	// the standard library then searches the branches, and so must the
	// library. Every ordered pair of leaves as branches, bare and under one
	// wrapper / inside a join.
	var idx int64 = 1 << 42
	var declining int64
	for _, mop := range []string{"ut.AsMulti", "ut.IsMulti"} {
		for _, a := range tm.Leaves {
			for _, b := range tm.Leaves {
				if a.NSide > 0 || b.NSide > 0 {
					continue // leaves that capture an error argument: covered by the term spaces
				}
				base := func() *tm.Term { return tm.Mk(mop, tm.Mk(a.Name, nil), tm.Mk(b.Name, nil)) }
				for _, t := range []*tm.Term{
					base(),
					tm.Mk("Wrap", base()),
					tm.Mk("Join2", tm.Mk("GoNew", nil), base()),
				} {
					idx++
					if !c.Mine(idx) {
						continue
					}
					declining++
					visit(t.FillDefault())
				}
			}
		}
	}
	r.Count("declining_method_multi_terms", declining)
}

func isComparableValue(e error) (ok bool) {
	defer func() {
		if recover() != nil {
			ok = false
		}
	}()
	m := map[interface{}]bool{}
	m[e] = true
	return true
}
