package props

import (
	"fmt"
	"sort"
	"strings"

	"github.com/cockroachdb/errors"
	"github.com/cockroachdb/errors/assert"
	"github.com/cockroachdb/errors/issuelink"
	"github.com/cockroachdb/errors/stdstrings"

	"verif/mc/core"
	"verif/mc/tm"
)

func init() {
	core.Register(&core.Check{ID: "C19", Technique: "explicit-state exploration: every composition of list-contributing constructors up to the bound (with repeated/empty texts) on the real code, compared with an independent list model",
		Run: runC19})
}

// listModel computes the documented aggregation from the model spine.
type listModel struct {
	hints, details []string
	links          []tm.Link
	tags           []string
	keys           []string
}

func referral(l tm.Link, prefixNonEmpty bool) string {
	if l.URL != "" {
		s := "See: " + l.URL
		if prefixNonEmpty {
			s = "\n" + s
		}
		return s
	}
	return stdstrings.IssueReferral
}

func modelLists(n *tm.Node) listModel {
	var lm listModel
	spine := n.Spine()
	seen := map[string]bool{}
	keys := map[string]bool{}
	// innermost first for hints and details
	for i := len(spine) - 1; i >= 0; i-- {
		l := spine[i]
		h := l.Hint
		switch {
		case l.Assert:
			h = assert.AssertionErrorHint + stdstrings.IssueReferral
		case l.Unimpl:
			h = issuelink.UnimplementedErrorHint + referral(l.Links[0], true)
		case len(l.Links) > 0:
			h = referral(l.Links[0], false)
		}
		if h != "" && !seen[h] {
			seen[h] = true
			lm.hints = append(lm.hints, h)
		}
		if l.Detail != "" {
			lm.details = append(lm.details, l.Detail)
		}
	}
	// outermost first for links and tags
	for _, l := range spine {
		lm.links = append(lm.links, l.Links...)
		if len(l.Tags) > 0 {
			var ts []string
			for _, t := range l.Tags {
				ts = append(ts, t[0]+"="+t[1])
			}
			lm.tags = append(lm.tags, strings.Join(ts, ","))
		}
		for _, k := range l.Keys {
			keys[k] = true
		}
	}
	for k := range keys {
		lm.keys = append(lm.keys, k)
	}
	sort.Strings(lm.keys)
	return lm
}

func checkLists(e error, m *tm.Node) string {
	lm := modelLists(m)
	if got := errors.GetAllHints(e); fmt.Sprintf("%q", got) != fmt.Sprintf("%q", lm.hints) {
		return fail("hints", "GetAllHints = %q, model says %q", got, lm.hints)
	}
	if got, want := errors.FlattenHints(e), strings.Join(lm.hints, "\n--\n"); got != want {
		return fail("flattenhints", "FlattenHints = %q, want %q", got, want)
	}
	if got := errors.GetAllDetails(e); fmt.Sprintf("%q", got) != fmt.Sprintf("%q", lm.details) {
		return fail("details", "GetAllDetails = %q, model says %q", got, lm.details)
	}
	if got, want := errors.FlattenDetails(e), strings.Join(lm.details, "\n--\n"); got != want {
		return fail("flattendetails", "FlattenDetails = %q, want %q", got, want)
	}
	var gl []tm.Link
	for _, l := range errors.GetAllIssueLinks(e) {
		gl = append(gl, tm.Link{URL: l.IssueURL, Detail: l.Detail})
	}
	if fmt.Sprintf("%q", gl) != fmt.Sprintf("%q", lm.links) {
		return fail("links", "GetAllIssueLinks = %q, model says %q", gl, lm.links)
	}
	var gt []string
	for _, b := range errors.GetContextTags(e) {
		var ts []string
		for _, t := range b.Get() {
			ts = append(ts, t.Key()+"="+t.ValueStr())
		}
		gt = append(gt, strings.Join(ts, ","))
	}
	if fmt.Sprintf("%q", gt) != fmt.Sprintf("%q", lm.tags) {
		return fail("tags", "GetContextTags = %q, model says %q", gt, lm.tags)
	}
	gk := errors.GetTelemetryKeys(e)
	sort.Strings(gk)
	if fmt.Sprintf("%q", gk) != fmt.Sprintf("%q", lm.keys) {
		return fail("telemetry", "GetTelemetryKeys = %q, model says set %q", gk, lm.keys)
	}
	return ""
}

// c19Other is "another error" with every kind of list entry.
var c19Other = errors.WithTelemetry(errors.WithIssueLink(errors.WithDetail(errors.WithHint(errors.WithHint(errors.New("other"), "other hint 1"), "other hint 2"), "other detail"),
	errors.IssueLink{IssueURL: "https://other/1", Detail: "other link detail"}), "other.key")

// c19Ops are the constructors that contribute to (or interrupt) the lists.
var c19Ops = []string{"WithHint", "WithHintf", "WithDetail", "WithIssueLink", "WithTelemetry", "WithTelemetry2",
	"WithContextTags", "WithContextTags_int2", "WithContextTags_strint", "WithContextTags_twice", "WithIssueLink_detailonly", "WithIssueLink_urlonly", "ut.CauseW", "WithAssertionFailure", "Wrap", "Handled", "WithSecondaryError", "Join2", "ut.UnwrapW", "WithStack"}
var c19Leaves = []string{"GoNew", "Unimplemented", "Unimplementedf_nolink", "AssertionFailedf", "New"}

// rawStrings assigns the small raw alphabet (no tokens, so that texts can
// repeat) to the list-relevant slots, every combination; other slots keep
// tokens.
func rawVariants(t *tm.Term, f func(v *tm.Term)) {
	var slots []int
	t.EachSlot(func(k int, o *tm.Term, i int) {
		switch o.Op.Slots[i].Name {
		case "hint", "detail", "url", "key", "key1", "key2":
			slots = append(slots, k)
		}
	})
	alpha := []string{"", "A", "B", " ", "\n"}
	if len(slots) > 4 {
		slots = slots[:4]
	}
	n := 1
	for range slots {
		n *= len(alpha)
	}
	for m := 0; m < n; m++ {
		v := t.Clone()
		x := m
		for _, k := range slots {
			s := alpha[x%len(alpha)]
			x /= len(alpha)
			v.EachSlot(func(j int, o *tm.Term, i int) {
				if j == k {
					o.S[i] = s
				}
			})
		}
		f(v)
	}
}

func runC19(c *core.Ctx, r *core.Result) {
	listDepth := 4
	p := plan{fullDepth: 3, coreDepth: 4, strDepth: 0, pairDepth: 0, alphabet: tm.REG}
	if c.Thorough() {
		listDepth = 5
		p = plan{fullDepth: 4, coreDepth: 6, strDepth: 2, pairDepth: 0, alphabet: tm.REG}
	}
	r.Bounds = fmt.Sprintf("list space: %d leaves x %d list-relevant constructors to depth %d with every assignment of {\"\",A,B} to hint/detail/url/key slots; plus every sequence (up to renaming) of <=7 (thorough 8) WithHint layers over 6 texts; plus %s; local and after one hop", len(c19Leaves), len(c19Ops), listDepth, p)
	r.Rule = "state = (term, raw strings, local|after hop); non-trivial = model has >=2 list entries in total or a repeated/empty text"
	var lops, wops []*tm.Op
	for _, n := range c19Leaves {
		lops = append(lops, tm.OpByName[n])
	}
	for _, n := range c19Ops {
		wops = append(wops, tm.OpByName[n])
	}
	eval := func(t *tm.Term) string {
		return guarded("C19", func() string {
			e := t.Build()
			m := t.Model()
			if f := checkLists(e, m); f != "" {
				return f
			}
			d, _ := tm.HopK(e)
			if f := checkLists(d, m); f != "" {
				return fail("hop:"+keyOf(f), "after one hop: %s", textOf(f))
			}
			// the lists belong to the caller: asking again (for this or another
			// error) does not change a list handed out before
			h1, d1, l1, k1 := errors.GetAllHints(e), errors.GetAllDetails(e), errors.GetAllIssueLinks(e), errors.GetTelemetryKeys(e)
			before := fmt.Sprintf("%q|%q|%q|%q", h1, d1, l1, k1)
			errors.GetAllHints(c19Other)
			errors.FlattenHints(c19Other)
			errors.GetAllDetails(c19Other)
			errors.GetAllIssueLinks(c19Other)
			errors.GetTelemetryKeys(c19Other)
			errors.GetAllHints(d)
			if after := fmt.Sprintf("%q|%q|%q|%q", h1, d1, l1, k1); after != before {
				return fail("result-clobbered", "a list returned by GetAllHints/GetAllDetails/GetAllIssueLinks/GetTelemetryKeys changed after the same accessors were called for another error: %s", short(tm.FirstDiffStr(before, after)))
			}
			return ""
		})
	}
	visit := func(t *tm.Term) {
		ok := report(r, t, nil, eval)
		r.States += 2
		r.Transitions += int64(t.Depth()) + 1
		r.Evaluations++
		if ok {
			lm := modelLists(t.Model())
			k := len(lm.hints) + len(lm.details) + len(lm.links) + len(lm.tags) + len(lm.keys)
			if k >= 2 {
				r.Nontrivial++
			}
			r.Outcome(fmt.Sprintf("hints=%d details=%d links=%d tags=%d keys=%d", min(len(lm.hints), 3), min(len(lm.details), 3), min(len(lm.links), 3), min(len(lm.tags), 3), min(len(lm.keys), 3)))
		}
		if r.Evaluations%2999 == 1 {
			r.Sample(map[string]interface{}{"term": t.String()})
		}
	}
	if c.Replay != nil {
		eachTerm(c, r, p, visit)
		return
	}
	var base int64 = 1 << 40
	for d := 1; d <= listDepth; d++ {
		sp := tm.Space{Leaves: tm.Entries(lops, 1), Wraps: tm.Entries(wops, 1), Depth: d}
		_, done := sp.ForEach(func(i int64) bool { return c.Mine(base + i) }, c.Expired, func(i int64, t *tm.Term) {
			rawVariants(t, visit)
		})
		base += sp.Size()
		if !done {
			r.Cap("soft deadline in list space")
			return
		}
	}
	// long chains of hints (and details): every sequence of up to maxLen
	// WithHint layers over an alphabet of 6 texts, so that de-duplication
	// is exercised with up to 6 distinct texts in every order of first
	// occurrence and recurrence
	maxLen := 7
	if c.Thorough() {
		maxLen = 8
	}
	alpha := []string{"a", "b", "c", "d", "e", "f"}
	var idx int64 = 1 << 41
	for n := 1; n <= maxLen; n++ {
		total := 1
		for i := 0; i < n; i++ {
			total *= len(alpha)
		}
		for m := 0; m < total; m++ {
			idx++
			if !c.Mine(idx) {
				continue
			}
			if m&0xfff == 0 && c.Expired() {
				r.Cap("soft deadline in hint chains")
				return
			}
			// canonical sequences only: texts appear in alphabetical order of
			// first occurrence (renaming symmetry)
			x, seenMax, canon := m, -1, true
			seq := make([]int, n)
			for i := 0; i < n; i++ {
				seq[i] = x % len(alpha)
				x /= len(alpha)
				if seq[i] > seenMax+1 {
					canon = false
					break
				}
				if seq[i] > seenMax {
					seenMax = seq[i]
				}
			}
			if !canon {
				continue
			}
			names := []string{"GoNew"}
			for i := 0; i < n; i++ {
				if (m+i)%5 == 4 {
					names = append(names, "WithDetail")
				}
				names = append(names, "WithHint")
			}
			t := tm.T(names...)
			k := 0
			for cur := t; cur != nil; cur = cur.Kid {
				if cur.Op.Name == "WithHint" {
					cur.S[0] = alpha[seq[n-1-k]]
					k++
				}
			}
			visit(t)
		}
	}
	r.Count("hint_chain_max_len", int64(maxLen))
	// long chains with few recurrences: n distinct texts (n up to maxDistinct),
	// then a recurrence of the j-th one, then nothing / one new text / one new
	// text and a second recurrence (of the first, the same, the last old or the
	// new text). Every list size at which an implementation could switch its
	// de-duplication strategy is crossed, with the recurring text at every
	// position of the list built so far.
	maxDistinct := 11
	if c.Thorough() {
		maxDistinct = 16
	}
	var longChains int64
	for n := 1; n <= maxDistinct; n++ {
		for j := 0; j < n; j++ {
			tails := [][]int{{}, {n}, {n, 0}, {n, j}, {n, n - 1}, {n, n}}
			for ti, tail := range tails {
				idx++
				if !c.Mine(idx) {
					continue
				}
				if c.Expired() {
					r.Cap("soft deadline in long hint chains")
					return
				}
				seq := make([]int, 0, n+3)
				for i := 0; i < n; i++ {
					seq = append(seq, i)
				}
				seq = append(seq, j)
				seq = append(seq, tail...)
				names := []string{"GoNew"}
				for i := range seq {
					if (n+j+ti+i)%7 == 6 {
						names = append(names, "WithDetail")
					}
					names = append(names, "WithHint")
				}
				t := tm.T(names...)
				k := 0
				for cur := t; cur != nil; cur = cur.Kid {
					if cur.Op.Name == "WithHint" {
						cur.S[0] = fmt.Sprintf("t%d", seq[len(seq)-1-k])
						k++
					}
				}
				longChains++
				visit(t)
			}
		}
	}
	r.Count("hint_long_chain_max_distinct", int64(maxDistinct))
	r.Count("hint_long_chains", longChains)
	eachTerm(c, r, p, visit)
}
