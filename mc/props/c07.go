package props

import (
	goerrors "errors"
	"fmt"
	"strings"

	"github.com/cockroachdb/errors"

	"verif/mc/core"
	"verif/mc/tm"
)

func init() {
	core.Register(&core.Check{ID: "C07", Technique: "explicit-state exploration: every constructor composition with a hiding construct (barrier, secondary error, error-valued format argument, mark reference) at every position up to the bound, local and after transfer, on the real code; non-interference oracle: replacing the hidden sub-tree by a plain leaf with the same text changes no structural observer",
		Run: runC07})
}

// structural is the vector of cause-analysis observers.
func structural(e error, refs []tm.NamedErr, types []error) tm.Vec {
	var v tm.Vec
	for _, kv := range tm.Annotations(e) {
		// per-layer safe details and frames embed the stack of the
		// construction site (harness frames differ between the two builds)
		if strings.HasPrefix(kv.K, "safedetails[") || strings.HasPrefix(kv.K, "frames[") {
			continue
		}
		v = append(v, kv)
	}
	s := tm.ShapeOf(e)
	v = append(v, tm.KV{K: "shape.types", V: fmt.Sprint(s.Types())})
	v = append(v, tm.KV{K: "shape.count", V: fmt.Sprint(s.Count())})
	v = append(v, tm.KV{K: "error", V: e.Error()})
	v = append(v, tm.KV{K: "cause", V: fmt.Sprintf("%T|%s", errors.Cause(e), errors.Cause(e).Error())})
	v = append(v, tm.KV{K: "is", V: isVecNamed(e, refs)})
	for _, pr := range tm.AsProbes() {
		if pr.Name == "error" {
			continue
		}
		ok, val, _ := pr.Try(e, errors.As)
		if strings.HasPrefix(val, "0x") {
			val = "ptr"
		}
		v = append(v, tm.KV{K: "as:" + pr.Name, V: fmt.Sprintf("%v|%s", ok, val)})
	}
	for i, ty := range types {
		v = append(v, tm.KV{K: fmt.Sprintf("hastype[%d]:%T", i, ty), V: fmt.Sprint(errors.HasType(e, ty))})
	}
	v = append(v, tm.KV{K: "hasinterface:timeout", V: fmt.Sprint(errors.HasInterface(e, (*interface{ Timeout() bool })(nil)))})
	_, ok := errors.If(e, func(err error) (interface{}, bool) {
		_, is := err.(interface{ ErrorHint() string })
		return nil, is
	})
	v = append(v, tm.KV{K: "if:hinter", V: fmt.Sprint(ok)})
	return v
}

func isVecNamed(e error, refs []tm.NamedErr) string {
	var b strings.Builder
	for _, r := range refs {
		ok, p := tm.IsG(e, r.Err)
		switch {
		case p:
			b.WriteByte('!')
		case ok:
			b.WriteByte('1')
		default:
			b.WriteByte('0')
		}
	}
	return b.String()
}

// hidePos describes one hidden sub-tree of a term.
type hidePos struct {
	spine int    // position of the hiding op on the spine
	side  int    // -1: the wrapped cause (barrier); >=0: side argument index
	kind  string // barrier | barrier-newmsg | secondary | fmtarg | markref
}

func hidingPositions(t *tm.Term) []hidePos {
	var out []hidePos
	i := 0
	for c := t; c != nil; c, i = c.Kid, i+1 {
		if c.Op.HidesCause && c.Kid != nil {
			k := "barrier"
			if strings.Contains(c.Op.Name, "WithMessage") {
				k = "barrier-newmsg"
			}
			out = append(out, hidePos{i, -1, k})
		}
		if c.Op.Kind != tm.KMulti {
			for si := range c.Side {
				switch {
				case c.Op.SideIsReference:
					out = append(out, hidePos{i, si, "markref"})
				case c.Op.Name == "Newf_e" || c.Op.Name == "Wrapf_e" || c.Op.Name == "Newf_vw":
					out = append(out, hidePos{i, si, "fmtarg"})
				default:
					out = append(out, hidePos{i, si, "secondary"})
				}
			}
		}
	}
	return out
}

func spineAt(t *tm.Term, i int) *tm.Term {
	c := t
	for ; i > 0; i-- {
		c = c.Kid
	}
	return c
}

// withPlainHidden returns a copy of t where the hidden sub-tree at hp is
// replaced by a plain stdlib leaf carrying text.
func withPlainHidden(t *tm.Term, hp hidePos, text string) *tm.Term {
	v := t.Clone()
	at := spineAt(v, hp.spine)
	leaf := &tm.Term{Op: tm.OpByName["GoNew"], S: []string{text}}
	if hp.side < 0 {
		at.Kid = leaf
	} else {
		at.Side[hp.side] = leaf
	}
	return v
}

func hiddenTerm(t *tm.Term, hp hidePos) *tm.Term {
	at := spineAt(t, hp.spine)
	if hp.side < 0 {
		return at.Kid
	}
	return at.Side[hp.side]
}

func runC07(c *core.Ctx, r *core.Result) {
	p := plan{fullDepth: 3, coreDepth: 4, strDepth: 2, alphabet: tm.REGE, aliasSides: true}
	if c.Thorough() {
		p = plan{fullDepth: 4, coreDepth: 5, strDepth: 2, alphabet: tm.REGE, aliasSides: true}
	}
	r.Bounds = p.String() + "; every hidden position of every term (barrier cause, secondary error, error-valued format argument, mark reference); local and after hop_K (thorough: also hop_K^2)"
	r.Rule = "state = (term, hidden position, stage); non-trivial = the hidden sub-tree carries at least one annotation, sentinel or As-able type that a leaking accessor would pick up (its own structural vector differs from that of a plain leaf)"
	r.Assumptions = []string{"structural observers = Unwrap/Cause/UnwrapAll, Is over sentinels ∪ nodes of the hidden tree, As over 8 target types, HasType/HasInterface/If, every Get*/Has*/Is* accessor (tm.Annotations)"}
	sent := tm.Sentinels()
	eachTerm(c, r, p, func(t *tm.Term) {
		hps := hidingPositions(t)
		if len(hps) == 0 {
			return
		}
		variant := t.Depth() <= p.strDepth && nonDefaultStrings(t) != ""
		for _, hp := range hps {
			hp := hp
			if variant && hp.kind != "barrier-newmsg" {
				// string variants are explored for the replacement messages only
				continue
			}
			rich := false
			report(r, t, map[string]interface{}{"hidden_spine_pos": hp.spine, "hidden_side": hp.side}, func(t *tm.Term) string {
				return guarded("C07", func() string {
					// the position may have moved during minimisation
					var cur *hidePos
					for _, x := range hidingPositions(t) {
						if x.kind == hp.kind {
							x := x
							cur = &x
							break
						}
					}
					if cur == nil {
						return ""
					}
					H := hiddenTerm(t, *cur)
					hText := H.Model().Text
					if cur.kind == "barrier-newmsg" || cur.kind == "secondary" || cur.kind == "markref" {
						// the hidden text is not part of the result: any leaf will do
						hText = "verif other text"
					}
					plainT := withPlainHidden(t, *cur, hText)
					e := t.Build()
					e0 := plainT.Build()
					hObj := H.Build()
					if cur.kind == "barrier" || cur.kind == "barrier-newmsg" {
						// the barrier keeps its text whatever happens first: a twin that
						// is transferred before any of its methods is called arrives
						// with the text the local one shows
						cold, _ := tm.HopK(t.Build())
						if a, b := errText(cold), errText(e); a != b {
							return fail("cold-transfer-text:"+cur.kind, "a barrier transferred before any other use arrives with text %q, the same error used locally says %q", a, b)
						}
					}
					first := useOnce(e)
					if cur.kind == "barrier-newmsg" {
						// the message given to the constructor replaces the text, verbatim
						if got, want := errText(e), t.Model().Text; got != want {
							return fail("newmsg-text", "the barrier's message replaces the hidden error's text: Error() = %q, the constructor was given text making %q", got, want)
						}
					}
					var refs []tm.NamedErr
					refs = append(refs, sent...)
					var types []error
					for i, n := range tm.Nodes(hObj) {
						refs = append(refs, tm.NamedErr{Name: fmt.Sprintf("hidden.node[%d]", i), Err: n})
						types = append(types, n)
					}
					// is the hidden tree rich enough to be observable if it leaked?
					if structural(hObj, refs, types).Diff(structural(errors.UnwrapAll(e0), refs, types)) != "" {
						rich = true
					}
					if cur.kind == "markref" {
						// Mark affects Is by design: every accessor equals that of the
						// marked error, and Is(Mark(e,r), x) = Is(e,x) or x equivalent to r
						at := spineAt(t, cur.spine)
						inner := at.Kid.Build()
						ref := at.Side[0].Build()
						marked := at.Op.Build(at.S, inner, []error{ref})
						if d := stripOuter(tm.Annotations(inner)).Diff(stripOuter(tm.Annotations(marked))); d != "" {
							return fail("mark-accessor", "Mark changes an accessor of the marked error: %s", short(d))
						}
						// below another layer the mark reference must not become
						// part of the identity of the enclosing layers: two errors
						// that differ only in the reference they were marked with
						// have the same text and the same type chain
						other := at.Op.Build(at.S, at.Kid.Build(), []error{errors.New("verif another reference")})
						for _, ctx := range []func(error) error{errors.WithStack, func(e error) error { return errors.WithHint(e, "h") }} {
							a, b := ctx(marked), ctx(other)
							if ok, p := tm.IsG(a, b); !ok || p {
								return fail("mark-identity", "ctx(Mark(e, r1)) and ctx(Mark(e, r2)) are not equivalent although they have the same text and type chain (panic=%v)", p)
							}
						}
						// bystanders: errors with the reference's text and the
						// reference's outermost type over a different chain are not
						// equivalent to it
						rt := errText(ref)
						bystanders := []tm.NamedErr{
							{Name: "WithStack(stdlib leaf with the reference's text)", Err: errors.WithStack(goerrors.New(rt))},
							{Name: "WithStack(WithStack(stdlib leaf with the reference's text))", Err: errors.WithStack(errors.WithStack(goerrors.New(rt)))},
							{Name: "stdlib leaf with the reference's text", Err: goerrors.New(rt)},
							{Name: "WithMessage(stdlib leaf, \"\") with the reference's text", Err: errors.WithMessage(goerrors.New(rt), "")},
							{Name: "WithDomain(same text)", Err: errors.WithDomain(goerrors.New(rt), errors.GetDomain(ref))},
						}
						for _, x := range append(append([]tm.NamedErr{}, refs...), bystanders...) {
							base, _ := tm.IsG(inner, x.Err)
							got, _ := tm.IsG(marked, x.Err)
							want := base || tm.RefMark(x.Err) == tm.RefMark(ref)
							if got != want {
								return fail("mark-is", "Is(Mark(e, r), %s) = %v, want Is(e, x)=%v or x equivalent to r=%v", x.Name, got, base, tm.RefMark(x.Err) == tm.RefMark(ref))
							}
						}
						return ""
					}
					stages := []stage{
						{"local", func(e error) error { return e }},
						{"K", func(e error) error { d, _ := tm.HopK(e); return d }},
					}
					if c.Thorough() {
						stages = append(stages, stage{"KK", func(e error) error { d, _ := tm.HopK(e); d, _ = tm.HopK(d); return d }})
					}
					for _, st := range stages {
						a, b := st.get(e), st.get(e0)
						va, vb := structural(a, refs, types), structural(b, refs, types)
						if d := va.Diff(vb); d != "" {
							k := stripIdx(va.FirstKey(vb))
							if i := strings.IndexByte(k, ':'); i >= 0 {
								k = k[:i]
							}
							return fail("interference:"+cur.kind+":"+k+":"+st.name, "the hidden sub-tree influences a structural observer at stage %s (with hidden tree vs with a plain leaf of the same text): %s", st.name, short(d))
						}
						// visibility: the hidden error remains fully visible in %+v
						plain := fmt.Sprintf("%+v", errors.Formattable(a))
						if st.name == "local" {
							H.EachSlot(func(k int, o *tm.Term, i int) {})
						}
						// (a multi-line text is shown in pieces, entry by entry: the
						// token clause below covers it)
						for _, ln := range strings.Split(hObj.Error(), "\n") {
							if strings.Contains(hObj.Error(), "\n") {
								break
							}
							if ln != "" && !strings.Contains(plain, ln) {
								return fail("invisible:"+cur.kind+":"+st.name, "the hidden error's text %q is not shown by %%+v at stage %s", ln, st.name)
							}
						}
						// fully visible: every constructor string that %+v shows for
						// the hidden error on its own (same stage) is shown inside e
						// (same stage = the same number of hops: constructors
						// above the hidden position that transfer their argument count)
						hAlone := st.get(H.Build())
						for k, o := 0, t; k < cur.spine && o != nil; k, o = k+1, o.Kid {
							if o.Op.Name == "HopThenWrap" {
								hAlone, _ = tm.HopK(hAlone)
							}
						}
						alone := fmt.Sprintf("%+v", errors.Formattable(hAlone))
						for _, tk := range tokRe.FindAllString(alone, -1) {
							if !strings.Contains(plain, tk) {
								return fail("invisible-detail:"+cur.kind+":"+st.name, "%%+v of the hidden error alone shows its string %s, %%+v of the enclosing error at stage %s does not", tk, st.name)
							}
						}
					}
					// looking at the hidden payload does not consume it: the same
					// uses of the same object give the same results again
					if again := useOnce(e); again != first {
						return fail("use-changes-hidden:"+cur.kind, "rendering, collecting safe details, reporting and encoding the same error a second time gives a different result: %s", short(tm.FirstDiffStr(first, again)))
					}
					return ""
				})
			})
			r.States += 6
			r.Transitions += 4
			r.Evaluations++
			if rich {
				r.Nontrivial++
			}
			r.Outcome(hp.kind)
		}
		if r.Evaluations%1999 == 1 {
			r.Sample(map[string]interface{}{"term": t.String(), "hidden_positions": len(hps)})
		}
	})
}

// useOnce renders, collects the safe details of, reports and encodes e.
func useOnce(e error) string {
	var b strings.Builder
	fmt.Fprintf(&b, "%+v\n--\n", errors.Formattable(e))
	for _, p := range errors.GetAllSafeDetails(e) {
		fmt.Fprintf(&b, "%s %q\n", p.OriginalTypeName, p.SafeDetails)
	}
	ev, _ := errors.BuildSentryReport(e)
	fmt.Fprintf(&b, "--\n%s\n--\n%x", ev.Message, tm.Encode(e))
	return b.String()
}

// stripOuter drops nothing today: the accessor vector of Mark(e, r) has
// one more layer than that of e, so per-layer entries are compared only
// through the aggregated accessors (the per-layer keys differ in index
// and are filtered by the caller).
func stripOuter(v tm.Vec) tm.Vec {
	var o tm.Vec
	for _, kv := range v {
		if strings.HasPrefix(kv.K, "safedetails[") || strings.HasPrefix(kv.K, "frames[") {
			continue
		}
		// IsAssertionFailure / IsUnimplementedError / IsIssueLink look at
		// the outermost layer only, which is the Mark wrapper itself
		if kv.K == "isAssertion" || kv.K == "isUnimplemented" || kv.K == "isIssueLink" {
			continue
		}
		// the oserror predicates are defined through Is, which Mark changes by
		// design (Mark(e, os.ErrNotExist) makes os.IsNotExist true)
		if strings.HasPrefix(kv.K, "os.Is") {
			continue
		}
		o = append(o, kv)
	}
	return o
}
