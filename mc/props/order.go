package props

import (
	"fmt"
	"hash/fnv"
	"os"
	"sort"
	"strconv"
	"strings"
	"time"

	"github.com/cockroachdb/errors"

	"verif/mc/core"
	"verif/mc/tm"
)

// Order independence (a Post step of C11). What the accessors, the report and
// the encoder say about an error must not depend on which OTHER errors the
// process looked at before: a process-wide memo with a key coarser than the
// object (a stack rendered once per call site, a type name interned per
// message, ...) serves one error's data for another. The pool of terms is
// observed once front to back and once back to front, in two fresh
// processes, so that for every pair of pool terms each one is observed
// before the other in one of the runs; a third process repeats the first
// order and separates genuine order dependence from anything that differs
// between two runs of the same order (none is expected).

const orderArg = "order:"

func orderPool() []*tm.Term {
	var ts []*tm.Term
	for d := 1; d <= 2; d++ {
		sp := tm.Full(d)
		for i := int64(0); i < sp.Size(); i++ {
			ts = append(ts, sp.At(i))
		}
	}
	ts = append(ts, tm.Extras()...)
	return ts
}

// orderObservation is everything a term's error tells after transfer and
// locally: accessor vectors, wire bytes, report.
func orderObservation(t *tm.Term) (h int64, text string) {
	var b strings.Builder
	p := tm.Guard(func() {
		e := t.Build()
		for _, kv := range tm.Annotations(e) {
			fmt.Fprintf(&b, "%s=%s\n", kv.K, kv.V)
		}
		w := tm.Encode(e)
		d, _ := tm.HopK(e)
		for _, kv := range tm.Annotations(d) {
			fmt.Fprintf(&b, "hop:%s=%s\n", kv.K, kv.V)
		}
		ev, _ := errors.BuildSentryReport(d)
		fmt.Fprintf(&b, "wire=%x\nreport=%s\n", tm.BlankBarrierPayloads(w), ev.Message)
	})
	if p != nil {
		fmt.Fprintf(&b, "panic=%v", p)
	}
	f := fnv.New64a()
	f.Write([]byte(b.String()))
	return int64(f.Sum64() >> 1), b.String()
}

// runOrderWorker is the worker side: ctx.Arg = "order:fwd" | "order:rev" |
// "order:dump:<i>,<j>:<fwd|rev>" (prints the observation of term i made
// after term j was observed first or last: used to explain a difference).
func runOrderWorker(c *core.Ctx, r *core.Result) {
	pool := orderPool()
	mode := strings.TrimPrefix(c.Arg, orderArg)
	idx := make([]int, len(pool))
	for i := range idx {
		idx[i] = i
	}
	if strings.HasPrefix(mode, "rev") {
		for i, j := 0, len(idx)-1; i < j; i, j = i+1, j-1 {
			idx[i], idx[j] = idx[j], idx[i]
		}
	}
	r.Counters = map[string]int64{}
	for _, i := range idx {
		h, _ := orderObservation(pool[i])
		r.Counters["o"+strconv.Itoa(i)] = h
		r.States++
	}
}

func postC11(tier string, m *core.Result) {
	if os.Getenv("VERIF_REPLAY_FILE") != "" {
		return
	}
	for _, a := range os.Args {
		if a == "--replay" {
			return
		}
	}
	orderCheck(tier, m, -1)
}

// orderCheck runs the three processes and reports the order-dependent terms
// (only pool index `only` when >= 0: replay of one finding).
func orderCheck(tier string, m *core.Result, only int) {
	budget := 10 * time.Minute
	deadline := time.Now().Add(budget)
	run := func(mode string) map[string]int64 {
		res, errs := core.RunWorkers(os.Args[:1], "C11", tier, 1, core.Seed(), deadline, budget, "", orderArg+mode)
		if res[0] == nil {
			m.HarnessError("C11 order pass (%s) failed: %s", mode, errs[0])
			return nil
		}
		return res[0].Counters
	}
	fwd, fwd2, rev := run("fwd"), run("fwd"), run("rev")
	if fwd == nil || fwd2 == nil || rev == nil {
		return
	}
	pool := orderPool()
	var unstable, differing []int
	for i := range pool {
		k := "o" + strconv.Itoa(i)
		switch {
		case fwd[k] != fwd2[k]:
			unstable = append(unstable, i)
		case fwd[k] != rev[k]:
			differing = append(differing, i)
		}
	}
	m.States += int64(3 * len(pool))
	m.Transitions += int64(3 * len(pool))
	m.Count("order_pass_terms", int64(len(pool)))
	m.Count("order_pass_terms_unstable_between_identical_runs", int64(len(unstable)))
	m.Count("order_pass_terms_order_dependent", int64(len(differing)))
	if len(unstable) > 0 {
		m.HarnessError("C11 order pass: %d terms observe differently in two runs of the SAME order (first: %s): nondeterminism outside the explored dimension", len(unstable), pool[unstable[0]])
	}
	seen := map[string]bool{}
	sort.Ints(differing)
	for _, i := range differing {
		if only >= 0 && i != only {
			continue
		}
		key := "order-dependence|" + skeleton(pool[i])
		if seen[key] {
			continue
		}
		seen[key] = true
		m.Violate(key, fmt.Sprintf("what the accessors, the encoder and the report say about %s depends on which other errors the process observed before it (pool of %d terms observed front to back in one fresh process and back to front in another; %d terms differ)", pool[i], len(pool), len(differing)),
			map[string]interface{}{"order_pass": true, "term_index": i, "term": pool[i]})
	}
	if only >= 0 {
		return
	}
	m.Bounds += fmt.Sprintf("; order pass: the %d terms of A_full depth<=2 and the hand-picked ones observed (accessor vector locally and after one hop, wire bytes, report) front to back and back to front in fresh processes", len(pool))
}
