package props

import (
	"fmt"
	"strings"

	"github.com/cockroachdb/errors/errbase"

	"verif/mc/core"
	"verif/mc/tm"
)

func init() {
	core.Register(&core.Check{ID: "C12", Technique: "explicit-state exploration with retention tokens: every constructor composition up to the bound x stages {local, hop_K^k} on the real code; oracle: every safe token is present in the Sentry report or GetAllSafeDetails",
		Run: runC12})
}

// retained collects the outputs in which safe information must show up.
func retainedOutputs(e error) string {
	var b strings.Builder
	for _, o := range tm.SentryOutputs(e) {
		b.WriteString(o.S)
		b.WriteByte('\n')
	}
	for _, o := range tm.SafeDetailOutputs(e) {
		b.WriteString(o.S)
		b.WriteByte('\n')
	}
	return b.String()
}

// c12Alphabet: regular text plus strings whose token lies between a pair
// of redaction-marker runes (a constant message may contain them; it is
// declared safe as a whole).
var c12Alphabet = append(append([]string{}, tm.REG...), "‹x›", "a ‹b› c")

func runC12(c *core.Ctx, r *core.Result) {
	p := plan{fullDepth: 3, coreDepth: 4, strDepth: 2, alphabet: c12Alphabet, aliasSides: true}
	hops := 2
	if c.Thorough() {
		p = plan{fullDepth: 4, coreDepth: 5, strDepth: 2, alphabet: c12Alphabet, aliasSides: true}
		hops = 3
	}
	r.Bounds = fmt.Sprintf("%s; stages local and after hops 1..%d between knowing processes", p, hops)
	r.Rule = "state = (term, stage); non-trivial = the term has at least one safe slot (constant message / format, Safe() argument, telemetry key, domain, issue link, tag key); also counted: safe slots sitting behind a barrier or in a secondary error"
	r.Assumptions = []string{"safe slots per the library's documentation (tm/ops.go); the safe part of a user SafeFormatter and the operation names of os/net errors are not in the property's list and are not required after transfer"}
	eachTerm(c, r, p, func(t *tm.Term) {
		var safe []tm.SlotInfo
		for _, si := range t.SlotInfos() {
			if si.Safe && !si.NoRep && strings.Contains(si.Value, si.Token) {
				safe = append(safe, si)
			}
		}
		r.Evaluations++
		r.States += int64(hops) + 1
		r.Transitions += int64(hops)
		if len(safe) == 0 {
			return
		}
		ok := report(r, t, nil, func(t *tm.Term) string {
			return guarded("C12", func() string {
				var toks []tm.SlotInfo
				for _, si := range t.SlotInfos() {
					if si.Safe && !si.NoRep && strings.Contains(si.Value, si.Token) {
						toks = append(toks, si)
					}
				}
				e := t.Build()
				// stack frames are safe information too: every frame (file:line)
				// of every stack captured on the visible chain and its branches
				var frames []string
				for _, n := range tm.Nodes(e) {
					if sp, ok := n.(errbase.StackTraceProvider); ok {
						for _, fr := range sp.StackTrace() {
							s := fmt.Sprintf("%+v", fr)
							if i := strings.LastIndexByte(s, '\t'); i >= 0 {
								frames = append(frames, s[i+1:])
							}
						}
					}
				}
				for k := 0; k <= hops; k++ {
					if k > 0 {
						e, _ = tm.HopK(e)
					}
					// (redact escapes marker runes inside safe strings to "?": the
					// comparison is modulo that escaping)
					unmark := strings.NewReplacer("‹", "?", "›", "?")
					out := unmark.Replace(retainedOutputs(e))
					for _, fl := range frames {
						if !strings.Contains(out, fl) {
							return fail(fmt.Sprintf("frame-lost:hop%d", min(k, 2)), "the stack frame at %s, captured locally, is absent from the Sentry report and from GetAllSafeDetails after %d hop(s)", fl, k)
						}
					}
					for _, si := range toks {
						for _, line := range strings.Split(si.Value, "\n") {
							want := line
							if si.Fmt || si.Name == "domain" { // printf format, or rendered with %q by NamedDomain
								want = si.Token // the slot is a printf format: its text is not verbatim
							}
							if strings.Contains(line, si.Token) && !strings.Contains(out, unmark.Replace(want)) {
								return fail(fmt.Sprintf("lost:hop%d", min(k, 2)), "safe string %q (slot %s.%s): its line %q is absent from the Sentry report and from GetAllSafeDetails after %d hop(s) (the same object was reported before each hop)", si.Value, si.Op, si.Name, line, k)
							}
						}
					}
				}
				return ""
			})
		})
		if ok {
			r.Nontrivial++
		}
		r.Outcome(t.Op.Class)
		if r.Evaluations%2999 == 1 {
			r.Sample(map[string]interface{}{"term": t.String(), "safe_slots": len(safe)})
		}
	})
}
