package props

import (
	"fmt"
	"strings"

	"github.com/cockroachdb/errors"
	"github.com/cockroachdb/redact"

	"verif/mc/core"
	"verif/mc/tm"
)

func init() {
	core.Register(&core.Check{ID: "C06", Technique: "explicit-state exploration: every constructor composition up to the bound x every hostile string in every slot x states {local, decoded, opaque} x verbs on the real code; oracle: marker grammar per line, congruence with the plain rendering, refusal of unsupported verbs",
		Run: runC06})
}

// markerGrammar checks that markers alternate open/close, never nest and
// are balanced within every line. It returns "" or a description.
func markerGrammar(s string) string {
	open := false
	line := 1
	for _, r := range s {
		switch r {
		case '‹':
			if open {
				return fmt.Sprintf("nested open marker on line %d", line)
			}
			open = true
		case '›':
			if !open {
				return fmt.Sprintf("close marker without open marker on line %d", line)
			}
			open = false
		case '\n':
			if open {
				return fmt.Sprintf("marker still open at the end of line %d", line)
			}
			line++
		}
	}
	if open {
		return "marker still open at the end of the string"
	}
	return ""
}

func hasMarkerRunes(t *tm.Term) bool {
	found := false
	t.EachSlot(func(k int, o *tm.Term, i int) {
		if strings.ContainsAny(o.S[i], "‹›") {
			found = true
		}
	})
	return found
}

func isRegular(t *tm.Term) bool {
	ok := true
	t.EachSlot(func(k int, o *tm.Term, i int) {
		s := strings.ReplaceAll(o.S[i], tm.Token(k), "")
		if s == "" {
			return
		}
		reg := false
		for _, r := range tm.REG {
			if r == s {
				reg = true
			}
		}
		if !reg {
			ok = false
		}
	})
	return ok
}

func runC06(c *core.Ctx, r *core.Result) {
	p := plan{fullDepth: 3, coreDepth: 4, strDepth: 2, alphabet: tm.HOSTILE}
	if c.Thorough() {
		p = plan{fullDepth: 4, coreDepth: 5, strDepth: 2, pairDepth: 1, alphabet: tm.HOSTILE}
	}
	r.Bounds = p.String() + "; states local / decoded at a knowing process / opaque (decoded at a process that knows no type); verbs %v %s %+v (grammar, congruence) and %q %x %X (refusal)"
	r.Rule = "state = (term, strings, local|decoded|opaque, verb); non-trivial = the redactable rendering contains at least one marker pair; congruence is decided only for regular strings (the property's restriction)"
	stages := []stage{
		{"local", func(e error) error { return e }},
		{"decoded", func(e error) error { d, _ := tm.HopK(e); return d }},
		{"opaque", func(e error) error { w := tm.Encode(e); return tm.DecodeU(w, tm.WireKeys(w)) }},
	}
	eachTerm(c, r, p, func(t *tm.Term) {
		marked := false
		report(r, t, nil, func(t *tm.Term) string {
			return guarded("C06", func() string {
				e0 := t.Build()
				regular := isRegular(t)
				for _, st := range stages {
					e := st.get(e0)
					for _, verb := range []string{"%v", "%s", "%+v"} {
						rs := string(redact.Sprintf(verb, e))
						if g := markerGrammar(rs); g != "" {
							return fail("grammar:"+verb+":"+st.name, "redact.Sprintf(%q) at stage %s is not well-formed: %s: %q", verb, st.name, g, short(rs))
						}
						if strings.Contains(rs, "‹") {
							marked = true
						}
						if regular {
							plain := fmt.Sprintf(verb, errors.Formattable(e))
							if stripped := redact.RedactableString(rs).StripMarkers(); stripped != plain {
								return fail("congruence:"+verb+":"+st.name, "stripping the markers of redact.Sprintf(%q) at stage %s does not give the plain rendering:\n%q\nvs\n%q", verb, st.name, short(stripped), short(plain))
							}
						}
					}
					// rendering and encoding are read-only: whatever the strings
					// contain, the same error renders the same again afterwards
					firstV := string(redact.Sprintf("%+v", e))
					tm.Encode(e)
					if again := string(redact.Sprintf("%+v", e)); again != firstV {
						return fail("encode-changes-rendering:"+st.name, "after EncodeError the same error renders differently at stage %s: %s", st.name, short(tm.FirstDiffStr(firstV, again)))
					}
					rsS := string(redact.Sprint(e))
					if g := markerGrammar(rsS); g != "" {
						return fail("grammar:Sprint:"+st.name, "redact.Sprint at stage %s is not well-formed: %s: %q", st.name, g, short(rsS))
					}
					for _, verb := range []string{"%q", "%x", "%X"} {
						rs := string(redact.Sprintf(verb, e))
						if g := markerGrammar(rs); g != "" {
							return fail("grammar:"+verb+":"+st.name, "redact.Sprintf(%q) is not well-formed: %s: %q", verb, g, short(rs))
						}
						// refused: nothing of the error's content may be rendered
						// outside redaction markers
						red := string(redact.RedactableString(rs).Redact())
						for _, si := range t.SlotInfos() {
							if si.Value != "" && strings.Contains(si.Value, si.Token) && strings.Contains(red, si.Token) {
								return fail("unsupported-verb:"+verb, "redact.Sprintf(%q) renders error content outside markers instead of refusing the verb: %q", verb, short(rs))
							}
						}
						if !strings.Contains(rs, "%!"+verb[1:]+"(") {
							return fail("unsupported-verb-notation:"+verb, "redact.Sprintf(%q) = %q, expected the %%!verb(type) notation", verb, short(rs))
						}
					}
				}
				return ""
			})
		})
		r.States += int64(len(stages)) * 7
		r.Transitions += int64(len(stages))
		r.Evaluations++
		if marked {
			r.Nontrivial++
		}
		r.Outcome(t.Op.Class)
		if r.Evaluations%2999 == 1 {
			r.Sample(map[string]interface{}{"term": t.String()})
		}
	})
}
