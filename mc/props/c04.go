package props

import (
	"bytes"
	"fmt"
	"strings"

	"github.com/cockroachdb/errors"

	"verif/mc/core"
	"verif/mc/tm"
)

func init() {
	core.Register(&core.Check{ID: "C04", Technique: "explicit-state exploration of construct/transport histories with every subset of unknown types at the intermediary (registry-view hook, cross-validated by hook-free wire renaming) on the real code; differential oracle against the direct transfer",
		Run: runC04})
}

// sdVec renders per-layer type names, marks and safe details.
func sdVec(e error, withDetails bool) []string {
	var out []string
	for _, n := range tm.Nodes(e) {
		sd := errors.GetSafeDetails(n)
		s := sd.OriginalTypeName + "|" + sd.ErrorTypeMark.FamilyName + "|" + sd.ErrorTypeMark.Extension
		if withDetails {
			k := string(errors.GetTypeKey(n))
			if k != tm.BarrierKey && k != tm.SecondaryKey {
				s += fmt.Sprintf("|%q", sd.SafeDetails)
			}
		}
		out = append(out, s)
	}
	return out
}

// isVec evaluates Is against the sentinel pool and the given references.
func isVec(e error, refs []error) string {
	var b strings.Builder
	for _, s := range tm.Sentinels() {
		ok, p := tm.IsG(e, s.Err)
		if p {
			b.WriteByte('!')
		} else if ok {
			b.WriteByte('1')
		} else {
			b.WriteByte('0')
		}
	}
	for _, r := range refs {
		ok, p := tm.IsG(e, r)
		if p {
			b.WriteByte('!')
		} else if ok {
			b.WriteByte('1')
		} else {
			b.WriteByte('0')
		}
	}
	return b.String()
}

type c04Extra struct {
	S []string `json:"unknown_keys"`
}

func evalC04(t *tm.Term, S []string, allKeys bool, r *core.Result) string {
	return guarded("C04", func() string {
		e0 := t.Build()
		s0 := tm.ShapeOf(e0)
		w0 := tm.Encode(e0)
		// --- at the unknowing process
		var d error
		var w1 []byte
		var sdU []string
		tm.AtU(S, func() {
			d = tm.Decode(w0)
			w1 = tm.Encode(d)
			sdU = sdVec(d, true)
		})
		if d == nil {
			return fail("nil", "DecodeError returned nil at the unknowing process")
		}
		sU := tm.ShapeOf(d)
		if diff := s0.Diff(sU); diff != "" {
			return fail("text-at-U|text@"+typeTail(culprit(s0, sU)), "at a process that does not know %v the decoded error differs from the origin: %s", S, diff)
		}
		// every layer keeps the origin's type name and mark; layers the
		// process does not know keep the origin's safe details verbatim
		wl := tm.WireLayers(w0)
		var nodesU []error
		tm.AtU(S, func() { nodesU = tm.Nodes(d) })
		if len(wl) != len(nodesU) {
			return fail("layers-at-U", "%d layers on the wire but %d at the unknowing process", len(wl), len(nodesU))
		}
		for i, n := range nodesU {
			var sd errors.SafeDetailPayload
			tm.AtU(S, func() { sd = errors.GetSafeDetails(n) })
			if sd.OriginalTypeName != wl[i].TypeName || sd.ErrorTypeMark.FamilyName != wl[i].Family || sd.ErrorTypeMark.Extension != wl[i].Extension {
				return fail("typename-at-U|"+typeTail(wl[i].TypeName), "layer %d reports type %s mark %s::%s at the unknowing process, the origin sent %s %s::%s", i, sd.OriginalTypeName, sd.ErrorTypeMark.FamilyName, sd.ErrorTypeMark.Extension, wl[i].TypeName, wl[i].Family, wl[i].Extension)
			}
			if tm.IsOpaque(n) && fmt.Sprintf("%q", sd.SafeDetails) != fmt.Sprintf("%q", wl[i].Reportable) {
				return fail("details-at-U|"+typeTail(wl[i].TypeName), "opaque layer %d reports safe details %s, the origin sent %s", i, short(fmt.Sprintf("%q", sd.SafeDetails)), short(fmt.Sprintf("%q", wl[i].Reportable)))
			}
		}
		_ = sdU
		var verboseU string
		tm.AtU(S, func() { verboseU = fmt.Sprintf("%+v", errors.Formattable(d)) })
		if _, isFormatter := d.(fmt.Formatter); isFormatter && tm.IsOpaque(d) {
			var direct string
			tm.AtU(S, func() { direct = fmt.Sprintf("%+v", d) })
			if direct != verboseU {
				return fail("verbose-direct-at-U|"+typeTail(fmt.Sprintf("%T", d)), "%%+v of the opaque error itself differs from its rendering through Formattable at the unknowing process:\n%s\n-- vs --\n%s", short(direct), short(verboseU))
			}
		}
		for i, n := range nodesU {
			if !tm.IsOpaque(n) {
				continue
			}
			if !strings.Contains(verboseU, wl[i].TypeName) {
				return fail("verbose-at-U|"+typeTail(wl[i].TypeName), "%%+v at the unknowing process does not show the origin's type name %s of opaque layer %d", wl[i].TypeName, i)
			}
			for _, rp := range wl[i].Reportable {
				first := rp
				if k := strings.IndexByte(first, '\n'); k >= 0 {
					first = first[:k]
				}
				if first != "" && !strings.Contains(verboseU, first) {
					return fail("verbose-at-U|"+typeTail(wl[i].TypeName), "%%+v at the unknowing process does not show the safe detail %q of opaque layer %d (%s)", first, i, wl[i].TypeName)
				}
			}
		}
		// --- re-encoding reproduces the received message
		a, b := w0, w1
		exact := allKeys
		if !exact {
			a, b = tm.BlankBarrierPayloads(w0), tm.BlankBarrierPayloads(w1)
		}
		if !bytes.Equal(a, b) {
			f, fam, det := tm.WireDiff(a, b)
			// a hidden error (behind a barrier, secondary, ...) whose own text
			// changes at this process re-encodes differently inside the
			// payload: that is the text finding of the hidden error, seen from outside
			if c := hiddenTextCulprit(t, func(h error) error {
				var dh error
				wh := tm.Encode(h)
				tm.AtU(S, func() { dh = tm.Decode(wh) })
				return dh
			}); c != "" {
				return fail("reencode-at-U|text@"+typeTail(c), "re-encoding at the unknowing process (unknown: %v) changes field %s of layer %s because a hidden error of type %s shows a different text there: %s", S, f, fam, c, short(det))
			}
			return fail(fmt.Sprintf("reencode-at-U:%s@%s", f, typeTail(fam)), "re-encoding at the unknowing process (unknown: %v) does not reproduce the received message: field %s of layer %s: %s", S, f, fam, short(det))
		}
		// --- cross-validation of the two simulations of "unknowing"
		if len(S) > 0 {
			km := map[string]bool{}
			for _, k := range S {
				km[k] = true
			}
			d2 := tm.Decode(tm.RenameKeys(w0, km, false))
			if diff := sU.Diff(tm.ShapeOf(d2)); diff != "" {
				r.HarnessError("hook and wire-renaming simulations of the unknowing process disagree on %s (unknown %v): %s", t, S, diff)
			} else if wb := tm.RenameKeys(tm.Encode(d2), km, true); !bytes.Equal(tm.BlankBarrierPayloads(wb), tm.BlankBarrierPayloads(w1)) {
				f, fam, det := tm.WireDiff(tm.BlankBarrierPayloads(wb), tm.BlankBarrierPayloads(w1))
				r.HarnessError("hook and wire-renaming simulations re-encode differently on %s (unknown %v): %s@%s %s", t, S, f, fam, short(det))
			}
		}
		// --- the final knowing receiver
		f := tm.Decode(w1)
		direct := tm.Decode(w0)
		sf, sd := tm.ShapeOf(f), tm.ShapeOf(direct)
		if diff := sd.Diff(sf); diff != "" {
			return fail("final-text|text@"+typeTail(culprit(sd, sf)), "a knowing receiver behind the unknowing process sees a different error than by direct transfer: %s", diff)
		}
		if fmt.Sprint(sf.Types()) != fmt.Sprint(sd.Types()) {
			return fail("final-types", "Go types differ from direct transfer: %v vs %v", sf.Types(), sd.Types())
		}
		refs := tm.Nodes(e0)
		if a, b := isVec(f, refs), isVec(direct, refs); a != b {
			return fail("final-is", "Is vector differs from direct transfer: %s vs %s", a, b)
		}
		if dd := tm.Annotations(direct).Diff(tm.Annotations(f)); dd != "" {
			return fail("final-annotations:"+stripIdx(tm.Annotations(direct).FirstKey(tm.Annotations(f))), "annotations differ from direct transfer: %s", short(dd))
		}
		if a, b := fmt.Sprintf("%+v", f), fmt.Sprintf("%+v", direct); a != b {
			return fail("final-verbose", "%%+v differs from direct transfer:\n%s\n---- vs ----\n%s", short(a), short(b))
		}
		return ""
	})
}

// hiddenTextCulprit looks at every hidden sub-tree of t (barrier cause,
// secondary error, error-valued argument, mark reference) on its own: when
// one of them shows a different text after `transfer`, it returns the type
// of the layer whose text changes first ("" otherwise).
func hiddenTextCulprit(t *tm.Term, transfer func(error) error) string {
	var walk func(t *tm.Term) string
	walk = func(t *tm.Term) string {
		for _, hp := range hidingPositions(t) {
			H := hiddenTerm(t, hp)
			if H == nil {
				continue
			}
			h := H.Build()
			if h == nil {
				continue
			}
			s0 := tm.ShapeOf(h)
			if s1 := tm.ShapeOf(transfer(h)); s0.Diff(s1) != "" {
				return culprit(s0, s1)
			}
			if c := walk(H); c != "" {
				return c
			}
		}
		return ""
	}
	return walk(t)
}

func evalC04Ubar(t *tm.Term) string {
	return guarded("C04-Ubar", func() string {
		e0 := t.Build()
		s0 := tm.ShapeOf(e0)
		w0 := tm.HidePayloadTypes(tm.Encode(e0))
		d := tm.Decode(w0)
		sU := tm.ShapeOf(d)
		if diff := s0.Diff(sU); diff != "" {
			return fail("text-at-Ubar|text@"+typeTail(culprit(s0, sU)), "at a process that cannot unmarshal the payloads the decoded error differs from the origin: %s", diff)
		}
		if w1 := tm.Encode(d); !bytes.Equal(tm.BlankBarrierPayloads(w0), tm.BlankBarrierPayloads(w1)) {
			f, fam, det := tm.WireDiff(tm.BlankBarrierPayloads(w0), tm.BlankBarrierPayloads(w1))
			if c := hiddenTextCulprit(t, func(h error) error { return tm.Decode(tm.HidePayloadTypes(tm.Encode(h))) }); c != "" {
				return fail("reencode-at-Ubar|text@"+typeTail(c), "re-encoding at a process that cannot unmarshal the payloads changes field %s of layer %s because a hidden error of type %s shows a different text there: %s", f, fam, c, short(det))
			}
			return fail(fmt.Sprintf("reencode-at-Ubar:%s@%s", f, typeTail(fam)), "re-encoding at a process that cannot unmarshal the payloads does not reproduce the message: field %s of layer %s: %s", f, fam, short(det))
		}
		return ""
	})
}

func runC04(c *core.Ctx, r *core.Result) {
	p := plan{dupDepth: 2, fullDepth: 2, coreDepth: 3, strDepth: 2, alphabet: tm.REGE}
	subsetDepth := 2
	if c.Thorough() {
		p = plan{dupDepth: 2, fullDepth: 3, coreDepth: 4, strDepth: 2, alphabet: tm.REGE}
		subsetDepth = 3
	}
	r.Bounds = fmt.Sprintf("%s; for each tree every subset S of the wire's type keys (all 2^n for depth<=%d and n<=8, else {all, singletons}) as 'unknown at the intermediary'; plus the intermediary that cannot unmarshal any payload; history origin -> U(S) -> K compared with origin -> K", p, subsetDepth)
	r.Rule = "state = (term, S); non-trivial = S non-empty (some layer decoded to an opaque type at the intermediary)"
	r.Assumptions = []string{"an unknowing process is simulated by removing the keys from the registries (hook) and cross-validated by renaming family names on the wire; a disagreement is a harness error", "wire comparison is exact when S = all keys and modulo barrier reportable payloads otherwise (a process that knows the barrier type re-renders the hidden error)"}
	eachTerm(c, r, p, func(t *tm.Term) {
		keys := tm.WireKeys(tm.Encode(t.Build()))
		var subsets [][]string
		if c.Replay != nil {
			var rp struct {
				S []string `json:"unknown_keys"`
			}
			jsonUnmarshal(c.Replay, &rp)
			subsets = [][]string{rp.S}
		} else if nonDefaultStrings(t) != "" {
			// string variants: knowing, fully unknowing and payload-blind
			// intermediaries (the subsets were explored on the token variant)
			subsets = append(subsets, nil, keys)
		} else if t.Depth() <= subsetDepth && len(keys) <= 8 {
			tm.Subsets(keys, func(sub []string) { subsets = append(subsets, sub) })
		} else {
			subsets = append(subsets, nil, keys)
			for _, k := range keys {
				subsets = append(subsets, []string{k})
			}
		}
		for _, S := range subsets {
			S := S
			all := len(S) == len(keys)
			report(r, t, map[string]interface{}{"unknown_keys": S}, func(t *tm.Term) string {
				s2 := S
				if all {
					s2 = tm.WireKeys(tm.Encode(t.Build()))
				}
				return evalC04(t, s2, all, r)
			})
			r.States += 3
			r.Transitions += 3
			if len(S) > 0 {
				r.Nontrivial++
			}
		}
		report(r, t, map[string]interface{}{"unknown_keys": []string{"<payload types>"}}, evalC04Ubar)
		r.States += 2
		r.Transitions += 2
		r.Evaluations++
		r.Outcome(fmt.Sprintf("keys=%d", len(keys)))
		if r.Evaluations%499 == 1 {
			r.Sample(map[string]interface{}{"term": t.String(), "wire_keys": keys, "subsets": len(subsets)})
		}
	})
}
