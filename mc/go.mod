module verif/mc

go 1.19

require github.com/cockroachdb/errors v0.0.0

replace github.com/cockroachdb/errors => /repo

require (
	github.com/cockroachdb/datadriven v1.0.2
	github.com/cockroachdb/logtags v0.0.0-20230118201751-21c54148d20b
	github.com/cockroachdb/redact v1.1.5
	github.com/getsentry/sentry-go v0.27.0
	github.com/gogo/googleapis v1.4.1 // gogoproto 1.2-compatible, for CRDB
	github.com/gogo/protobuf v1.3.2
	github.com/gogo/status v1.1.0
	github.com/hydrogen18/memlistener v1.0.0
	github.com/kr/pretty v0.3.1
	github.com/pkg/errors v0.9.1
	github.com/stretchr/testify v1.8.2
	google.golang.org/grpc v1.56.3
	google.golang.org/protobuf v1.33.0
)

require (
	github.com/davecgh/go-spew v1.1.1 // indirect
	github.com/golang/protobuf v1.5.3 // indirect
	github.com/kr/text v0.2.0 // indirect
	github.com/pmezard/go-difflib v1.0.0 // indirect
	github.com/rogpeppe/go-internal v1.9.0 // indirect
	golang.org/x/net v0.23.0 // indirect
	golang.org/x/sys v0.18.0 // indirect
	golang.org/x/text v0.14.0 // indirect
	google.golang.org/genproto v0.0.0-20230410155749-daa745c078e1 // indirect
	gopkg.in/check.v1 v1.0.0-20201130134442-10cb98267c6c // indirect
	gopkg.in/yaml.v3 v3.0.1 // indirect
)
