package vermc

// ---- receiver-kind lineages: the rename also changes pointer <-> value ----
//
// Every other lineage keeps pointer receivers: all its names look like
// "*vermc.T". Here a rename also changes the receiver kind of the type: the
// previous name, given to RegisterTypeMigration as reflect.TypeOf(err).String()
// of the previous type as documented, has an asterisk iff the previous type
// was a pointer type, and the new type's own name has one iff it is a
// pointer type.
//
//	lineage recv-ptr-val-ptr:  *vermc.XPtrV0 -> vermc.XValV1 -> *vermc.XPtrV2
//	                           (differently renamed: vermc.XValAlt)
//	lineage recv-val-ptr-val:  vermc.YValV0 -> *vermc.YPtrV1 -> vermc.YValV2
//	                           (differently renamed: *vermc.YPtrAlt)
//
// The V1 processes cover pointer -> value and value -> pointer, the V2
// processes the 3-chains in both registration orders and the single-call
// declaration (pointer -> pointer resp. value -> value under another name).
// Value types have their methods on the value receiver; their instances are
// built, and decoded, as values. The wrapper type of a version has the same
// receiver kind as its leaf type.

type XPtrV0 struct{ Msg, Code string }

func (e *XPtrV0) Error() string            { return e.Msg }
func (e *XPtrV0) fields() (string, string) { return e.Msg, e.Code }

type XWPtrV0 struct {
	Msg, Code string
	Cause     error
}

func (e *XWPtrV0) Error() string            { return e.Msg + ": " + e.Cause.Error() }
func (e *XWPtrV0) Unwrap() error            { return e.Cause }
func (e *XWPtrV0) fields() (string, string) { return e.Msg, e.Code }

type XValV1 struct{ Msg, Code string }

func (e XValV1) Error() string            { return e.Msg }
func (e XValV1) fields() (string, string) { return e.Msg, e.Code }

type XWValV1 struct {
	Msg, Code string
	Cause     error
}

func (e XWValV1) Error() string            { return e.Msg + ": " + e.Cause.Error() }
func (e XWValV1) Unwrap() error            { return e.Cause }
func (e XWValV1) fields() (string, string) { return e.Msg, e.Code }

type XPtrV2 struct{ Msg, Code string }

func (e *XPtrV2) Error() string            { return e.Msg }
func (e *XPtrV2) fields() (string, string) { return e.Msg, e.Code }

type XWPtrV2 struct {
	Msg, Code string
	Cause     error
}

func (e *XWPtrV2) Error() string            { return e.Msg + ": " + e.Cause.Error() }
func (e *XWPtrV2) Unwrap() error            { return e.Cause }
func (e *XWPtrV2) fields() (string, string) { return e.Msg, e.Code }

type XValAlt struct{ Msg, Code string }

func (e XValAlt) Error() string            { return e.Msg }
func (e XValAlt) fields() (string, string) { return e.Msg, e.Code }

type XWValAlt struct {
	Msg, Code string
	Cause     error
}

func (e XWValAlt) Error() string            { return e.Msg + ": " + e.Cause.Error() }
func (e XWValAlt) Unwrap() error            { return e.Cause }
func (e XWValAlt) fields() (string, string) { return e.Msg, e.Code }

type YValV0 struct{ Msg, Code string }

func (e YValV0) Error() string            { return e.Msg }
func (e YValV0) fields() (string, string) { return e.Msg, e.Code }

type YWValV0 struct {
	Msg, Code string
	Cause     error
}

func (e YWValV0) Error() string            { return e.Msg + ": " + e.Cause.Error() }
func (e YWValV0) Unwrap() error            { return e.Cause }
func (e YWValV0) fields() (string, string) { return e.Msg, e.Code }

type YPtrV1 struct{ Msg, Code string }

func (e *YPtrV1) Error() string            { return e.Msg }
func (e *YPtrV1) fields() (string, string) { return e.Msg, e.Code }

type YWPtrV1 struct {
	Msg, Code string
	Cause     error
}

func (e *YWPtrV1) Error() string            { return e.Msg + ": " + e.Cause.Error() }
func (e *YWPtrV1) Unwrap() error            { return e.Cause }
func (e *YWPtrV1) fields() (string, string) { return e.Msg, e.Code }

type YValV2 struct{ Msg, Code string }

func (e YValV2) Error() string            { return e.Msg }
func (e YValV2) fields() (string, string) { return e.Msg, e.Code }

type YWValV2 struct {
	Msg, Code string
	Cause     error
}

func (e YWValV2) Error() string            { return e.Msg + ": " + e.Cause.Error() }
func (e YWValV2) Unwrap() error            { return e.Cause }
func (e YWValV2) fields() (string, string) { return e.Msg, e.Code }

type YPtrAlt struct{ Msg, Code string }

func (e *YPtrAlt) Error() string            { return e.Msg }
func (e *YPtrAlt) fields() (string, string) { return e.Msg, e.Code }

type YWPtrAlt struct {
	Msg, Code string
	Cause     error
}

func (e *YWPtrAlt) Error() string            { return e.Msg + ": " + e.Cause.Error() }
func (e *YWPtrAlt) Unwrap() error            { return e.Cause }
func (e *YWPtrAlt) fields() (string, string) { return e.Msg, e.Code }

var chainX = []*version{
	{label: "V0", leafProto: (*XPtrV0)(nil), wrapProto: (*XWPtrV0)(nil),
		newLeaf: func(m, c string) error { return &XPtrV0{m, c} },
		newWrap: func(m, c string, cause error) error { return &XWPtrV0{m, c, cause} }},
	{label: "V1", leafProto: XValV1{}, wrapProto: XWValV1{},
		newLeaf: func(m, c string) error { return XValV1{m, c} },
		newWrap: func(m, c string, cause error) error { return XWValV1{m, c, cause} }},
	{label: "V2", leafProto: (*XPtrV2)(nil), wrapProto: (*XWPtrV2)(nil),
		newLeaf: func(m, c string) error { return &XPtrV2{m, c} },
		newWrap: func(m, c string, cause error) error { return &XWPtrV2{m, c, cause} }},
}

var altX = &version{label: "Alt", leafProto: XValAlt{}, wrapProto: XWValAlt{},
	newLeaf: func(m, c string) error { return XValAlt{m, c} },
	newWrap: func(m, c string, cause error) error { return XWValAlt{m, c, cause} }}

var chainY = []*version{
	{label: "V0", leafProto: YValV0{}, wrapProto: YWValV0{},
		newLeaf: func(m, c string) error { return YValV0{m, c} },
		newWrap: func(m, c string, cause error) error { return YWValV0{m, c, cause} }},
	{label: "V1", leafProto: (*YPtrV1)(nil), wrapProto: (*YWPtrV1)(nil),
		newLeaf: func(m, c string) error { return &YPtrV1{m, c} },
		newWrap: func(m, c string, cause error) error { return &YWPtrV1{m, c, cause} }},
	{label: "V2", leafProto: YValV2{}, wrapProto: YWValV2{},
		newLeaf: func(m, c string) error { return YValV2{m, c} },
		newWrap: func(m, c string, cause error) error { return YWValV2{m, c, cause} }},
}

var altY = &version{label: "Alt", leafProto: (*YPtrAlt)(nil), wrapProto: (*YWPtrAlt)(nil),
	newLeaf: func(m, c string) error { return &YPtrAlt{m, c} },
	newWrap: func(m, c string, cause error) error { return &YWPtrAlt{m, c, cause} }}

const (
	recvPVPName = "recv-ptr-val-ptr"
	recvVPVName = "recv-val-ptr-val"
)

var recvKinds = []string{"leaf", "wrapper", "wrapped-leaf", "both"}

var (
	recvPVPLineage = &lineage{name: recvPVPName, chain: chainX, alt: altX, kinds: recvKinds, recvKind: true}
	recvVPVLineage = &lineage{name: recvVPVName, chain: chainY, alt: altY, kinds: recvKinds, recvKind: true}
)
