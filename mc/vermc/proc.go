package vermc

import (
	"context"
	"fmt"
	"strconv"
	"strings"

	"github.com/cockroachdb/errors"
	"github.com/cockroachdb/errors/errbase"
	"github.com/gogo/protobuf/proto"
)

// Proc is one process ("code version").
//
//	Ver = "V0"        the original code: knows name0, no migration
//	Ver = "V1".."V3"  code built after k renames: knows only the Go type V_k
//	                  and declares the chain name0->name1->...->name_k with
//	                  one RegisterTypeMigration call per rename step, the
//	                  calls being made in the sequence Order (step i is the
//	                  rename name_i -> name_i+1), or, with Direct, with the
//	                  single call name0 -> name_k
//	Ver = "Alt"       differently renamed code: name0 -> Alt
//	Ver = "unknowing" code that never knew the lineage (nor lineage U)
type Proc struct {
	Ver    string `json:"ver"`
	Order  []int  `json:"order,omitempty"`
	Direct bool   `json:"direct,omitempty"`
}

const unknowing = "unknowing"

func (p Proc) knows() bool { return p.Ver != unknowing }

// n is the length of the rename chain this process declares.
func (p Proc) n() int {
	switch p.Ver {
	case "V1", "Alt":
		return 1
	case "V2":
		return 2
	case "V3":
		return 3
	}
	return 0
}

// cur is the Go type that stands for lineage T in this process.
func (p Proc) cur() *version {
	switch p.Ver {
	case "Alt":
		return altT
	case unknowing:
		return nil
	}
	return chainT[p.n()]
}

func (p Proc) String() string {
	s := p.Ver
	if p.Direct {
		s += "(direct)"
	} else if len(p.Order) > 0 {
		s += "(order " + orderString(p.Order) + ")"
	}
	return s
}

func orderString(o []int) string {
	var parts []string
	for _, i := range o {
		parts = append(parts, strconv.Itoa(i))
	}
	return strings.Join(parts, ",")
}

// key is the part of a violation key that identifies the registration
// configuration at fault: chain length and registration order only. In a
// "chronological" order the renames are declared oldest first (A->B before
// B->C); "newest-first" is the exact reverse.
func (p Proc) key() string {
	switch {
	case p.Ver == unknowing:
		return "n=-|order=unknowing"
	case p.Ver == "V0":
		return "n=0|order=none"
	case p.Ver == "Alt":
		return "n=1|order=alt"
	case p.Direct:
		return fmt.Sprintf("n=%d|order=direct", p.n())
	}
	label := "mixed"
	chrono, rev := true, true
	for i, s := range p.Order {
		if s != i {
			chrono = false
		}
		if s != len(p.Order)-1-i {
			rev = false
		}
	}
	switch {
	case len(p.Order) == 1:
		label = "single"
	case chrono:
		label = "chronological"
	case rev:
		label = "newest-first"
	}
	return fmt.Sprintf("n=%d|order=%s:%s", p.n(), orderString(p.Order), label)
}

// valid says whether the spec is well formed (used on replay payloads).
func (p Proc) valid() bool {
	switch p.Ver {
	case "V0", "Alt", unknowing:
		return len(p.Order) == 0 && !p.Direct
	case "V1", "V2", "V3":
		if p.Direct {
			return len(p.Order) == 0
		}
		if len(p.Order) != p.n() {
			return false
		}
		seen := map[int]bool{}
		for _, s := range p.Order {
			if s < 0 || s >= p.n() || seen[s] {
				return false
			}
			seen[s] = true
		}
		return true
	}
	return false
}

// migCall is one RegisterTypeMigration call.
type migCall struct {
	prevName string
	newProto error
}

func (m migCall) String() string {
	return fmt.Sprintf("RegisterTypeMigration(%q, %T)", m.prevName, m.newProto)
}

// opts are configuration-wide registration options.
type opts struct {
	// Enc: processes also register explicit encoders for their types.
	Enc bool
	// UPos: the position, among the rename steps of lineage T, at which the
	// migration of the unrelated lineage U is declared (clamped).
	UPos int
}

// migrationCalls lists the RegisterTypeMigration calls of the process, in
// the sequence in which it makes them. Each rename step is declared for the
// leaf type and for the wrapper type (one binary, one migration table).
func (p Proc) migrationCalls(o opts) []migCall {
	if !p.knows() {
		return nil
	}
	var steps [][]migCall
	switch {
	case p.Ver == "Alt":
		steps = append(steps, []migCall{
			{chainT[0].leafName(), altT.leafProto},
			{chainT[0].wrapName(), altT.wrapProto}})
	case p.Direct:
		k := p.n()
		steps = append(steps, []migCall{
			{chainT[0].leafName(), chainT[k].leafProto},
			{chainT[0].wrapName(), chainT[k].wrapProto}})
	default:
		for _, i := range p.Order {
			steps = append(steps, []migCall{
				{chainT[i].leafName(), chainT[i+1].leafProto},
				{chainT[i].wrapName(), chainT[i+1].wrapProto}})
		}
	}
	u := []migCall{
		{chainU[0].leafName(), chainU[1].leafProto},
		{chainU[0].wrapName(), chainU[1].wrapProto}}
	pos := o.UPos
	if pos > len(steps) {
		pos = len(steps)
	}
	var calls []migCall
	for i, s := range steps {
		if i == pos {
			calls = append(calls, u...)
		}
		calls = append(calls, s...)
	}
	if pos >= len(steps) {
		calls = append(calls, u...)
	}
	return calls
}

func leafDecoderFor(v *version) errors.LeafDecoder {
	return func(_ context.Context, msg string, _ []string, _ proto.Message) error { return v.newLeaf(msg) }
}

func wrapDecoderFor(v *version) errors.WrapperDecoder {
	return func(_ context.Context, cause error, prefix string, _ []string, _ proto.Message) error {
		return v.newWrap(prefix, cause)
	}
}

// register performs the process's registrations on the current registries:
// first the migrations (in the process's order), then, as the documentation
// of RegisterTypeMigration demands, the decoders (and encoders) under the
// type key the library reports for the process's current types.
func (p Proc) register(o opts) {
	if !p.knows() {
		return
	}
	for _, m := range p.migrationCalls(o) {
		errors.RegisterTypeMigration(pkgPath, m.prevName, m.newProto)
	}
	for _, v := range []*version{p.cur(), chainU[1]} {
		lk, wk := errors.GetTypeKey(v.leafProto), errors.GetTypeKey(v.wrapProto)
		errors.RegisterLeafDecoder(lk, leafDecoderFor(v))
		errors.RegisterWrapperDecoder(wk, wrapDecoderFor(v))
		if o.Enc {
			errors.RegisterLeafEncoder(lk, func(_ context.Context, err error) (string, []string, proto.Message) {
				return err.Error(), nil, nil
			})
			errors.RegisterWrapperEncoder(wk, func(_ context.Context, err error) (string, []string, proto.Message) {
				return err.(prefixer).prefix(), nil, nil
			})
		}
	}
}

var pristine *errbase.VerifRegistrySnapshot

// inView runs fn in the process view of p: pristine registries plus p's
// registrations. The pristine registries are reinstalled afterwards. A
// panic (in the registrations or in fn) is returned, not propagated.
func inView(p Proc, o opts, fn func()) (panicked interface{}, inRegistration bool) {
	errbase.VerifInstallRegistries(pristine)
	defer errbase.VerifInstallRegistries(pristine)
	stage := 0
	defer func() {
		if x := recover(); x != nil {
			panicked, inRegistration = x, stage == 0
		}
	}()
	p.register(o)
	stage = 1
	fn()
	return nil, false
}

// guard runs fn and returns its panic value.
func guard(fn func()) (panicked interface{}) {
	defer func() {
		if x := recover(); x != nil {
			panicked = x
		}
	}()
	fn()
	return nil
}

// permutations returns all orders of 0..n-1 in lexicographic order.
func permutations(n int) [][]int {
	var out [][]int
	var rec func(cur []int, used []bool)
	rec = func(cur []int, used []bool) {
		if len(cur) == n {
			out = append(out, append([]int{}, cur...))
			return
		}
		for i := 0; i < n; i++ {
			if !used[i] {
				used[i] = true
				rec(append(cur, i), used)
				used[i] = false
			}
		}
	}
	rec(nil, make([]bool, n))
	return out
}

// knowingProcs is every process that has a name for lineage T: V0, every
// registration order of the chains of length 1..maxN, the single-call
// ("direct") declarations, and the differently renamed code.
func knowingProcs(maxN int) []Proc {
	ps := []Proc{{Ver: "V0"}}
	for n := 1; n <= maxN; n++ {
		for _, o := range permutations(n) {
			ps = append(ps, Proc{Ver: "V" + strconv.Itoa(n), Order: o})
		}
		if n >= 2 {
			ps = append(ps, Proc{Ver: "V" + strconv.Itoa(n), Direct: true})
		}
	}
	return append(ps, Proc{Ver: "Alt"})
}
