package vermc

import (
	"context"
	goerrors "errors"
	"fmt"
	"strconv"
	"strings"

	"github.com/cockroachdb/errors"
	"github.com/cockroachdb/errors/errbase"
	"github.com/cockroachdb/errors/errorspb"
	"github.com/gogo/protobuf/proto"
)

// Proc is one process ("code version").
//
//	Ver = "V0"        the original code: knows name0, no migration
//	Ver = "V1".."V3"  code built after k renames: knows only the Go type V_k
//	                  and declares the chain name0->name1->...->name_k with
//	                  one RegisterTypeMigration call per rename step, the
//	                  calls being made in the sequence Order (step i is the
//	                  rename name_i -> name_i+1), or, with Direct, with the
//	                  single call name0 -> name_k
//	Ver = "Alt"       differently renamed code: name0 -> Alt
//	Ver = "unknowing" code that never knew the lineage (nor lineage U)
//
// Obs lists the observation points of the process's start-up history: the
// registration sequence is a sequence of steps, and at point i (immediately
// before the i-th rename declaration of lineage T; point 0 is before the
// first) the process lets the library *see* its types: GetTypeKey,
// EncodeError and Is on instances of every Go type it has so far declared as
// the new type of a migration and of its current type. Observations must not
// change anything: the oracles are evaluated after all registrations and are
// the same with and without them (a library that memoizes what it computed
// from the migration table has to keep the memo consistent).
//
// NoDec: the process knows its version of the lineage and declares the
// migrations, but registers no decoder (and no encoder) for the lineage's
// types: what it receives stays opaque (opaqueLeaf / opaqueWrapper), while
// the errors it builds locally have its own Go types. Such a process is an
// intermediary or a receiver, never a sender.
//
// NoMig (version skew): the process has the Go type of its version (V1..V3
// or Alt) but declares NO migration for the lineage, e.g. because it lacks
// that entry: it names the type by its current name, on the wire and for its
// decoders. To a process that did declare the rename, that family name is
// the "new" name of one of its migrations and no decoder of its is keyed
// under it: what arrives stays opaque there and must be forwarded unchanged.
type Proc struct {
	Ver    string `json:"ver"`
	Order  []int  `json:"order,omitempty"`
	Direct bool   `json:"direct,omitempty"`
	Obs    []int  `json:"obs,omitempty"`
	NoDec  bool   `json:"nodec,omitempty"`
	NoMig  bool   `json:"nomig,omitempty"`
}

const unknowing = "unknowing"

func (p Proc) knows() bool { return p.Ver != unknowing }

// decodes tells whether the process decodes the lineage's types to Go types
// of its own (else they stay opaque).
func (p Proc) decodes() bool { return p.knows() && !p.NoDec }

// keyed is the version under whose names the process puts the lineage's
// types on the wire and registers its decoders (the model): the first name,
// or, without migration, its own.
func (p Proc) keyed(l *lineage) *version {
	if p.NoMig {
		return p.cur(l)
	}
	return l.chain[0]
}

// n is the length of the rename chain this process declares.
func (p Proc) n() int {
	switch p.Ver {
	case "V1", "Alt":
		return 1
	case "V2":
		return 2
	case "V3":
		return 3
	}
	return 0
}

// points is the number of observation points of the process: one before
// each of its rename declarations for lineage T.
func (p Proc) points() int {
	switch {
	case p.NoMig:
		return 0
	case p.Ver == "Alt" || p.Direct:
		return 1
	case p.Ver == "V0" || p.Ver == unknowing:
		return 0
	}
	return len(p.Order)
}

// plain is the same process without observation points.
func (p Proc) plain() Proc { p.Obs = nil; return p }

// cur is the Go type that stands for the lineage in this process.
func (p Proc) cur(l *lineage) *version {
	switch p.Ver {
	case "Alt":
		return l.alt
	case unknowing:
		return nil
	}
	return l.chain[p.n()]
}

// fits tells whether the process exists for the lineage.
func (p Proc) fits(l *lineage) bool {
	if p.NoDec && l.protoNative {
		// the proto-native leaf never has a decoder
		return false
	}
	if p.Ver == "Alt" {
		return l.alt != nil
	}
	return p.n() <= l.maxN()
}

func (p Proc) String() string {
	s := p.Ver
	if p.Direct {
		s += "(direct)"
	} else if len(p.Order) > 0 {
		s += "(order " + orderString(p.Order) + ")"
	}
	if len(p.Obs) > 0 {
		s += "[observes before step " + orderString(p.Obs) + "]"
	}
	if p.NoDec {
		s += "{no decoders}"
	}
	if p.NoMig {
		s += "{no migration declared}"
	}
	return s
}

func orderString(o []int) string {
	var parts []string
	for _, i := range o {
		parts = append(parts, strconv.Itoa(i))
	}
	return strings.Join(parts, ",")
}

// key is the part of a violation key that identifies the registration
// configuration at fault: chain length and registration order only. In a
// "chronological" order the renames are declared oldest first (A->B before
// B->C); "newest-first" is the exact reverse. "|no-decoder" is appended for a
// process that registers no decoder for the lineage; the order is
// "undeclared" for a process that declares no migration.
func (p Proc) key() string {
	if p.NoDec {
		return p.baseKey() + "|no-decoder"
	}
	return p.baseKey()
}

func (p Proc) baseKey() string {
	switch {
	case p.NoMig:
		return fmt.Sprintf("n=%d|order=undeclared", p.n())
	case p.Ver == unknowing:
		return "n=-|order=unknowing"
	case p.Ver == "V0":
		return "n=0|order=none"
	case p.Ver == "Alt":
		return "n=1|order=alt"
	case p.Direct:
		return fmt.Sprintf("n=%d|order=direct", p.n())
	}
	label := "mixed"
	chrono, rev := true, true
	for i, s := range p.Order {
		if s != i {
			chrono = false
		}
		if s != len(p.Order)-1-i {
			rev = false
		}
	}
	switch {
	case len(p.Order) == 1:
		label = "single"
	case chrono:
		label = "chronological"
	case rev:
		label = "newest-first"
	}
	return fmt.Sprintf("n=%d|order=%s:%s", p.n(), orderString(p.Order), label)
}

// valid says whether the spec is well formed (used on replay payloads).
func (p Proc) valid() bool {
	for i, o := range p.Obs {
		if o < 0 || o >= p.points() || (i > 0 && o <= p.Obs[i-1]) {
			return false
		}
	}
	if p.NoDec && !p.knows() {
		return false
	}
	if p.NoMig {
		return p.n() > 0 && len(p.Order) == 0 && !p.Direct && !p.NoDec
	}
	switch p.Ver {
	case "V0", "Alt", unknowing:
		return len(p.Order) == 0 && !p.Direct
	case "V1", "V2", "V3":
		if p.Direct {
			return len(p.Order) == 0
		}
		if len(p.Order) != p.n() {
			return false
		}
		seen := map[int]bool{}
		for _, s := range p.Order {
			if s < 0 || s >= p.n() || seen[s] {
				return false
			}
			seen[s] = true
		}
		return true
	}
	return false
}

// migCall is one RegisterTypeMigration call.
type migCall struct {
	prevPkg  string
	prevName string
	newProto error
	root     string // model: the first name of the lineage (type name)
}

// renameCalls declares the rename from -> to for every type of the version
// (one binary, one migration table), the way an application would: package
// path and type name as reflect gives them for the previous type.
func renameCalls(root, from, to *version) []migCall {
	cs := []migCall{
		{from.pkg(), from.leafName(), to.leafProto, root.leafName()},
		{from.pkg(), from.wrapName(), to.wrapProto, root.wrapName()}}
	if to.multiProto != nil {
		cs = append(cs, migCall{from.pkg(), from.multiName(), to.multiProto, root.multiName()})
	}
	return cs
}

func (m migCall) String() string {
	return fmt.Sprintf("RegisterTypeMigration(%q, %T)", m.prevName, m.newProto)
}

// opts are configuration-wide registration options.
type opts struct {
	// Enc: processes also register explicit encoders for their types.
	Enc bool
	// UPos: the position, among the rename steps of lineage T, at which the
	// migration of the unrelated lineage U is declared (clamped).
	UPos int
	// lin: the lineage the configuration is about.
	lin *lineage
}

// event is one step of a process's start-up history: a
// RegisterTypeMigration call, or an observation of the versions listed.
type event struct {
	call    *migCall
	observe []*version
}

// history lists the start-up history of the process: its
// RegisterTypeMigration calls in the sequence in which it makes them (each
// rename step is declared for the leaf type and for the wrapper type: one
// binary, one migration table) and, at the observation points, what it lets
// the library see.
func (p Proc) history(o opts) []event {
	if !p.knows() {
		return nil
	}
	type step struct {
		calls []migCall
		v     *version
	}
	var steps []step
	l := o.lin
	switch {
	case p.NoMig:
		// no rename of the lineage is declared
	case p.Ver == "Alt":
		steps = append(steps, step{renameCalls(l.chain[0], l.chain[0], l.alt), l.alt})
	case p.Direct:
		k := p.n()
		steps = append(steps, step{renameCalls(l.chain[0], l.chain[0], l.chain[k]), l.chain[k]})
	default:
		for _, i := range p.Order {
			steps = append(steps, step{renameCalls(l.chain[0], l.chain[i], l.chain[i+1]), l.chain[i+1]})
		}
	}
	u := step{renameCalls(chainU[0], chainU[0], chainU[1]), chainU[1]}
	pos := o.UPos
	if pos > len(steps) {
		pos = len(steps)
	}
	obs := map[int]bool{}
	for _, i := range p.Obs {
		obs[i] = true
	}
	var evs []event
	// seen: the current type, then every type declared so far as a new type
	seen := []*version{p.cur(l)}
	add := func(st step) {
		for i := range st.calls {
			evs = append(evs, event{call: &st.calls[i]})
		}
		if st.v != p.cur(l) {
			seen = append(seen, st.v)
		}
	}
	for i, st := range steps {
		if i == pos {
			add(u)
		}
		if obs[i] {
			evs = append(evs, event{observe: append([]*version{}, seen...)})
		}
		add(st)
	}
	if pos >= len(steps) {
		add(u)
	}
	return evs
}

// migrationCalls is the history without the observations.
func (p Proc) migrationCalls(o opts) []migCall {
	var calls []migCall
	for _, ev := range p.history(o) {
		if ev.call != nil {
			calls = append(calls, *ev.call)
		}
	}
	return calls
}

// observe lets the library see instances of the given versions' types: type
// key, encoding, identity. The results are not used.
func observe(vs []*version) {
	for _, v := range vs {
		l := v.newLeaf("seen", "c")
		w := v.newWrap("seen", "c", v.newLeaf("seen inside", "c"))
		_ = errors.GetTypeKey(l)
		_ = errors.GetTypeKey(w)
		_ = errors.EncodeError(context.Background(), w)
		_ = errors.Is(w, v.newWrap("seen", "c", v.newLeaf("seen inside", "c")))
		_ = errors.Is(errors.Wrap(l, "ctx"), v.newLeaf("seen", "c"))
		_ = errors.Is(v.newWrap("seen", "c", goerrors.New("root")), l)
		if v.multiProto != nil {
			m := v.newMulti("seen", "c", []error{goerrors.New("root"), l})
			_ = errors.GetTypeKey(m)
			_ = errors.EncodeError(context.Background(), m)
			_ = errors.Is(m, v.newMulti("seen", "c", nil))
		}
	}
}

// With encoders on, a type crosses the wire in a payload: the custom encoder
// puts its fields (the message and the code that Error() does not show) in
// an errorspb.StringsPayload, and the custom decoder rebuilds the Go type
// from the payload only; it fails (-> opaque error) when the payload is
// missing or is not the one of its role.
// A type of the marker lineage also puts its marker in the payload.
func payloadFor(role string, err error) proto.Message {
	m, c := err.(fielder).fields()
	d := []string{role, m, c}
	if k, ok := err.(errbase.TypeKeyMarker); ok {
		d = append(d, k.ErrorKeyMarker())
	}
	return &errorspb.StringsPayload{Details: d}
}

func fromPayload(role string, p proto.Message) (msg, code, mark string, ok bool) {
	sp, isSP := p.(*errorspb.StringsPayload)
	if !isSP || sp == nil || len(sp.Details) < 3 || len(sp.Details) > 4 || sp.Details[0] != role {
		return "", "", "", false
	}
	if len(sp.Details) == 4 {
		mark = sp.Details[3]
	}
	return sp.Details[1], sp.Details[2], mark, true
}

// registerCodecs registers the decoders (and, with encoders on, the
// encoders) of version v under the type keys the library reports for v's
// types. Without encoders the library's default encoding applies and the
// decoders rebuild the type from the message (the code is not transferred).
// A proto-native leaf type gets neither: it is its own payload.
func registerCodecs(v *version, enc bool) {
	lk, wk := errors.GetTypeKey(v.leafProto), errors.GetTypeKey(v.wrapProto)
	// marker lineage: the marker of an instance travels in the safe details
	// (default encoding: the types implement SafeDetails) or in the payload
	// (custom encoders); the decoders rebuild the instance with it.
	bySafe := func(sd []string) *version {
		if v.marked == nil {
			return v
		}
		if len(sd) == 0 {
			return v.marked("")
		}
		return v.marked(sd[0])
	}
	byMark := func(mark string) *version {
		if v.marked == nil {
			return v
		}
		return v.marked(mark)
	}
	if !enc {
		if !v.protoNative {
			errors.RegisterLeafDecoder(lk, func(_ context.Context, msg string, sd []string, _ proto.Message) error {
				return bySafe(sd).newLeaf(msg, "")
			})
		}
		errors.RegisterWrapperDecoder(wk, func(_ context.Context, cause error, prefix string, sd []string, _ proto.Message) error {
			return bySafe(sd).newWrap(prefix, "", cause)
		})
		if v.multiProto != nil {
			errors.RegisterMultiCauseDecoder(errors.GetTypeKey(v.multiProto), func(_ context.Context, causes []error, msg string, _ []string, _ proto.Message) error {
				return v.newMulti(msg, "", causes)
			})
		}
		return
	}
	if !v.protoNative {
		errors.RegisterLeafEncoder(lk, func(_ context.Context, err error) (string, []string, proto.Message) {
			return err.Error(), nil, payloadFor("leaf", err)
		})
		errors.RegisterLeafDecoder(lk, func(_ context.Context, _ string, _ []string, p proto.Message) error {
			if m, c, k, ok := fromPayload("leaf", p); ok {
				return byMark(k).newLeaf(m, c)
			}
			return nil
		})
	}
	errors.RegisterWrapperEncoder(wk, func(_ context.Context, err error) (string, []string, proto.Message) {
		m, _ := err.(fielder).fields()
		return m, nil, payloadFor("wrap", err)
	})
	errors.RegisterWrapperDecoder(wk, func(_ context.Context, cause error, _ string, _ []string, p proto.Message) error {
		if m, c, k, ok := fromPayload("wrap", p); ok {
			return byMark(k).newWrap(m, c, cause)
		}
		return nil
	})
	if v.multiProto != nil {
		mk := errors.GetTypeKey(v.multiProto)
		errors.RegisterMultiCauseEncoder(mk, func(_ context.Context, err error) (string, []string, proto.Message) {
			return err.Error(), nil, payloadFor("multi", err)
		})
		errors.RegisterMultiCauseDecoder(mk, func(_ context.Context, causes []error, _ string, _ []string, p proto.Message) error {
			if m, c, _, ok := fromPayload("multi", p); ok {
				return v.newMulti(m, c, causes)
			}
			return nil
		})
	}
}

// register performs the process's registrations on the current registries:
// first the migrations (in the process's order, with the observations of
// its history in between), then, as the documentation
// of RegisterTypeMigration demands, the decoders (and encoders) under the
// type key the library reports for the process's current types.
func (p Proc) register(o opts) {
	if !p.knows() {
		return
	}
	for _, ev := range p.history(o) {
		if ev.call != nil {
			errors.RegisterTypeMigration(ev.call.prevPkg, ev.call.prevName, ev.call.newProto)
		} else {
			observe(ev.observe)
		}
	}
	if !p.NoDec {
		registerCodecs(p.cur(o.lin), o.Enc)
	}
	registerCodecs(chainU[1], o.Enc)
}

var pristine *errbase.VerifRegistrySnapshot

// inView runs fn in the process view of p: pristine registries plus p's
// registrations. The pristine registries are reinstalled afterwards. A
// panic (in the registrations or in fn) is returned, not propagated.
func inView(p Proc, o opts, fn func()) (panicked interface{}, inRegistration bool) {
	errbase.VerifInstallRegistries(pristine)
	defer errbase.VerifInstallRegistries(pristine)
	stage := 0
	defer func() {
		if x := recover(); x != nil {
			panicked, inRegistration = x, stage == 0
		}
	}()
	p.register(o)
	stage = 1
	fn()
	return nil, false
}

// guard runs fn and returns its panic value.
func guard(fn func()) (panicked interface{}) {
	defer func() {
		if x := recover(); x != nil {
			panicked = x
		}
	}()
	fn()
	return nil
}

// permutations returns all orders of 0..n-1 in lexicographic order.
func permutations(n int) [][]int {
	var out [][]int
	var rec func(cur []int, used []bool)
	rec = func(cur []int, used []bool) {
		if len(cur) == n {
			out = append(out, append([]int{}, cur...))
			return
		}
		for i := 0; i < n; i++ {
			if !used[i] {
				used[i] = true
				rec(append(cur, i), used)
				used[i] = false
			}
		}
	}
	rec(nil, make([]bool, n))
	return out
}

// knowingProcs is every process that has a name for the lineage: V0, every
// registration order of the chains of length 1..maxN, the single-call
// ("direct") declarations, and the differently renamed code if there is one.
func knowingProcs(l *lineage) []Proc {
	ps := []Proc{{Ver: "V0"}}
	for n := 1; n <= l.maxN(); n++ {
		for _, o := range permutations(n) {
			ps = append(ps, Proc{Ver: "V" + strconv.Itoa(n), Order: o})
		}
		if n >= 2 {
			ps = append(ps, Proc{Ver: "V" + strconv.Itoa(n), Direct: true})
		}
	}
	if l.alt != nil {
		ps = append(ps, Proc{Ver: "Alt"})
	}
	return ps
}

// withObservations returns p with every subset of its observation points
// (the empty subset first).
func withObservations(p Proc) []Proc {
	n := p.points()
	var out []Proc
	for mask := 0; mask < 1<<n; mask++ {
		q := p
		q.Obs = nil
		for i := 0; i < n; i++ {
			if mask&(1<<i) != 0 {
				q.Obs = append(q.Obs, i)
			}
		}
		out = append(out, q)
	}
	return out
}

// observingProcs is every knowing process with every non-empty subset of
// its observation points.
func observingProcs(l *lineage) []Proc {
	var out []Proc
	for _, p := range knowingProcs(l) {
		out = append(out, withObservations(p)[1:]...)
	}
	return out
}

// withoutDecoders returns the processes with NoDec set.
func withoutDecoders(ps []Proc) []Proc {
	var out []Proc
	for _, p := range ps {
		p.NoDec = true
		out = append(out, p)
	}
	return out
}

// skewedProcs is the processes that have a later name of the lineage but
// declare no migration.
func skewedProcs(l *lineage) []Proc {
	var out []Proc
	for n := 1; n <= l.maxN(); n++ {
		out = append(out, Proc{Ver: "V" + strconv.Itoa(n), NoMig: true})
	}
	if l.alt != nil {
		out = append(out, Proc{Ver: "Alt", NoMig: true})
	}
	return out
}
