package vermc

// ---- marker lineage K: renamed types that implement ErrorKeyMarker ----
//
// errbase.TypeKeyMarker lets an error type extend its identity with a
// per-instance string (domains.withDomain does): getTypeDetails puts the
// family name (the type's name, or its ORIGINAL name if the type is the
// target of a RegisterTypeMigration) and the marker (the "extension") on the
// wire, and Is compares both. KLeafV0 -> KLeafV1 -> KLeafV2 (and KWrap...)
// are three names of one such type, KLeafAlt / KWrapAlt a different new name
// for the first. The marker is a field. It is neither in the message nor
// handed to decoders by the library, so the types make it travel the way
// withDomain does: as a safe detail (SafeDetails, default encoding) or in
// the payload (custom encoders), and the decoders rebuild the instance with
// it.
//
// Model: two instances are the same "type" for Is iff their markers are
// equal (and the names denote the same original name); on the wire the
// family name is the original name and the extension is the marker, whatever
// the version; GetTypeKey (family only) and the encoded mark agree.

const (
	markA = "tenant-7"
	markB = "tenant-8"
)

type KLeafV0 struct{ Msg, Code, Mark string }

func (e *KLeafV0) Error() string            { return e.Msg }
func (e *KLeafV0) fields() (string, string) { return e.Msg, e.Code }
func (e *KLeafV0) SafeDetails() []string    { return []string{e.Mark} }
func (e *KLeafV0) ErrorKeyMarker() string {
	if e == nil {
		return ""
	}
	return e.Mark
}

type KWrapV0 struct {
	Msg, Code, Mark string
	Cause           error
}

func (e *KWrapV0) Error() string            { return e.Msg + ": " + e.Cause.Error() }
func (e *KWrapV0) Unwrap() error            { return e.Cause }
func (e *KWrapV0) fields() (string, string) { return e.Msg, e.Code }
func (e *KWrapV0) SafeDetails() []string    { return []string{e.Mark} }
func (e *KWrapV0) ErrorKeyMarker() string {
	if e == nil {
		return ""
	}
	return e.Mark
}

type KLeafV1 struct{ Msg, Code, Mark string }

func (e *KLeafV1) Error() string            { return e.Msg }
func (e *KLeafV1) fields() (string, string) { return e.Msg, e.Code }
func (e *KLeafV1) SafeDetails() []string    { return []string{e.Mark} }
func (e *KLeafV1) ErrorKeyMarker() string {
	if e == nil {
		return ""
	}
	return e.Mark
}

type KWrapV1 struct {
	Msg, Code, Mark string
	Cause           error
}

func (e *KWrapV1) Error() string            { return e.Msg + ": " + e.Cause.Error() }
func (e *KWrapV1) Unwrap() error            { return e.Cause }
func (e *KWrapV1) fields() (string, string) { return e.Msg, e.Code }
func (e *KWrapV1) SafeDetails() []string    { return []string{e.Mark} }
func (e *KWrapV1) ErrorKeyMarker() string {
	if e == nil {
		return ""
	}
	return e.Mark
}

type KLeafV2 struct{ Msg, Code, Mark string }

func (e *KLeafV2) Error() string            { return e.Msg }
func (e *KLeafV2) fields() (string, string) { return e.Msg, e.Code }
func (e *KLeafV2) SafeDetails() []string    { return []string{e.Mark} }
func (e *KLeafV2) ErrorKeyMarker() string {
	if e == nil {
		return ""
	}
	return e.Mark
}

type KWrapV2 struct {
	Msg, Code, Mark string
	Cause           error
}

func (e *KWrapV2) Error() string            { return e.Msg + ": " + e.Cause.Error() }
func (e *KWrapV2) Unwrap() error            { return e.Cause }
func (e *KWrapV2) fields() (string, string) { return e.Msg, e.Code }
func (e *KWrapV2) SafeDetails() []string    { return []string{e.Mark} }
func (e *KWrapV2) ErrorKeyMarker() string {
	if e == nil {
		return ""
	}
	return e.Mark
}

type KLeafAlt struct{ Msg, Code, Mark string }

func (e *KLeafAlt) Error() string            { return e.Msg }
func (e *KLeafAlt) fields() (string, string) { return e.Msg, e.Code }
func (e *KLeafAlt) SafeDetails() []string    { return []string{e.Mark} }
func (e *KLeafAlt) ErrorKeyMarker() string {
	if e == nil {
		return ""
	}
	return e.Mark
}

type KWrapAlt struct {
	Msg, Code, Mark string
	Cause           error
}

func (e *KWrapAlt) Error() string            { return e.Msg + ": " + e.Cause.Error() }
func (e *KWrapAlt) Unwrap() error            { return e.Cause }
func (e *KWrapAlt) fields() (string, string) { return e.Msg, e.Code }
func (e *KWrapAlt) SafeDetails() []string    { return []string{e.Mark} }
func (e *KWrapAlt) ErrorKeyMarker() string {
	if e == nil {
		return ""
	}
	return e.Mark
}

// markerVersion builds the version whose instances carry the given marker.
func markerVersion(label, mark string, leafProto, wrapProto error,
	nl func(m, c, k string) error, nw func(m, c, k string, cause error) error) *version {
	v := &version{label: label, leafProto: leafProto, wrapProto: wrapProto,
		newLeaf: func(m, c string) error { return nl(m, c, mark) },
		newWrap: func(m, c string, cause error) error { return nw(m, c, mark, cause) }}
	v.marked = func(k string) *version {
		if k == mark {
			return v
		}
		return markerVersion(label, k, leafProto, wrapProto, nl, nw)
	}
	return v
}

// chainK[k] is the k-th name of the marker lineage; instances carry markA.
var chainK = []*version{
	markerVersion("V0", markA, (*KLeafV0)(nil), (*KWrapV0)(nil),
		func(m, c, k string) error { return &KLeafV0{m, c, k} },
		func(m, c, k string, cause error) error { return &KWrapV0{m, c, k, cause} }),
	markerVersion("V1", markA, (*KLeafV1)(nil), (*KWrapV1)(nil),
		func(m, c, k string) error { return &KLeafV1{m, c, k} },
		func(m, c, k string, cause error) error { return &KWrapV1{m, c, k, cause} }),
	markerVersion("V2", markA, (*KLeafV2)(nil), (*KWrapV2)(nil),
		func(m, c, k string) error { return &KLeafV2{m, c, k} },
		func(m, c, k string, cause error) error { return &KWrapV2{m, c, k, cause} }),
}

var altK = markerVersion("Alt", markA, (*KLeafAlt)(nil), (*KWrapAlt)(nil),
	func(m, c, k string) error { return &KLeafAlt{m, c, k} },
	func(m, c, k string, cause error) error { return &KWrapAlt{m, c, k, cause} })

const markerName = "marker"

var markerKinds = []string{"leaf", "wrapper", "wrapped-leaf", "both"}

var markerLineage = &lineage{name: markerName, chain: chainK, alt: altK, kinds: markerKinds, marker: true}
