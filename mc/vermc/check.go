package vermc

import (
	"context"
	"encoding/json"
	goerrors "errors"
	"fmt"
	"reflect"
	"sort"
	"strings"

	"github.com/cockroachdb/errors"
	"github.com/cockroachdb/errors/errbase"
	"github.com/gogo/protobuf/proto"

	"verif/mc/core"
)

func init() {
	core.Register(&core.Check{
		ID:        "C17",
		Technique: "explicit-state exploration of version-assignment x registration-order configurations on the real registries (bounded exhaustive)",
		Run:       runC17,
		// the registries are process-global and the space is small: one worker.
		Shards: func(string) int { return 1 },
	})
}

// Config is one point of the explored space (and the replay payload).
//
// The five scenarios documented in errbase/migrations.go are these points
// of the plain lineage (the documentation's "v1" is V0 here: the code with
// the original name; its "v2" is V1; its "v0" is the unknowing process):
//
//	scenario 1 forward   transfer leaf  sender V0            recv V1(order 0)
//	scenario 1 backward  transfer leaf  sender V1(order 0)   recv V0
//	scenario 2           transfer leaf  sender V1(order 0)   recv Alt
//	scenario 3           transfer leaf  sender V1(order 0)   mid V0         recv V1(order 0)
//	scenario 4           transfer leaf  sender V1(order 0)   mid unknowing  recv V1(order 0)
//	scenario 5           routes   leaf  sender V1(order 0)   sender2 V0     recv unknowing
//	                     (also: transfer leaf sender V1 recv unknowing, which
//	                     compares with the error that V0 sent directly)
type Config struct {
	// Phase: "process" (one process's registrations, no transfer),
	// "transfer" (sender -> intermediaries -> receiver), "routes" (two
	// senders -> one receiver that compares the two errors) or "mark"
	// (sender -> marking process -> receiver: the one intermediary takes
	// errors.Mark(a new error, the error it received) and sends that on; the
	// receiver compares it with its local instance).
	Phase string `json:"phase"`
	// Lineage: "" (the plain types) or "generic-int", "generic-named",
	// "generic-pointer" (instantiated generic types, renamed once), or
	// "proto-native" (a leaf type that is a protobuf message and has no
	// decoder; receivers are at the newest name only: types_proto.go), or
	// "marker" (types that implement ErrorKeyMarker: types_marker.go).
	Lineage string `json:"lineage,omitempty"`
	// Kind: "leaf" (a T leaf), "wrapper" (a T wrapper over a stdlib
	// errors.New leaf), "wrapped-leaf" (a T leaf under the library wrapper
	// errors.Wrap), "both" (a T wrapper over a T leaf), "multi" (a T
	// multi-cause error over a stdlib leaf and a T leaf), "mid-wrapper" (the
	// library wrapper errors.WithMessage over a T wrapper over a stdlib
	// leaf: the renamed wrapper is the middle layer of three).
	Kind    string `json:"kind,omitempty"`
	Proc    *Proc  `json:"proc,omitempty"`
	Sender  *Proc  `json:"sender,omitempty"`
	Mids    []Proc `json:"mids,omitempty"`
	Sender2 *Proc  `json:"sender2,omitempty"`
	Mids2   []Proc `json:"mids2,omitempty"`
	Recv    *Proc  `json:"recv,omitempty"`
	// Enc: every process registers custom encoders; the types then cross
	// the wire in a payload and the decoders need it.
	Enc  bool `json:"enc"`
	UPos int  `json:"upos"`
}

func (c *Config) lin() *lineage { return lineageByName(c.Lineage) }

func (c *Config) opts() opts { return opts{Enc: c.Enc, UPos: c.UPos, lin: c.lin()} }

func (c *Config) String() string {
	var b strings.Builder
	b.WriteString(c.Phase)
	if c.Lineage != "" {
		b.WriteString(" " + c.Lineage)
	}
	if c.Kind != "" {
		b.WriteString(" " + c.Kind)
	}
	route := func(s *Proc, mids []Proc) {
		b.WriteString(" " + s.String())
		for _, m := range mids {
			b.WriteString(" -> " + m.String())
		}
	}
	switch c.Phase {
	case "process":
		b.WriteString(" " + c.Proc.String())
	case "transfer":
		route(c.Sender, c.Mids)
		b.WriteString(" -> " + c.Recv.String())
	case "mark":
		b.WriteString(" " + c.Sender.String())
		for _, m := range c.Mids {
			b.WriteString(" -> errors.Mark taken at " + m.String())
		}
		b.WriteString(" -> " + c.Recv.String())
	case "routes":
		b.WriteString(" {")
		route(c.Sender, c.Mids)
		b.WriteString(" |")
		route(c.Sender2, c.Mids2)
		b.WriteString(" } -> " + c.Recv.String())
	}
	fmt.Fprintf(&b, " [encoders=%v upos=%d]", c.Enc, c.UPos)
	return b.String()
}

func (c *Config) procs() []Proc {
	var ps []Proc
	for _, p := range []*Proc{c.Proc, c.Sender, c.Sender2, c.Recv} {
		if p != nil {
			ps = append(ps, *p)
		}
	}
	ps = append(ps, c.Mids...)
	return append(ps, c.Mids2...)
}

// observes tells whether any process of the configuration has observation
// points in its start-up history.
func (c *Config) observes() bool {
	for _, p := range c.procs() {
		if len(p.Obs) > 0 {
			return true
		}
	}
	return false
}

// plain is the same configuration without any observation point.
func (c *Config) plain() *Config {
	d := *c
	pp := func(p *Proc) *Proc {
		if p == nil {
			return nil
		}
		q := p.plain()
		return &q
	}
	ps := func(ms []Proc) []Proc {
		var out []Proc
		for _, m := range ms {
			out = append(out, m.plain())
		}
		return out
	}
	d.Proc, d.Sender, d.Sender2, d.Recv = pp(c.Proc), pp(c.Sender), pp(c.Sender2), pp(c.Recv)
	d.Mids, d.Mids2 = ps(c.Mids), ps(c.Mids2)
	return &d
}

func (c *Config) maxN() int {
	n := 0
	for _, p := range c.procs() {
		if p.n() > n {
			n = p.n()
		}
	}
	return n
}

func (c *Config) valid() bool {
	l := c.lin()
	if l == nil {
		return false
	}
	for _, p := range c.procs() {
		if !p.valid() || !p.fits(l) {
			return false
		}
	}
	ok := func(p *Proc) bool { return p != nil }
	kindOK := false
	for _, k := range l.kinds {
		kindOK = kindOK || k == c.Kind
	}
	// the middle-layer kind is explored for the lineages with wrapper
	// decoders of the usual kind
	kindOK = kindOK || (c.Kind == kindMid && !l.protoNative)
	if l.protoNative && c.Phase != "process" && !(ok(c.Recv) && c.Recv.atNewest(l)) {
		// the only faithful receivers of the proto-native lineage
		return false
	}
	// version skew (a sender that declares no migration) is explored in the
	// routes phase only: the same skewed sender directly and through relays
	skew := false
	for _, p := range c.procs() {
		skew = skew || p.NoMig
	}
	if skew && c.Phase != "process" && !(c.Phase == "routes" && ok(c.Sender) && ok(c.Sender2) && c.Sender.NoMig && c.Sender2.NoMig && c.Sender2.Ver == c.Sender.Ver && !l.protoNative) {
		return false
	}
	// a process without decoders is never a sender
	sends := func(p *Proc) bool { return ok(p) && p.decodes() }
	switch c.Phase {
	case "process":
		return ok(c.Proc)
	case "transfer":
		return sends(c.Sender) && ok(c.Recv) && kindOK
	case "mark":
		return sends(c.Sender) && len(c.Mids) == 1 && ok(c.Recv) && kindOK && !l.protoNative
	case "routes":
		return sends(c.Sender) && sends(c.Sender2) && ok(c.Recv) && kindOK
	}
	return false
}

const (
	msgA  = "boom"
	msgB  = "bang"
	codeA = "E4711" // carried by the payload only: Error() does not show it
)

// buildT builds the T part of an error of the given kind with the types of
// version v: this is also the "local instance" a receiver compares with.
func buildT(kind string, v *version, msg string) error {
	switch kind {
	case "wrapper", kindMid:
		return v.newWrap(msg, codeA, goerrors.New("root"))
	case "both":
		return v.newWrap(msg, codeA, v.newLeaf("inner "+msg, codeA))
	case "multi":
		return v.newMulti(msg, codeA, []error{goerrors.New("root"), v.newLeaf("inner "+msg, codeA)})
	}
	return v.newLeaf(msg, codeA)
}

func buildFull(kind string, v *version, msg string) error {
	e := buildT(kind, v, msg)
	switch kind {
	case "wrapped-leaf":
		e = errors.Wrap(e, "ctx")
	case kindMid:
		e = errors.WithMessage(e, "outer")
	}
	return e
}

// kindMid: the renamed wrapper is the middle layer of three.
const kindMid = "mid-wrapper"

// spot is one T layer of an error of a given kind: where it is in the error
// and in the flattened list of wire layers, and which type of the version
// it is.
type spot struct {
	where string // outermost | middle | innermost | cause[1]
	role  string // leaf | wrap | multi
	idx   int    // wire position in the flattened layers: 0 first, 1 second, -1 last
}

// at is the index of the spot in a list of n wire layers.
func (s spot) at(n int) int {
	if s.idx < 0 {
		return n + s.idx
	}
	return s.idx
}

func spots(kind string) []spot {
	switch kind {
	case "leaf":
		return []spot{{"outermost", "leaf", 0}}
	case "wrapper":
		return []spot{{"outermost", "wrap", 0}}
	case kindMid:
		return []spot{{"middle", "wrap", 1}}
	case "wrapped-leaf":
		return []spot{{"innermost", "leaf", -1}}
	case "both":
		return []spot{{"outermost", "wrap", 0}, {"innermost", "leaf", -1}}
	case "multi":
		return []spot{{"outermost", "multi", 0}, {"cause[1]", "leaf", -1}}
	}
	return nil
}

func usesRole(kind, role string) bool {
	for _, s := range spots(kind) {
		if s.role == role {
			return true
		}
	}
	return false
}

// seen is what a process observes of one T layer of a decoded error.
type seen struct {
	typ     string
	code    string
	hasCode bool
	// marker lineage: the ErrorKeyMarker of the layer if it has one, and the
	// extension of its type mark (also defined for opaque layers)
	mark    string
	hasMark bool
	ext     string
}

// layerAt is the layer of e at the spot.
func layerAt(s spot, e error) error {
	switch s.where {
	case "outermost":
		return e
	case "middle":
		return errbase.UnwrapOnce(e)
	case "innermost":
		return errors.UnwrapAll(e)
	case "cause[1]":
		if cs := errbase.UnwrapMulti(e); len(cs) > 1 {
			return cs[1]
		}
	}
	return nil
}

func observeSpots(kind string, e error) []seen {
	var out []seen
	for _, s := range spots(kind) {
		at := layerAt(s, e)
		o := seen{typ: fmt.Sprintf("%T", at)}
		if f, ok := at.(fielder); ok {
			_, o.code = f.fields()
			o.hasCode = true
		}
		if k, ok := at.(errbase.TypeKeyMarker); ok {
			o.mark, o.hasMark = k.ErrorKeyMarker(), true
		}
		if o.hasMark || strings.HasPrefix(o.typ, "*errbase.opaque") {
			// (only these can have an extension; the others are spared the call)
			o.ext = errbase.GetTypeMark(at).Extension
		}
		out = append(out, o)
	}
	return out
}

// layer is what the wire says about one layer of an encoded error.
type layer struct {
	Family, Ext, OrigName, Msg string
	HasPayload                 bool
}

// layersOf flattens an encoded error: the wrapper chain, the leaf, then the
// layers of each cause of a multi-cause leaf.
func layersOf(enc *errors.EncodedError) []layer {
	var out []layer
	for {
		if w := enc.GetWrapper(); w != nil {
			out = append(out, layer{w.Details.ErrorTypeMark.FamilyName, w.Details.ErrorTypeMark.Extension, w.Details.OriginalTypeName, w.Message, w.Details.FullDetails != nil})
			enc = &w.Cause
			continue
		}
		if l := enc.GetLeaf(); l != nil {
			out = append(out, layer{l.Details.ErrorTypeMark.FamilyName, l.Details.ErrorTypeMark.Extension, l.Details.OriginalTypeName, l.Message, l.Details.FullDetails != nil})
			for _, c := range l.MultierrorCauses {
				out = append(out, layersOf(c)...)
			}
		}
		return out
	}
}

func families(ls []layer) []string {
	var out []string
	for _, l := range ls {
		f := l.Family
		if l.Ext != "" {
			f += "::" + l.Ext
		}
		out = append(out, short(f))
	}
	return out
}

// payloads says, for each T layer of the kind, whether the wire carries a
// payload for it.
func payloads(kind string, ls []layer) []bool {
	var out []bool
	for _, s := range spots(kind) {
		i := s.at(len(ls))
		out = append(out, i >= 0 && i < len(ls) && ls[i].HasPayload)
	}
	return out
}

// short strips this package's path from a key (messages only).
func short(key string) string { return strings.TrimPrefix(key, pkgPath+"/") }

// mine tells whether a type key names a type of this package.
func mine(key string) bool { return strings.HasPrefix(key, pkgPath+"/") }

// ref is the reference for one lineage and kind (see setupRefs).
type ref struct {
	fams      []string
	wire      []byte // V0's encoding, message msgA
	wireOther []byte // V0's encoding, message msgB
	wireU     []byte // an error of the unrelated lineage U, message msgA
	wireMarkB []byte // marker lineage: V0's encoding, message msgA, marker markB
}

var refs = map[string]*ref{}

func (c *Config) ref() *ref { return refs[c.Lineage+"|"+c.Kind] }

func tableString() string {
	t := errbase.VerifMigrationTable()
	var rows []string
	for k, v := range t {
		if mine(k) || mine(v) {
			rows = append(rows, short(k)+"=>"+short(v))
		}
	}
	sort.Strings(rows)
	return "{" + strings.Join(rows, " ") + "}"
}

// failure is one failed oracle clause, attributed to the process at which
// observation and model diverge.
type failure struct {
	clause string
	at     Proc
	msg    string
}

// run is the execution of one configuration.
type run struct {
	cfg    *Config
	lin    *lineage
	fails  []failure
	steps  int64 // encode / decode steps
	evals  int64 // oracle evaluations
	obs    map[string]interface{}
	broken bool // a step panicked: the pipeline cannot continue
	// prefix is put before the clause of every check: "second-transfer:"
	// while the second transfer from the receiver is judged.
	prefix string
}

func newRun(cfg *Config) *run {
	return &run{cfg: cfg, lin: cfg.lin(), obs: map[string]interface{}{}}
}

func (x *run) fail(clause string, at Proc, f string, a ...interface{}) {
	x.fails = append(x.fails, failure{x.prefix + clause, at, fmt.Sprintf(f, a...)})
}

func (x *run) check(ok bool, clause string, at Proc, f string, a ...interface{}) {
	x.evals++
	if !ok {
		x.fail(clause, at, f, a...)
	}
}

func (x *run) view(p Proc, stage string, fn func()) bool {
	pv, inReg := inView(p, x.cfg.opts(), fn)
	if pv == nil {
		return true
	}
	x.broken = true
	if inReg {
		x.fail("register-panic", p, "the registrations of %s panic: %v", p, pv)
	} else {
		x.fail("panic-"+stage, p, "%s at %s panics: %v", stage, p, pv)
	}
	return false
}

func isG(e, ref error) (res bool, pv interface{}) {
	pv = guard(func() { res = errors.Is(e, ref) })
	return
}

// arrival is an encoded error in transit with what the wire says about it.
type arrival struct {
	wire []byte
	fams []string
	pay  []bool // per T layer: does the wire carry a payload
	text string // the sender's Error()
	// by: the version under whose names the T layers are keyed on the wire
	// (model): the first name, or the sender's own if it declares no migration
	by *version
	// layers: everything the wire says, layer by layer
	layers []layer
}

// wantFams is the model of the family names on the wire for an error of the
// configured kind whose T layers are keyed under the names of version by.
func (x *run) wantFams(by *version) []string {
	rf := x.cfg.ref().fams
	if by == x.lin.chain[0] {
		return rf
	}
	out := append([]string{}, rf...)
	for _, s := range spots(x.cfg.Kind) {
		if i := s.at(len(out)); i >= 0 && i < len(out) {
			out[i] = short(modelKey(by.typeOf(s.role).String()))
			if x.lin.marker {
				out[i] += "::" + markA
			}
		}
	}
	return out
}

// checkPayloadOnWire: with encoders on, every T layer crosses the wire with
// the payload its encoder returned; without, with none. A proto-native leaf
// is its own payload, with or without encoders for the other types.
func (x *run) checkPayloadOnWire(p Proc, role string, pay []bool) {
	for i, s := range spots(x.cfg.Kind) {
		want := x.cfg.Enc
		if x.lin.protoNative && s.role == "leaf" {
			x.check(pay[i], "payload", p,
				"%s %s puts the %s layer (the proto-native leaf, a proto.Message without encoder) on the wire with payload=%v; the error itself must be the payload",
				role, p, s.where, pay[i])
			continue
		}
		x.check(pay[i] == want, "payload", p,
			"%s %s puts the %s layer (its %s type) on the wire with payload=%v; with encoders=%v the custom encoder registered under GetTypeKey of that type must have been used=%v",
			role, p, s.where, s.role, pay[i], want, want)
	}
}

// send encodes, under the view of process s, an error of the configured
// kind built with s's own types.
func (x *run) send(s Proc, msg string, tag string) (a arrival) {
	kind, root := x.cfg.Kind, x.lin.chain[0]
	cur := s.cur(x.lin)
	tk := map[string]string{}
	var table string
	var merr error
	type agree struct {
		where, key, fam, ext, wireFam, wireExt string
	}
	var agrees []agree
	if !x.view(s, "encode", func() {
		e := buildFull(kind, cur, msg)
		a.text = e.Error()
		for _, tp := range cur.protos() {
			tk[tp.role] = string(errors.GetTypeKey(tp.proto))
		}
		table = tableString()
		enc := errors.EncodeError(context.Background(), e)
		ls := layersOf(&enc)
		if x.lin.marker {
			for _, sp := range spots(kind) {
				at, i := layerAt(sp, e), sp.at(len(ls))
				if at == nil || i < 0 || i >= len(ls) {
					continue
				}
				m := errbase.GetTypeMark(at)
				agrees = append(agrees, agree{sp.where, string(errors.GetTypeKey(at)), m.FamilyName, m.Extension, ls[i].Family, ls[i].Ext})
			}
		}
		a.fams, a.pay, a.layers = families(ls), payloads(kind, ls), ls
		a.wire, merr = proto.Marshal(&enc)
	}) {
		return arrival{}
	}
	x.steps++
	if merr != nil {
		x.broken = true
		x.fail("marshal", s, "proto.Marshal of the encoded error fails: %v", merr)
		return arrival{}
	}
	x.obs["wire_families"+tag] = a.fams
	// (a) the wire key is name0's key, whatever the version and the order
	// (a sender that declares no migration: its own name)
	a.by = s.keyed(x.lin)
	root = a.by
	want := x.wantFams(a.by)
	x.check(reflect.DeepEqual(a.fams, want), "wirekey", s,
		"sender %s encodes the error under the family names %v; the original code (and the model: every name of the type denotes name0, unless no migration is declared) uses %v. GetTypeKey of its leaf type = %s, of its wrapper type = %s; its migration table: %s",
		s, a.fams, want, short(tk["leaf"]), short(tk["wrap"]), table)
	for _, tp := range cur.protos() {
		if !usesRole(kind, tp.role) {
			continue
		}
		cn, rn := cur.typeOf(tp.role).String(), root.typeOf(tp.role).String()
		x.check(tk[tp.role] == modelKey(rn), "typekey", s,
			"GetTypeKey(%s) under the view of %s is %s, want the original name %s; migration table: %s",
			cn, s, short(tk[tp.role]), rn, table)
	}
	// marker lineage: GetTypeKey (family only), GetTypeMark and the encoded
	// mark of an instance agree; the extension is the instance's marker
	for _, g := range agrees {
		x.check(g.key == g.wireFam && g.fam == g.wireFam && g.ext == g.wireExt && g.wireExt == markA, "mark-agree", s,
			"at sender %s, the %s layer (marker %q): GetTypeKey = %s, GetTypeMark = %s::%s, but it is encoded under %s::%s",
			s, g.where, markA, short(g.key), short(g.fam), g.ext, short(g.wireFam), g.wireExt)
	}
	x.checkPayloadOnWire(s, "sender", a.pay)
	return a
}

// checkDecoded applies oracle (b) to an error decoded by process p: every T
// layer has p's own Go type (an opaque type if p is unknowing), the text is
// the sender's, and with encoders on the payload-carried field arrived.
func (x *run) checkDecoded(p Proc, role string, got []seen, gotText string, a arrival) {
	kind := x.cfg.Kind
	for i, s := range spots(kind) {
		if x.lin.marker {
			// the extension of the layer's type mark is the sender's marker,
			// decoded or opaque
			x.check(got[i].ext == markA, "marker", p,
				"%s %s: the type mark of the %s layer of the decoded error (a %s) has the extension %q, the sender's instance had the marker %q",
				role, p, s.where, got[i].typ, got[i].ext, markA)
		}
		if !p.decodes() || p.keyed(x.lin) != a.by {
			who := "unknowing"
			switch {
			case p.NoDec:
				who = "decoder-less"
			case p.knows():
				who = "differently keyed (its decoders are under " + p.keyed(x.lin).typeOf(s.role).String() + ", the layer arrives under " + a.by.typeOf(s.role).String() + ")"
			}
			x.check(strings.HasPrefix(got[i].typ, "*errbase.opaque"), "decode-type", p,
				"the %s %s %s decodes the %s layer to a %s, want an opaque type", who, role, p, s.where, got[i].typ)
			continue
		}
		if s.role == "leaf" && p.payloadOpaque(x.lin) {
			x.check(got[i].typ == "*errbase.opaqueLeaf", "decode-type", p,
				"%s %s, whose binary does not have the message type of the proto-native leaf linked in and has no decoder for it, decodes the %s layer to a %s, want *errbase.opaqueLeaf",
				role, p, s.where, got[i].typ)
			continue
		}
		want := p.cur(x.lin).typeOf(s.role).String()
		x.check(got[i].typ == want, "decode-type", p,
			"%s %s decodes the %s layer of the error (arriving under the family names %v, payloads %v) to a %s; it must decode it to its own type %s",
			role, p, s.where, a.fams, a.pay, got[i].typ, want)
		if x.lin.marker && got[i].typ == want {
			x.check(got[i].hasMark && got[i].mark == markA, "marker", p,
				"%s %s: ErrorKeyMarker() of the %s layer is %q after the transfer, the sender's instance had %q",
				role, p, s.where, got[i].mark, markA)
		}
		if (x.cfg.Enc || (x.lin.protoNative && s.role == "leaf")) && got[i].typ == want {
			x.check(got[i].hasCode && got[i].code == codeA, "payload", p,
				"%s %s: the field carried by the payload of the %s layer is %q after the transfer, the sender had %q",
				role, p, s.where, got[i].code, codeA)
		}
	}
	x.check(gotText == a.text, "text", p, "%s %s: Error() = %q, the sender had %q", role, p, gotText, a.text)
}

func decodeWire(wire []byte) (error, error) {
	var enc errors.EncodedError
	if err := proto.Unmarshal(wire, &enc); err != nil {
		return nil, err
	}
	return errors.DecodeError(context.Background(), enc), nil
}

// decodeAt is decodeWire at process p: if the payload of the proto-native
// leaf is opaque at p, it arrives under a message name that is not linked in
// (masked counts the payloads concerned).
func (x *run) decodeAt(p Proc, wire []byte) (e error, masked int, err error) {
	if !p.payloadOpaque(x.lin) {
		e, err = decodeWire(wire)
		return e, 0, err
	}
	var enc errors.EncodedError
	if err = proto.Unmarshal(wire, &enc); err != nil {
		return nil, 0, err
	}
	masked = maskPayload(&enc)
	return errors.DecodeError(context.Background(), enc), masked, nil
}

// relay decodes and re-encodes under the view of the intermediary m.
func (x *run) relay(m Proc, a arrival) arrival {
	kind := x.cfg.Kind
	var got []seen
	var gotText string
	out := arrival{text: a.text, by: a.by}
	var uerr, merr error
	masked, unmasked := 0, 0
	var table string
	if !x.view(m, "relay", func() {
		var e error
		if e, masked, uerr = x.decodeAt(m, a.wire); uerr != nil {
			return
		}
		table = tableString()
		got = observeSpots(kind, e)
		gotText = e.Error()
		enc := errors.EncodeError(context.Background(), e)
		unmasked = unmaskPayload(&enc)
		ls := layersOf(&enc)
		out.fams, out.pay, out.layers = families(ls), payloads(kind, ls), ls
		out.wire, merr = proto.Marshal(&enc)
	}) {
		return arrival{}
	}
	x.steps += 2
	if uerr != nil || merr != nil {
		x.broken = true
		x.fail("marshal", m, "protobuf round trip at %s fails: %v %v", m, uerr, merr)
		return arrival{}
	}
	x.checkDecoded(m, "intermediary", got, gotText, a)
	if m.payloadOpaque(x.lin) {
		x.check(masked == 1 && unmasked == masked, "payload", m,
			"intermediary %s, to which the payload of the proto-native leaf is opaque, received %d such payload(s) and forwards %d; it must forward the one it received", m, masked, unmasked)
	}
	// (d) re-encoding preserves the wire key
	x.check(reflect.DeepEqual(out.fams, a.fams), "reencode", m,
		"intermediary %s received the family names %v and forwards %v", m, a.fams, out.fams)
	// a layer that stayed opaque at m is forwarded exactly as it arrived
	if len(a.layers) == len(out.layers) {
		for i, s := range spots(kind) {
			if j := s.at(len(out.layers)); j >= 0 && j < len(out.layers) && strings.HasPrefix(got[i].typ, "*errbase.opaque") {
				x.check(a.layers[j] == out.layers[j], "reencode", m,
					"intermediary %s, at which the %s layer stayed opaque (%s), received it as %+v and forwards it as %+v; its migration table: %s",
					m, s.where, got[i].typ, a.layers[j], out.layers[j], table)
			}
		}
	}
	x.checkPayloadOnWire(m, "intermediary", out.pay)
	return out
}

// route runs sender and intermediaries; it returns what arrives.
func (x *run) route(s Proc, mids []Proc, msg, tag string) arrival {
	a := x.send(s, msg, tag)
	for _, m := range mids {
		if x.broken {
			return a
		}
		a = x.relay(m, a)
	}
	return a
}

// isObs is one evaluation of errors.Is at a receiver.
type isObs struct {
	name      string
	want, got bool
	pv        interface{}
	clause    string
}

// keyObs is GetTypeKey of one T layer of a received error and of the same
// layer of a locally built instance.
type keyObs struct {
	where, role string
	got, local  string
}

// look is everything a receiver observes of one decoded error.
type look struct {
	got  []seen
	text string
	is   []isObs
	keys []keyObs
}

func runTransfer(cfg *Config) *run {
	x := newRun(cfg)
	kind, r := cfg.Kind, *cfg.Recv
	a := x.route(*cfg.Sender, cfg.Mids, msgA, "")
	if x.broken {
		return x
	}
	var uerr, merr2 error
	var first, second look
	// a2: what the receiver puts on the wire when it sends the error on
	// (proto-native lineage: the second transfer)
	a2 := arrival{text: a.text, by: a.by}
	retransfer := x.lin.protoNative && r.knows()
	inspect := func(e error) (lk look, err error) {
		lk.got = observeSpots(kind, e)
		lk.text = e.Error()
		add := func(name, clause string, want bool, a, b error) {
			got, pv := isG(a, b)
			lk.is = append(lk.is, isObs{name, want, got, pv, clause})
		}
		if r.knows() {
			// (c) Is against fresh local instances of the receiver's own type
			cur := r.cur(x.lin)
			add("Is(received, local instance of "+r.Ver+" with the same message)", "is-local", true, e, buildT(kind, cur, msgA))
			add("Is(received, local instance of "+r.Ver+" with another message)", "is-othermsg", false, e, buildT(kind, cur, msgB))
			add("Is(received, local instance of the unrelated lineage U with the same message)", "is-unrelated", false, e, buildT(kind, chainU[1], msgA))
			if x.lin.marker {
				// Is(received, local) iff the markers are equal
				other := buildT(kind, cur.marked(markB), msgA)
				add("Is(received, local instance of "+r.Ver+" with the same message and another marker)", "is-othermarker", false, e, other)
				add("Is(local instance of "+r.Ver+" with the same message and another marker, received)", "is-othermarker", false, buildFull(kind, cur.marked(markB), msgA), e)
				add("Is(local instance of "+r.Ver+" with the same message and marker, received)", "is-local", true, buildFull(kind, cur, msgA), e)
			}
			if x.lin.protoNative {
				// the other direction: the local error (built like the
				// sender's, library wrapper included) against the received one
				local := buildFull(kind, cur, msgA)
				add("Is(local instance of "+r.Ver+" with the same message, received)", "is-local", true, local, e)
				add("Is(local instance of "+r.Ver+" with another message, received)", "is-othermsg", false, buildFull(kind, cur, msgB), e)
				for _, s := range spots(kind) {
					k := keyObs{where: s.where, role: s.role}
					if at := layerAt(s, e); at != nil {
						k.got = string(errors.GetTypeKey(at))
					}
					if at := layerAt(s, local); at != nil {
						k.local = string(errors.GetTypeKey(at))
					}
					lk.keys = append(lk.keys, k)
				}
			}
			return lk, nil
		}
		// (c) at a third party that knows nothing: compare with the
		// error that the original code sent directly.
		rf := cfg.ref()
		d0, err0 := decodeWire(rf.wire)
		d1, err1 := decodeWire(rf.wireOther)
		du, err2 := decodeWire(rf.wireU)
		if err0 != nil || err1 != nil || err2 != nil {
			return lk, fmt.Errorf("reference wire: %v %v %v", err0, err1, err2)
		}
		add("Is(received, error sent directly by V0)", "is-routes", true, e, d0)
		add("Is(error sent directly by V0, received)", "is-routes", true, d0, e)
		add("Is(received, error with another message sent by V0)", "is-othermsg", false, e, d1)
		add("Is(received, error of the unrelated lineage U)", "is-unrelated", false, e, du)
		add("Is(error of the unrelated lineage U, received)", "is-unrelated", false, du, e)
		if x.lin.marker {
			dk, err3 := decodeWire(rf.wireMarkB)
			if err3 != nil {
				return lk, fmt.Errorf("reference wire: %v", err3)
			}
			add("Is(received, error with another marker sent by V0)", "is-othermarker", false, e, dk)
			add("Is(error with another marker sent by V0, received)", "is-othermarker", false, dk, e)
		}
		return lk, nil
	}
	if !x.view(r, "decode", func() {
		var e error
		if e, _, uerr = x.decodeAt(r, a.wire); uerr != nil {
			return
		}
		if first, uerr = inspect(e); uerr != nil || !retransfer {
			return
		}
		// the receiver sends the error it received to a process like itself
		enc := errors.EncodeError(context.Background(), e)
		ls := layersOf(&enc)
		a2.fams, a2.pay = families(ls), payloads(kind, ls)
		if a2.wire, merr2 = proto.Marshal(&enc); merr2 != nil {
			return
		}
		var e2 error
		if e2, _, uerr = x.decodeAt(r, a2.wire); uerr != nil {
			return
		}
		second, uerr = inspect(e2)
	}) {
		return x
	}
	x.steps++
	if retransfer {
		x.steps += 2
	}
	if uerr != nil || merr2 != nil {
		x.broken = true
		x.fail("marshal", r, "protobuf round trip at %s fails: %v %v", r, uerr, merr2)
		return x
	}
	judge := func(lk look, a arrival, tag string) {
		var types []string
		for _, g := range lk.got {
			types = append(types, g.typ)
		}
		x.obs["received_types_of_the_T_layers"+tag] = types
		x.checkDecoded(r, "receiver", lk.got, lk.text, a)
		for _, o := range lk.is {
			x.obs[o.name+tag] = o.got
			if o.pv != nil {
				x.evals++
				x.fail("panic-is", r, "%s panics at %s: %v", o.name, r, o.pv)
				continue
			}
			x.check(o.got == o.want, o.clause, r, "at receiver %s: %s = %v, want %v (received %v under the family names %v)",
				r, o.name, o.got, o.want, types, a.fams)
		}
		for _, k := range lk.keys {
			x.check(k.got == k.local && k.local != "", "typekey-received", r,
				"at receiver %s: GetTypeKey of the %s layer (%s type) of the received error is %q, of the same layer of a locally built instance %q",
				r, k.where, k.role, short(k.got), short(k.local))
		}
	}
	judge(first, a, "")
	if retransfer {
		x.prefix = "second-transfer:"
		x.obs["wire_families_second_transfer"] = a2.fams
		x.check(reflect.DeepEqual(a2.fams, cfg.ref().fams), "wirekey", r,
			"receiver %s sends the error it received (under the family names %v) on under the family names %v; the original names are %v",
			r, a.fams, a2.fams, cfg.ref().fams)
		x.checkPayloadOnWire(r, "receiver (sending on)", a2.pay)
		judge(second, a2, " (second transfer)")
		x.prefix = ""
	}
	return x
}

// markedMsg is the message of the error that the marking process marks.
const markedMsg = "failure at the marking process"

// runMark: the sender's error arrives at the marking process (typically one
// at which the renamed types are opaque); that process takes
// errors.Mark(new error, received) and sends it on; the receiver compares
// what it gets with its local instance. The mark carries the type marks the
// marking process computed for the layers of what it received.
func runMark(cfg *Config) *run {
	x := newRun(cfg)
	kind, m, r := cfg.Kind, cfg.Mids[0], *cfg.Recv
	a := x.send(*cfg.Sender, msgA, "")
	if x.broken {
		return x
	}
	rf := cfg.ref()
	// refsAt: the comparisons of a marked error d at process p
	refsAt := func(p Proc, d error, clause string, is *[]isObs) error {
		add := func(name, cl string, want bool, a, b error) {
			got, pv := isG(a, b)
			*is = append(*is, isObs{name, want, got, pv, cl})
		}
		if p.knows() {
			cur := p.cur(x.lin)
			local := buildFull(kind, cur, msgA)
			add("Is(marked error, local instance of "+p.Ver+" with the same message)", clause, true, d, local)
			add("Is(local instance of "+p.Ver+" with the same message, marked error)", clause, true, local, d)
			add("Is(marked error, local instance of "+p.Ver+" with another message)", clause+"-othermsg", false, d, buildFull(kind, cur, msgB))
			add("Is(marked error, local instance of the unrelated lineage U)", clause+"-unrelated", false, d, buildFull(kind, chainU[1], msgA))
			if x.lin.marker {
				add("Is(marked error, local instance of "+p.Ver+" with another marker)", clause+"-othermarker", false, d, buildFull(kind, cur.marked(markB), msgA))
			}
			return nil
		}
		d0, err0 := decodeWire(rf.wire)
		d1, err1 := decodeWire(rf.wireOther)
		du, err2 := decodeWire(rf.wireU)
		if err0 != nil || err1 != nil || err2 != nil {
			return fmt.Errorf("reference wire: %v %v %v", err0, err1, err2)
		}
		add("Is(marked error, error sent directly by V0)", clause, true, d, d0)
		add("Is(error sent directly by V0, marked error)", clause, true, d0, d)
		add("Is(marked error, error with another message sent by V0)", clause+"-othermsg", false, d, d1)
		add("Is(marked error, error of the unrelated lineage U)", clause+"-unrelated", false, d, du)
		if x.lin.marker {
			dk, err3 := decodeWire(rf.wireMarkB)
			if err3 != nil {
				return err3
			}
			add("Is(marked error, error with another marker sent by V0)", clause+"-othermarker", false, d, dk)
		}
		return nil
	}
	judge := func(p Proc, is []isObs, tag string) {
		for _, o := range is {
			x.obs[o.name+tag] = o.got
			if o.pv != nil {
				x.evals++
				x.fail("panic-is", p, "%s panics at %s: %v", o.name, p, o.pv)
				continue
			}
			x.check(o.got == o.want, o.clause, p, "at %s: %s = %v, want %v (the mark was taken at %s of the error that arrived under the family names %v)",
				p, o.name, o.got, o.want, m, a.fams)
		}
	}
	var got []seen
	var gotText string
	var uerr, merr error
	var isM []isObs
	var wire []byte
	if !x.view(m, "mark", func() {
		var e error
		if e, uerr = decodeWire(a.wire); uerr != nil {
			return
		}
		got = observeSpots(kind, e)
		gotText = e.Error()
		mk := errors.Mark(goerrors.New(markedMsg), e)
		if uerr = refsAt(m, mk, "mark-taken", &isM); uerr != nil {
			return
		}
		enc := errors.EncodeError(context.Background(), mk)
		wire, merr = proto.Marshal(&enc)
	}) {
		return x
	}
	x.steps += 2
	if uerr != nil || merr != nil {
		x.broken = true
		x.fail("marshal", m, "protobuf round trip at %s fails: %v %v", m, uerr, merr)
		return x
	}
	x.checkDecoded(m, "marking process", got, gotText, a)
	judge(m, isM, " (at the marking process)")
	var typ, text string
	var isR []isObs
	if !x.view(r, "decode", func() {
		var d error
		if d, uerr = decodeWire(wire); uerr != nil {
			return
		}
		typ, text = fmt.Sprintf("%T", d), d.Error()
		uerr = refsAt(r, d, "mark-forwarded", &isR)
	}) {
		return x
	}
	x.steps++
	if uerr != nil {
		x.broken = true
		x.fail("marshal", r, "proto.Unmarshal at %s fails: %v", r, uerr)
		return x
	}
	x.obs["received_type"] = typ
	x.check(typ == "*markers.withMark" && text == markedMsg, "mark-decode", r,
		"receiver %s decodes the marked error to a %s with Error() = %q, want *markers.withMark and %q", r, typ, text, markedMsg)
	judge(r, isR, "")
	return x
}

func runRoutes(cfg *Config) *run {
	x := newRun(cfg)
	r := *cfg.Recv
	a1 := x.route(*cfg.Sender, cfg.Mids, msgA, "_1")
	if x.broken {
		return x
	}
	a2 := x.route(*cfg.Sender2, cfg.Mids2, msgA, "_2")
	if x.broken {
		return x
	}
	a3 := x.route(*cfg.Sender2, cfg.Mids2, msgB, "_3")
	if x.broken {
		return x
	}
	var uerr error
	var t1, t2 string
	res := map[string]bool{}
	var pvs []string
	if !x.view(r, "decode", func() {
		d1, e1 := decodeWire(a1.wire)
		d2, e2 := decodeWire(a2.wire)
		d3, e3 := decodeWire(a3.wire)
		if e1 != nil || e2 != nil || e3 != nil {
			uerr = fmt.Errorf("%v %v %v", e1, e2, e3)
			return
		}
		t1, t2 = fmt.Sprintf("%T", d1), fmt.Sprintf("%T", d2)
		for _, q := range []struct {
			name string
			a, b error
		}{{"12", d1, d2}, {"21", d2, d1}, {"13", d1, d3}, {"31", d3, d1}} {
			got, pv := isG(q.a, q.b)
			res[q.name] = got
			if pv != nil {
				pvs = append(pvs, fmt.Sprint(pv))
			}
		}
	}) {
		return x
	}
	x.steps += 3
	if uerr != nil {
		x.broken = true
		x.fail("marshal", r, "proto.Unmarshal at %s fails: %v", r, uerr)
		return x
	}
	x.obs["received_types"] = []string{t1, t2}
	x.obs["is_both_ways"] = []bool{res["12"], res["21"]}
	if len(pvs) > 0 {
		x.evals++
		x.fail("panic-is", r, "Is between the two received errors panics at %s: %v", r, pvs)
		return x
	}
	x.check(res["12"] && res["21"], "is-routes", r,
		"at %s, the error from %s (a %s, family names %v) and the error from %s (a %s, family names %v) denote the same logical type and message, but Is(e1,e2)=%v Is(e2,e1)=%v",
		r, cfg.Sender, t1, a1.fams, cfg.Sender2, t2, a2.fams, res["12"], res["21"])
	x.check(!res["13"] && !res["31"], "is-othermsg", r,
		"at %s, errors with different messages from %s and %s: Is(e1,e3)=%v Is(e3,e1)=%v, want false", r, cfg.Sender, cfg.Sender2, res["13"], res["31"])
	return x
}

// runProcess checks what one process's registrations must guarantee
// whatever happens to the lineage: the registrations succeed, types outside
// the lineage keep their keys (the unrelated lineage U resolves to its first
// name; the rest of the migration table is what it was), and clause (e):
// declaring a migration to the same new type again is rejected and leaves
// the table alone. The state of the lineage itself is judged by what it
// makes observable, in the transfer phase (type key and wire key at every
// sender spec, decoding at every receiver spec).
func runProcess(cfg *Config) *run {
	x := newRun(cfg)
	p := *cfg.Proc
	calls := p.migrationCalls(cfg.opts())
	var pristineTable map[string]string
	guard(func() {
		errbase.VerifInstallRegistries(pristine)
		pristineTable = errbase.VerifMigrationTable()
	})
	stdKey := string(errors.GetTypeKey(goerrors.New("x")))
	isT := map[string]bool{}
	for _, v := range x.lin.versions() {
		for _, tp := range v.protos() {
			isT[modelKey(reflect.TypeOf(tp.proto).String())] = true
		}
	}
	outsideT := func(t map[string]string) map[string]string {
		o := map[string]string{}
		for k, v := range t {
			if !isT[k] {
				o[k] = v
			}
		}
		return o
	}
	x.view(p, "process", func() {
		table := errbase.VerifMigrationTable()
		ts := tableString()
		x.obs["migration_table"] = ts
		want := map[string]string{}
		for k, v := range pristineTable {
			want[k] = v
		}
		if p.knows() {
			for _, tp := range chainU[1].protos() {
				got := string(errors.GetTypeKey(tp.proto))
				rn := chainU[0].typeOf(tp.role).String()
				x.check(got == modelKey(rn), "unrelated", p,
					"after the registrations of %s, the %s type of the unrelated lineage U has key %s, want %s; migration table: %s",
					p, tp.role, short(got), rn, ts)
				want[modelKey(chainU[1].typeOf(tp.role).String())] = modelKey(rn)
			}
		}
		x.check(string(errors.GetTypeKey(goerrors.New("x"))) == stdKey, "unrelated", p,
			"the registrations of %s change the key of the stdlib leaf type", p)
		x.check(reflect.DeepEqual(outsideT(table), want), "unrelated", p,
			"the registrations of %s leave these migration table entries outside the lineage: %s; the model has %s",
			p, modelTableString(outsideT(table)), modelTableString(want))
		// (e) double registration
		for _, c := range calls {
			c := c
			pv := guard(func() { errors.RegisterTypeMigration(c.prevPkg, c.prevName, c.newProto) })
			x.check(pv != nil, "double-reg", p, "repeating %s in %s does not panic", c, p)
			pv = guard(func() { errors.RegisterTypeMigration(pkgPath, "*vermc.NeverExisted", c.newProto) })
			x.check(pv != nil, "double-reg", p, "a second migration to %T (from another previous name) in %s does not panic", c.newProto, p)
		}
		if len(calls) > 0 {
			after := errbase.VerifMigrationTable()
			x.check(reflect.DeepEqual(table, after), "double-reg", p,
				"the rejected registrations in %s changed the migration table from %s to %s", p, ts, tableString())
		}
	})
	return x
}

func modelTableString(t map[string]string) string {
	var rows []string
	for k, v := range t {
		if mine(k) {
			rows = append(rows, short(k)+"=>"+short(v))
		}
	}
	sort.Strings(rows)
	return "{" + strings.Join(rows, " ") + "}"
}

// setupRefs takes the pristine snapshot and computes, per lineage and kind,
// the reference: the family names of the layers that are not T layers are
// what the original code (V0) puts on the wire, those of the T layers are
// the model's keys of the first name; and V0's encodings, for the third
// party comparisons.
func setupRefs(r *core.Result) bool {
	pristine = errbase.VerifSnapshotRegistries()
	for k := range errbase.VerifMigrationTable() {
		if mine(k) {
			r.HarnessError("C17: the pristine migration table already mentions %s", k)
			return false
		}
	}
	v0 := Proc{Ver: "V0"}
	for _, l := range lineages {
		for _, kind := range l.allKinds() {
			rf := &ref{}
			var err error
			pv, _ := inView(v0, opts{lin: l}, func() {
				enc := func(e error) []byte {
					ee := errors.EncodeError(context.Background(), e)
					b, merr := proto.Marshal(&ee)
					if merr != nil {
						err = merr
					}
					return b
				}
				ee := errors.EncodeError(context.Background(), buildFull(kind, l.chain[0], msgA))
				ls := layersOf(&ee)
				rf.fams = families(ls)
				rf.wire = enc(buildFull(kind, l.chain[0], msgA))
				rf.wireOther = enc(buildFull(kind, l.chain[0], msgB))
				rf.wireU = enc(buildFull(kind, chainU[1], msgA))
				// the model, not V0's behaviour, says what the T layers are
				// keyed as: "<pkgpath>/<reflect name of the first name>"
				// (marker lineage: "::" and the marker of the instance)
				for _, s := range spots(kind) {
					i := s.at(len(ls))
					rf.fams[i] = short(modelKey(l.chain[0].typeOf(s.role).String()))
					if l.marker {
						rf.fams[i] += "::" + markA
					}
				}
				if l.marker {
					rf.wireMarkB = enc(buildFull(kind, l.chain[0].marked(markB), msgA))
				}
			})
			if pv != nil || err != nil {
				r.HarnessError("C17: reference encoding for lineage %q kind %s: panic=%v err=%v", l.name, kind, pv, err)
				return false
			}
			refs[l.name+"|"+kind] = rf
		}
	}
	return true
}

func lineageSuffix(name string) string {
	switch {
	case name == protoNativeName:
		return "|proto-native"
	case name == markerName:
		return "|marker"
	case name == recvPVPName || name == recvVPVName:
		return "|receiver-kind"
	case name != "":
		return "|generic"
	}
	return ""
}

func runC17(c *core.Ctx, r *core.Result) {
	if c.Shard != 0 {
		return
	}
	r.Rule = "state = one configuration (phase, lineage, kind, process spec of sender / intermediaries / receiver incl. registration order and observation points, encoders, position of the unrelated migration); transition = one encode or decode step under a process view; non-trivial = sender and receiver run different versions; outcome class = lineage kind | longest chain n | first failing clause; phase mark = sender -> process that takes errors.Mark of what it received -> receiver"
	r.Assumptions = []string{
		"one name of a type = one distinct Go type of package vermc (a Go type cannot be renamed at run time)",
		"a process = pristine registries + that process's registrations, installed around each encode/decode step with the errbase snapshot hooks (build overlay)",
		"a V_k binary declares one RegisterTypeMigration per rename step (or, 'direct', the single call name0 -> name_k), with the package path and reflect.TypeOf(err).String() of the previous type, as documented; migrations before decoders, as documented",
		"with encoders on, every type of the lineage crosses the wire in a payload (custom encoder registered under GetTypeKey) and its decoder fails without that payload",
		"proto-native leaf lineage (PNativeV0 -> PNativeV1 -> PNativeV2, PNativeAlt: one protobuf message name, no leaf encoder/decoder, the error is its own payload): the gogo protobuf type registry is global to this OS process and cannot be snapshotted (proto.RegisterType ignores a second registration of a message name; nothing unregisters), so every simulated process that unmarshals the payload gets the ONE registered Go type, the newest name PNativeV2. Explored: receivers at V2 only (both registration orders, single-call declaration, every subset of observation points) from every sender version (V0, V1, V2, Alt; encoding needs only XXX_MessageName), directly and through one or two intermediaries. NOT explorable: receivers (final or intermediary) at V0, V1 or Alt that unmarshal the payload into their own *PNativeV0 / *PNativeV1 / *PNativeAlt (new -> old, B -> A): that needs a per-process protobuf registry",
		"proto-native leaf lineage: at every intermediary other than V2 (unknowing, V0, V1, Alt) the payload is opaque, i.e. that binary does not have the message type in its protobuf registry (never knew it, or has the hand-written type with XXX_MessageName but did not proto.RegisterType it: it can send but not unmarshal). Simulated by rewriting the payload's type URL to a message name that is registered nowhere before that process decodes and back after it re-encodes; sound because the library hands the Any only to types.UnmarshalAny / forwards it untouched. The model there: an opaqueLeaf that is forwarded with the same family name and the same payload",
		"proto-native leaf lineage, extra receiver clauses: Is in both directions against a locally built instance, GetTypeKey(received layer) == GetTypeKey(local layer), and a second transfer from the receiver to a process like itself (clauses prefixed second-transfer:) preserves wire family names, decoded type, fields, Is and type key",
		"marker lineage (KLeafV0 -> KLeafV1 -> KLeafV2, KWrap..., KLeafAlt / KWrapAlt): renamed types that implement ErrorKeyMarker with a per-instance string. The library hands the marker to no decoder, so the types carry it the way domains.withDomain does: as a safe detail (default encoding) or in the payload (custom encoders). Model: on the wire the family name is the ORIGINAL name and the extension is the marker, at every version and hop; GetTypeKey, GetTypeMark and the encoded mark of an instance agree (clause mark-agree); the decoded (or opaque) layer has the sender's marker (clause marker); Is(received, local) is true iff the markers are equal (clause is-othermarker)",
		"a decoder-less process ({no decoders}) declares its version's migrations but registers no decoder/encoder for the lineage: every layer of the lineage it receives stays opaque, the errors it builds locally have its own types; Is between the two must hold through the type marks. It is an intermediary, a marking process or a receiver, never a sender",
		"phase mark: the one intermediary takes errors.Mark(a new error, the error it received) and sends that on; the comparisons (clauses mark-taken at the marking process, mark-forwarded at the receiver) are against the full local instance in both directions (at an unknowing process: against V0's directly sent error)",
		"each configuration reports its first diverging clause, attributed to the process where model and observation diverge; later failing clauses of the same configuration are listed in the message and counted under counters consequent:<clause>",
	}
	if !setupRefs(r) {
		return
	}
	defer errbase.VerifInstallRegistries(pristine)

	if c.Replay != nil {
		var cfg Config
		if err := json.Unmarshal(c.Replay, &cfg); err != nil || !cfg.valid() {
			r.HarnessError("C17: bad replay payload: %v", err)
			return
		}
		r.Bounds = "replay of one configuration"
		execute(r, &cfg, nil)
		return
	}

	samples := &sampler{}
	capped := false
	stop := func() bool {
		if !capped && c.Expired() {
			r.Cap("soft deadline reached before the enumeration finished")
			capped = true
		}
		return capped
	}
	var bounds []string
	for _, l := range lineages {
		bounds = append(bounds, enumerate(c, r, l, samples, stop))
	}
	r.Bounds = strings.Join(bounds, " || ")
	samples.flush(r)
}

// enumerate explores one lineage and returns the description of the bounds.
func enumerate(c *core.Ctx, r *core.Result, l *lineage, samples *sampler, stop func() bool) string {
	maxN := l.maxN()
	procs := knowingProcs(l)
	observing := observingProcs(l)
	others := append(append([]Proc{}, procs...), Proc{Ver: unknowing})
	sendAll := append(append([]Proc{}, procs...), observing...)
	recvAll := append(append([]Proc{}, others...), observing...)
	none := [][]Proc{nil}
	singles := [][]Proc{}
	for _, m := range others {
		singles = append(singles, []Proc{m})
	}
	pairs := [][]Proc{}
	for _, m1 := range others {
		for _, m2 := range others {
			pairs = append(pairs, []Proc{m1, m2})
		}
	}
	observingMids := [][]Proc{}
	for _, m := range observing {
		observingMids = append(observingMids, []Proc{m})
	}
	join := func(sets ...[][]Proc) [][]Proc {
		var out [][]Proc
		for _, s := range sets {
			out = append(out, s...)
		}
		return out
	}
	bools := []bool{false, true}
	uposs := []int{0, maxN}
	if c.Thorough() {
		uposs = nil
		for i := 0; i <= maxN; i++ {
			uposs = append(uposs, i)
		}
	}
	// kinds: what transfers / routes / marks iterate over
	kinds := l.kinds
	transfers := func(senders []Proc, midSets [][]Proc, recvs []Proc, encs []bool, ups []int) {
		for _, kind := range kinds {
			for si := range senders {
				if stop() {
					return
				}
				for _, mids := range midSets {
					for ri := range recvs {
						for _, enc := range encs {
							for _, up := range ups {
								execute(r, &Config{Phase: "transfer", Lineage: l.name, Kind: kind, Sender: &senders[si], Mids: mids, Recv: &recvs[ri], Enc: enc, UPos: up}, samples)
							}
						}
					}
				}
			}
		}
	}
	routes := func(recvs []Proc, midSets [][]Proc, os []opts) {
		for _, kind := range kinds {
			for s1 := range procs {
				if stop() {
					return
				}
				for s2 := s1; s2 < len(procs); s2++ {
					for _, mids2 := range midSets {
						for ri := range recvs {
							for _, o := range os {
								execute(r, &Config{Phase: "routes", Lineage: l.name, Kind: kind, Sender: &procs[s1], Sender2: &procs[s2], Mids2: mids2, Recv: &recvs[ri], Enc: o.Enc, UPos: o.UPos}, samples)
							}
						}
					}
				}
			}
		}
	}

	marks := func(senders, markers, recvs []Proc, encs []bool, ups []int) {
		for _, kind := range kinds {
			for si := range senders {
				if stop() {
					return
				}
				for mi := range markers {
					for ri := range recvs {
						for _, enc := range encs {
							for _, up := range ups {
								execute(r, &Config{Phase: "mark", Lineage: l.name, Kind: kind, Sender: &senders[si], Mids: markers[mi : mi+1], Recv: &recvs[ri], Enc: enc, UPos: up}, samples)
							}
						}
					}
				}
			}
		}
	}

	// phase 1: every process on its own, with every subset of its
	// observation points
	for i := range recvAll {
		for _, enc := range bools {
			for _, up := range uposs {
				execute(r, &Config{Phase: "process", Lineage: l.name, Proc: &recvAll[i], Enc: enc, UPos: up}, samples)
			}
		}
	}
	name := l.name
	if name == "" {
		name = "plain"
	}
	head := fmt.Sprintf("lineage %s: rename chains of length n<=%d (all n! registration orders + single-call declaration%s = %d knowing process specs, + an unknowing process; every subset of the observation points of a start-up history = %d more specs); kinds %v; encoders{off,on: payload-carrying} x unrelated-migration position %v.",
		name, maxN, map[bool]string{true: " + a differently renamed version", false: ""}[l.alt != nil], len(procs), len(observing), l.kinds, uposs)
	var desc string
	switch {
	case l.protoNative:
		// receivers: the processes at the newest name only (types_proto.go)
		var recvNew, recvNewAll []Proc
		for _, p := range procs {
			if p.atNewest(l) {
				recvNew = append(recvNew, p)
			}
		}
		recvNewAll = append(recvNewAll, recvNew...)
		for _, p := range observing {
			if p.atNewest(l) {
				recvNewAll = append(recvNewAll, p)
			}
		}
		routeRecvs, routeNote := recvNew, "every plain receiver at V2"
		if c.Thorough() {
			routeRecvs, routeNote = recvNewAll, "every receiver at V2 (plain or observing)"
		}
		transfers(sendAll, join(none, singles), recvNewAll, bools, uposs)
		transfers(procs, pairs, recvNew, bools, uposs)
		transfers(procs, observingMids, recvNew, bools, uposs)
		routes(routeRecvs, join(none, singles), []opts{{Enc: false, UPos: 0}, {Enc: true, UPos: 0}, {Enc: false, UPos: maxN}, {Enc: true, UPos: 1}})
		return head + fmt.Sprintf(" The leaf is a proto.Message without decoder; only the newest name is in the (OS-process-global) protobuf registry, so RECEIVERS ARE AT V2 ONLY (%d plain specs, %d with observing ones) and the payload is opaque at every other intermediary (unknowing, V0, V1, Alt). process: every spec. transfer: every sender (plain or observing, %d: V0, V1, V2, Alt) x {no intermediary, each of %d plain} x every receiver at V2; every plain sender x every pair of plain intermediaries (%d) x plain receiver at V2; plain sender x observing intermediary x plain receiver at V2; each followed by a second transfer from the receiver. routes: every unordered pair of plain senders, second route via {none, each of %d}, x %s, 4 option combinations. Not explored: receivers at V0 / V1 / Alt that unmarshal the payload",
			len(recvNew), len(recvNewAll), len(sendAll), len(others), len(pairs), len(others), routeNote)
	case (l.name != "" && !l.marker && !l.recvKind) || c.Thorough():
		// small lineages, and the thorough tier: the full product
		transfers(sendAll, join(none, singles), recvAll, bools, uposs)
		transfers(procs, pairs, others, bools, uposs)
		transfers(procs, observingMids, others, bools, uposs)
		routes(recvAll, join(none, singles), []opts{{Enc: false, UPos: 0}, {Enc: true, UPos: 0}, {Enc: false, UPos: maxN}, {Enc: true, UPos: 1}})
		desc = head + fmt.Sprintf(" process: every spec. transfer: every sender (plain or observing, %d) x {no intermediary, each of %d plain} x every receiver (plain or observing, %d); every plain sender x every pair of plain intermediaries (%d) x plain receiver; plain sender x observing intermediary x plain receiver. routes: every unordered pair of plain senders, second route via {none, each of %d}, x every receiver, 4 option combinations",
			len(sendAll), len(others), len(recvAll), len(pairs), len(others))
	default:
		short3 := [][]Proc{nil, {{Ver: "V0"}}, {{Ver: unknowing}}}
		transfers(procs, join(none, singles), others, bools, uposs)
		transfers(observing, short3, others, bools, uposs)
		transfers(procs, short3, observing, bools, uposs)
		transfers(observing, none, observing, bools[:1], uposs[:1])
		transfers(procs, observingMids, others, bools[:1], uposs[:1])
		routes(others, none, []opts{{Enc: false, UPos: 0}, {Enc: true, UPos: 0}})
		desc = head + fmt.Sprintf(" process: every spec. transfer without observations: every sender x {no intermediary, each of %d} x receiver (%d). transfer with an observing sender (every subset) x {no intermediary, V0, unknowing} x every plain receiver; the same with an observing receiver and every plain sender; observing sender x observing receiver (direct, encoders off, position 0); plain sender x observing intermediary x plain receiver (encoders off, position 0). routes: every unordered pair of plain senders x plain receiver (position 0)",
			len(others), len(others))
	}

	// ---- opaque renamed wrappers, decoder-less processes, the renamed
	// wrapper as the middle layer, marks taken where the types are opaque ----
	nodecAll := withoutDecoders(procs)
	nodecSome := nodecAll
	markers := append(append([]Proc{}, others...), nodecAll...)
	extraUps := uposs
	how := "every knowing spec without decoders"
	// pick: in the quick tier, V0, V1, the differently renamed code, and the
	// longest chain declared oldest-first / newest-first
	pick := func(ps []Proc) []Proc {
		if c.Thorough() {
			return ps
		}
		var out []Proc
		for _, p := range ps {
			whole := p.n() == maxN && !p.Direct
			chrono := strings.HasSuffix(p.baseKey(), "chronological") || strings.HasSuffix(p.baseKey(), "newest-first") || strings.HasSuffix(p.baseKey(), "single")
			if p.Ver == "V0" || p.Ver == "V1" || p.Ver == "Alt" || (whole && chrono) {
				out = append(out, p)
			}
		}
		return out
	}
	if !c.Thorough() {
		nodecSome = pick(nodecAll)
		markers = append([]Proc{{Ver: unknowing}, {Ver: "V0"}}, nodecSome...)
		extraUps = uposs[:1]
		how = fmt.Sprintf("%d of them (V0, V1, differently renamed, longest chain oldest-first / newest-first)", len(nodecSome))
	}
	asMids := func(ps []Proc) [][]Proc {
		var out [][]Proc
		for _, p := range ps {
			out = append(out, []Proc{p})
		}
		return out
	}
	opaqueRecvs := append(append([]Proc{}, others...), nodecSome...)
	twoOpts := []opts{{Enc: false, UPos: 0}, {Enc: true, UPos: 0}}
	// decoder-less receivers and intermediaries, every kind
	transfers(procs, none, nodecAll, bools, extraUps)
	transfers(procs, asMids(nodecSome), others, bools, extraUps)
	routes(nodecSome, none, twoOpts)
	// marks taken at a process and forwarded, every kind + the middle layer
	kinds = l.allKinds()
	marks(procs, markers, others, bools, extraUps)
	// the renamed wrapper as the middle layer of three
	kinds = []string{kindMid}
	transfers(procs, join(none, singles, asMids(nodecSome)), opaqueRecvs, bools, extraUps)
	routes(opaqueRecvs, none, twoOpts)
	// version skew: a sender that has a later name but declares no
	// migration, directly and through one relay (every plain spec: those that
	// declared the rename have the arriving family name as the new name of a
	// migration and no decoder under it; and the decoder-less ones), to a
	// receiver that compares the two; every kind + the middle layer
	kinds = l.allKinds()
	skewed := skewedProcs(l)
	skewRecvs := append([]Proc{{Ver: unknowing}}, pick(procs)...)
	nSkew := 0
	for _, kind := range kinds {
		for si := range skewed {
			if stop() {
				break
			}
			recvs := append(append([]Proc{}, skewRecvs...), skewed[si])
			for _, relay := range opaqueRecvs {
				for ri := range recvs {
					for _, o := range twoOpts {
						execute(r, &Config{Phase: "routes", Lineage: l.name, Kind: kind, Sender: &skewed[si], Sender2: &skewed[si], Mids2: []Proc{relay}, Recv: &recvs[ri], Enc: o.Enc, UPos: o.UPos}, samples)
						nSkew++
					}
				}
			}
		}
	}
	kinds = l.kinds
	desc += fmt.Sprintf(". Version skew (routes): each of %d senders that have a later name but declare no migration (wire key = their own name) x {directly | through one relay: each of %d plain or decoder-less specs, where the layer must stay opaque unless the relay is keyed the same way, and be forwarded field for field} x receiver (unknowing, %d plain, the skewed process itself) x encoders {off,on}, kinds %v: %d configurations",
		len(skewed), len(opaqueRecvs), len(skewRecvs)-1, l.allKinds(), nSkew)
	return desc + fmt.Sprintf(". Decoder-less processes (migrations declared, no decoder for the lineage: what arrives stays opaque, local instances have the process's own types; %d specs): every sender x every decoder-less receiver; every sender x decoder-less intermediary (%s) x every plain receiver; routes to decoder-less receivers. mark: every sender x marking process (errors.Mark(new error, received) taken there and sent on; %d specs: unknowing, V0, decoder-less%s) x every plain receiver, kinds %v. kind %s (errors.WithMessage over the renamed wrapper over a leaf): every sender x {no intermediary, each of %d plain, decoder-less} x every plain or decoder-less receiver; routes: every unordered pair of senders x those receivers. Encoders {off,on} x unrelated-migration position %v",
		len(nodecAll), how, len(markers), map[bool]string{true: ", every plain spec", false: ""}[c.Thorough()], l.allKinds(), kindMid, len(others), extraUps)
}

func runConfig(cfg *Config) *run {
	switch cfg.Phase {
	case "process":
		return runProcess(cfg)
	case "transfer":
		return runTransfer(cfg)
	case "mark":
		return runMark(cfg)
	}
	return runRoutes(cfg)
}

func firstKey(x *run) string {
	if len(x.fails) == 0 {
		return ""
	}
	return x.fails[0].clause + "|" + x.fails[0].at.key()
}

// execute runs one configuration and reports its first diverging clause.
// The key is clause|n|order of the process at fault, then
// "|observed-between" if the failure needs the observation points of the
// configuration, "|payload" if it needs the payload-carrying encoders, and
// "|generic" for the generic lineages.
func execute(r *core.Result, cfg *Config, samples *sampler) {
	x := runConfig(cfg)
	r.States++
	r.Transitions += x.steps
	r.Evaluations += x.evals
	if cfg.Sender != nil && cfg.Recv != nil && cfg.Sender.Ver != cfg.Recv.Ver {
		r.Nontrivial++
	}
	verdict := "ok"
	if len(x.fails) > 0 {
		f := x.fails[0]
		verdict = f.clause
		base := firstKey(x)
		key := base
		msg := fmt.Sprintf("%s\nconfiguration: %s", f.msg, cfg)
		variant := func(y *run, what, suffix, why string) bool {
			r.Transitions += y.steps
			r.Evaluations += y.evals
			if firstKey(y) == base {
				return false
			}
			key += suffix
			was := "passes"
			if len(y.fails) > 0 {
				was = "fails differently (" + firstKey(y) + ")"
			}
			msg += "\nthe same configuration " + what + " " + was + ": " + why
			return true
		}
		needsObs, needsPayload := false, false
		if cfg.observes() {
			needsObs = variant(runConfig(cfg.plain()), "without the observation points", "|observed-between",
				"letting the library see the types between two registrations changes what it answers after all of them")
		}
		if cfg.Enc {
			d := *cfg
			d.Enc = false
			needsPayload = variant(runConfig(&d), "without custom encoders", "|payload",
				"the failure needs types that cross the wire in the payload of a custom encoder registered under GetTypeKey")
		}
		if cfg.Kind == kindMid {
			d := *cfg
			d.Kind = "wrapper"
			variant(runConfig(&d), "with the renamed wrapper as the outermost layer (kind wrapper)", "|middle-layer",
				"the failure needs the renamed wrapper to be the middle layer of three")
		}
		if cfg.Sender != nil && cfg.Sender.NoMig {
			key += "|version-skew"
			msg += "\nversion skew: the sender declares no migration and names the type by the name that the processes which did declare the rename consider the new one"
		}
		if cfg.Lineage != "" {
			key += lineageSuffix(cfg.Lineage)
			msg += "\nlineage " + cfg.Lineage + ": the type names are " + cfg.lin().chain[0].leafName() + " etc."
		}
		if len(x.fails) > 1 {
			seen := map[string]bool{}
			var more []string
			for _, g := range x.fails[1:] {
				r.Count("consequent:"+g.clause, 1)
				if !seen[g.clause] && len(more) < 6 {
					seen[g.clause] = true
					more = append(more, g.clause+" at "+g.at.String()+": "+g.msg)
				}
			}
			msg += "\nlater clauses failing in the same configuration:\n  " + strings.Join(more, "\n  ")
		}
		fresh := !r.HasViolationKey(key)
		r.Violate(key, msg, cfg)
		if fresh {
			if gt := goTestFor(f, needsObs, needsPayload || cfg.Lineage != ""); gt != "" {
				for _, v := range r.Violations {
					if v.Key == key {
						v.GoTest = gt
					}
				}
			}
		}
	}
	kind := cfg.Kind
	if kind == "" {
		kind = "registrations"
	}
	if cfg.Lineage != "" {
		kind = cfg.Lineage + " " + kind
	}
	r.Outcome(fmt.Sprintf("%s|n=%d|%s", kind, cfg.maxN(), verdict))
	r.Count("phase:"+cfg.Phase, 1)
	if cfg.observes() {
		r.Count("configurations-with-observation-points", 1)
	}
	switch {
	case cfg.Lineage == protoNativeName:
		r.Count("configurations-of-the-proto-native-lineage", 1)
		if cfg.Phase != "process" {
			r.Count("proto-native:"+protoNativePath(cfg), 1)
		}
	case cfg.Lineage == markerName:
		r.Count("configurations-of-the-marker-lineage", 1)
	case cfg.lin().recvKind:
		r.Count("configurations-of-the-receiver-kind-lineages", 1)
	case cfg.Lineage != "":
		r.Count("configurations-of-generic-lineages", 1)
	}
	if cfg.Sender != nil && cfg.Sender.NoMig {
		r.Count("configurations-with-version-skew", 1)
	}
	if cfg.Kind == kindMid {
		r.Count("configurations-with-the-renamed-wrapper-in-the-middle-of-three-layers", 1)
	}
	for _, p := range cfg.procs() {
		if p.NoDec {
			r.Count("configurations-with-a-decoder-less-process", 1)
			break
		}
	}
	if samples != nil {
		samples.offer(r, cfg, x, verdict)
	}
}

// sampler keeps the documented scenarios (and one chained configuration) as
// the samples of the evidence file and counts that each scenario is a point
// of the space.
type sampler struct {
	got map[string]interface{}
}

// protoNativePath classifies a transfer configuration of the proto-native
// lineage by its path: sender version, then per intermediary "opaque"
// (unknowing, V0, V1, Alt: the payload is opaque there) or V2, then the
// receiver version.
func protoNativePath(c *Config) string {
	if c.Phase != "transfer" {
		return c.Phase
	}
	path := c.Sender.Ver
	for _, m := range c.Mids {
		if m.payloadOpaque(c.lin()) {
			path += "->opaque"
		} else {
			path += "->" + m.Ver
		}
	}
	return "transfer " + path + "->" + c.Recv.Ver
}

func scenarioOf(c *Config) string {
	if c.Kind != "leaf" || c.Enc || c.UPos != 0 {
		return ""
	}
	if c.observes() {
		return ""
	}
	is := func(p *Proc, ver string) bool { return p != nil && p.Ver == ver && !p.Direct }
	mid := func(ms []Proc, ver string) bool { return len(ms) == 1 && ms[0].Ver == ver }
	if c.Lineage == protoNativeName {
		chrono := func(p *Proc) bool { return is(p, "V2") && orderString(p.Order) == "0,1" }
		if c.Phase == "transfer" && chrono(c.Recv) {
			switch {
			case is(c.Sender, "V0") && len(c.Mids) == 0:
				return "proto-native-original-to-newest"
			case chrono(c.Sender) && mid(c.Mids, "V0"):
				return "proto-native-newest-through-old-opaque-to-newest"
			}
		}
		return ""
	}
	if c.Lineage != "" {
		return ""
	}
	switch c.Phase {
	case "transfer":
		switch {
		case is(c.Sender, "V0") && len(c.Mids) == 0 && is(c.Recv, "V1"):
			return "scenario1-forward"
		case is(c.Sender, "V1") && len(c.Mids) == 0 && is(c.Recv, "V0"):
			return "scenario1-backward"
		case is(c.Sender, "V1") && len(c.Mids) == 0 && is(c.Recv, "Alt"):
			return "scenario2-simultaneous"
		case is(c.Sender, "V1") && mid(c.Mids, "V0") && is(c.Recv, "V1"):
			return "scenario3-through-old"
		case is(c.Sender, "V1") && mid(c.Mids, unknowing) && is(c.Recv, "V1"):
			return "scenario4-through-unknowing"
		case is(c.Sender, "V2") && len(c.Mids) == 0 && is(c.Recv, "V0") && orderString(c.Sender.Order) == "0,1":
			return "chain2-chronological-to-original"
		}
	case "routes":
		if is(c.Sender, "V0") && is(c.Sender2, "V1") && len(c.Mids) == 0 && len(c.Mids2) == 0 && is(c.Recv, unknowing) {
			return "scenario5-third-party"
		}
	}
	return ""
}

func (s *sampler) offer(r *core.Result, c *Config, x *run, verdict string) {
	name := scenarioOf(c)
	if name == "" {
		return
	}
	r.Count(name, 1)
	if s.got == nil {
		s.got = map[string]interface{}{}
	}
	if _, dup := s.got[name]; dup {
		return
	}
	s.got[name] = map[string]interface{}{"point": name, "configuration": c.String(), "observed": x.obs, "verdict": verdict}
}

func (s *sampler) flush(r *core.Result) {
	// scenario1-backward, chain2-chronological-to-original and
	// proto-native-original-to-newest are left to their counters: six
	// samples are kept.
	for _, n := range []string{"scenario1-forward", "scenario2-simultaneous", "scenario3-through-old", "scenario4-through-unknowing", "scenario5-third-party", "proto-native-newest-through-old-opaque-to-newest"} {
		if v, ok := s.got[n]; ok {
			r.Sample(v)
		}
	}
	for _, n := range []string{"scenario1-forward", "scenario1-backward", "scenario2-simultaneous", "scenario3-through-old", "scenario4-through-unknowing", "scenario5-third-party", "proto-native-original-to-newest", "proto-native-newest-through-old-opaque-to-newest"} {
		if _, ok := s.got[n]; !ok {
			r.Uncovered = append(r.Uncovered, "documented "+n+" was not a point of the explored space")
		}
	}
}

// goTestFor writes a stand-alone test (public API only) for failures whose
// root is the type key computed after a chain of declarations (with the
// observations in between if the failure needs them). Failures that need
// payloads or generic types get none.
func goTestFor(f failure, withObs, other bool) string {
	p := f.at
	if !withObs {
		p = p.plain()
	}
	if other || p.Direct || len(p.Order) < 2 {
		return ""
	}
	switch f.clause {
	case "typekey", "wirekey", "decode-type":
	default:
		return ""
	}
	var b strings.Builder
	b.WriteString("package errors_test\n\nimport (\n\t\"reflect\"\n\t\"testing\"\n\n\t\"github.com/cockroachdb/errors\"\n\t\"github.com/cockroachdb/errors/errbase\"\n)\n\n")
	n := p.n()
	for i := 0; i <= n; i++ {
		fmt.Fprintf(&b, "type renamed%d struct{}\n\nfunc (*renamed%d) Error() string { return \"\" }\n\n", i, i)
	}
	b.WriteString("// The same type was renamed renamed0 -> renamed1 -> ...; each rename is\n// declared, in the order " + orderString(p.Order) + " (step i is renamed<i> -> renamed<i+1>).\n")
	b.WriteString("func TestChainedMigrationRegistrationOrder(t *testing.T) {\n\tdefer errbase.TestingWithEmptyMigrationRegistry()()\n")
	b.WriteString("\tpkg := reflect.TypeOf(renamed0{}).PkgPath()\n")
	obs := map[int]bool{}
	for _, i := range p.Obs {
		obs[i] = true
	}
	seen := []int{n}
	for i, s := range p.Order {
		if obs[i] {
			b.WriteString("\t// the library sees the types declared so far (and the current one)\n")
			for _, k := range seen {
				fmt.Fprintf(&b, "\t_ = errors.GetTypeKey((*renamed%d)(nil))\n", k)
			}
		}
		if s+1 != n {
			seen = append(seen, s+1)
		}
		fmt.Fprintf(&b, "\terrors.RegisterTypeMigration(pkg, \"*errors_test.renamed%d\", (*renamed%d)(nil))\n", s, s+1)
	}
	fmt.Fprintf(&b, "\twant := errors.TypeKey(pkg + \"/*errors_test.renamed0\")\n\tif got := errors.GetTypeKey((*renamed%d)(nil)); got != want {\n\t\tt.Fatalf(\"type key of the newest name is %%q, want the original name %%q\", got, want)\n\t}\n}\n", n)
	return b.String()
}
