package vermc

import (
	"github.com/cockroachdb/errors"
	"github.com/gogo/protobuf/proto"
	"github.com/gogo/protobuf/types"
)

// ---- proto-native leaf lineage P ----
//
// A leaf error type that is itself a proto.Message needs no encoder and no
// decoder: encodeLeaf ships the error itself as the payload (types.Any) and
// decodeLeaf, when no leaf decoder is registered under the family name,
// returns the unmarshalled payload if it implements error ("shortcut for
// non-registered proto-encodable error types"). The Go type that comes out
// is then chosen by the *protobuf* type registry (message name -> Go type),
// not by the library's registries, and the family name of what comes out is
// computed again from that Go type and the migration table.
//
// PNativeV0 -> PNativeV1 -> PNativeV2 are three Go names of one protobuf
// message (same XXX_MessageName, same fields); PNativeAlt is a different new
// name for PNativeV0. They are hand-written in the shape protoc-gen-gogo
// emits (field tags, Reset / String / ProtoMessage), so gogo's reflection
// based (un)marshaller handles them. No leaf decoder or encoder is ever
// registered for them. The wrapper type of a version of this lineage is the
// wrapper of the plain lineage (WrapV0 -> WrapV1 -> WrapV2, WrapAlt), renamed
// in the same binaries.
//
// LIMITATION. The gogo protobuf type registry is global to the OS process
// and cannot be snapshotted or reset: proto.RegisterType ignores a second
// registration of a message name, and there is no way to unregister. So in
// this OS process every simulated process that unmarshals the payload gets
// the ONE Go type registered for the message name. The newest name,
// PNativeV2, is registered; a simulated process is faithful only if either
//   - its own type is PNativeV2 (the V2 process specs: both registration
//     orders, the single-call declaration, every subset of observation
//     points): it unmarshals the payload into its own type, or
//   - the payload is opaque to it: its binary does not have the message type
//     in its protobuf registry (types.UnmarshalAny: "message type ... isn't
//     linked in"), so that it keeps an opaqueLeaf with the untouched Any and
//     forwards it. This is what a binary that never knew the type does, and
//     also what a V0 / V1 / Alt binary does whose hand-written PNativeV<k>
//     has XXX_MessageName (enough to *send*: types.MarshalAny needs nothing
//     else) but was not registered with proto.RegisterType (needed to
//     *receive*). It is simulated by rewriting the type URL of the payload to
//     a message name nobody registered for the duration of that process's
//     decode + re-encode step (maskPayload / unmaskPayload): the library
//     only ever hands the Any to types.UnmarshalAny.
//
// Receivers at V0, V1 or Alt that *can* unmarshal the payload (new -> old,
// B -> A) are therefore NOT explorable for this lineage: they would have to
// get a *PNativeV0 / *PNativeV1 / *PNativeAlt out of the gogo registry.

// pnativeMessageName is the protobuf message name of every name of the type.
const pnativeMessageName = "verif.vermc.ProtoNativeLeaf"

// notLinkedMessageName is registered nowhere.
const notLinkedMessageName = "verif.vermc.NotLinkedIn"

const typeURLPrefix = "type.googleapis.com/"

type PNativeV0 struct {
	Msg  string `protobuf:"bytes,1,opt,name=msg,proto3" json:"msg,omitempty"`
	Code string `protobuf:"bytes,2,opt,name=code,proto3" json:"code,omitempty"`
}

func (m *PNativeV0) Reset()                   { *m = PNativeV0{} }
func (m *PNativeV0) String() string           { return proto.CompactTextString(m) }
func (*PNativeV0) ProtoMessage()              {}
func (*PNativeV0) XXX_MessageName() string    { return pnativeMessageName }
func (m *PNativeV0) Error() string            { return m.Msg }
func (m *PNativeV0) fields() (string, string) { return m.Msg, m.Code }

type PNativeV1 struct {
	Msg  string `protobuf:"bytes,1,opt,name=msg,proto3" json:"msg,omitempty"`
	Code string `protobuf:"bytes,2,opt,name=code,proto3" json:"code,omitempty"`
}

func (m *PNativeV1) Reset()                   { *m = PNativeV1{} }
func (m *PNativeV1) String() string           { return proto.CompactTextString(m) }
func (*PNativeV1) ProtoMessage()              {}
func (*PNativeV1) XXX_MessageName() string    { return pnativeMessageName }
func (m *PNativeV1) Error() string            { return m.Msg }
func (m *PNativeV1) fields() (string, string) { return m.Msg, m.Code }

type PNativeV2 struct {
	Msg  string `protobuf:"bytes,1,opt,name=msg,proto3" json:"msg,omitempty"`
	Code string `protobuf:"bytes,2,opt,name=code,proto3" json:"code,omitempty"`
}

func (m *PNativeV2) Reset()                   { *m = PNativeV2{} }
func (m *PNativeV2) String() string           { return proto.CompactTextString(m) }
func (*PNativeV2) ProtoMessage()              {}
func (*PNativeV2) XXX_MessageName() string    { return pnativeMessageName }
func (m *PNativeV2) Error() string            { return m.Msg }
func (m *PNativeV2) fields() (string, string) { return m.Msg, m.Code }

type PNativeAlt struct {
	Msg  string `protobuf:"bytes,1,opt,name=msg,proto3" json:"msg,omitempty"`
	Code string `protobuf:"bytes,2,opt,name=code,proto3" json:"code,omitempty"`
}

func (m *PNativeAlt) Reset()                   { *m = PNativeAlt{} }
func (m *PNativeAlt) String() string           { return proto.CompactTextString(m) }
func (*PNativeAlt) ProtoMessage()              {}
func (*PNativeAlt) XXX_MessageName() string    { return pnativeMessageName }
func (m *PNativeAlt) Error() string            { return m.Msg }
func (m *PNativeAlt) fields() (string, string) { return m.Msg, m.Code }

func init() {
	// the one Go type this OS process unmarshals the message into
	proto.RegisterType((*PNativeV2)(nil), pnativeMessageName)
}

// chainP[k] is the k-th name of the proto-native lineage; its wrapper type
// is the k-th name of the plain wrapper lineage.
var chainP = []*version{
	{label: "V0", leafProto: (*PNativeV0)(nil), wrapProto: (*WrapV0)(nil), protoNative: true,
		newLeaf: func(m, c string) error { return &PNativeV0{Msg: m, Code: c} },
		newWrap: func(m, c string, cause error) error { return &WrapV0{m, c, cause} }},
	{label: "V1", leafProto: (*PNativeV1)(nil), wrapProto: (*WrapV1)(nil), protoNative: true,
		newLeaf: func(m, c string) error { return &PNativeV1{Msg: m, Code: c} },
		newWrap: func(m, c string, cause error) error { return &WrapV1{m, c, cause} }},
	{label: "V2", leafProto: (*PNativeV2)(nil), wrapProto: (*WrapV2)(nil), protoNative: true,
		newLeaf: func(m, c string) error { return &PNativeV2{Msg: m, Code: c} },
		newWrap: func(m, c string, cause error) error { return &WrapV2{m, c, cause} }},
}

var altP = &version{label: "Alt", leafProto: (*PNativeAlt)(nil), wrapProto: (*WrapAlt)(nil), protoNative: true,
	newLeaf: func(m, c string) error { return &PNativeAlt{Msg: m, Code: c} },
	newWrap: func(m, c string, cause error) error { return &WrapAlt{m, c, cause} }}

const protoNativeName = "proto-native"

// protoNativeKinds: the proto-native leaf alone, under the library wrapper
// errors.Wrap, and under the renamed wrapper of the same version.
var protoNativeKinds = []string{"leaf", "wrapped-leaf", "both"}

var protoNativeLineage = &lineage{name: protoNativeName, chain: chainP, alt: altP, kinds: protoNativeKinds, protoNative: true}

// linked is the version whose leaf type is registered with gogo under the
// message name: the newest name.
func (l *lineage) linked() *version { return l.chain[l.maxN()] }

// payloadOpaque tells whether the payload of the proto-native leaf is opaque
// at process p (see LIMITATION above): every process whose own type is not
// the gogo-registered one.
func (p Proc) payloadOpaque(l *lineage) bool {
	return l.protoNative && p.cur(l) != l.linked()
}

// atNewest tells whether p is a faithful receiver for the lineage.
func (p Proc) atNewest(l *lineage) bool { return p.cur(l) == l.linked() }

// retype rewrites the type URL of every payload of the encoded error that
// has message name from; it returns how many it rewrote.
func retype(enc *errors.EncodedError, from, to string) int {
	n := 0
	fix := func(a *types.Any) {
		if a != nil && a.TypeUrl == typeURLPrefix+from {
			a.TypeUrl = typeURLPrefix + to
			n++
		}
	}
	for enc != nil {
		if w := enc.GetWrapper(); w != nil {
			fix(w.Details.FullDetails)
			enc = &w.Cause
			continue
		}
		if l := enc.GetLeaf(); l != nil {
			fix(l.Details.FullDetails)
			for _, c := range l.MultierrorCauses {
				n += retype(c, from, to)
			}
		}
		break
	}
	return n
}

// maskPayload makes the proto-native payloads of an arriving error
// un-unmarshallable ("message type isn't linked in"); unmaskPayload undoes
// it on what the process sends on.
func maskPayload(enc *errors.EncodedError) int {
	return retype(enc, pnativeMessageName, notLinkedMessageName)
}
func unmaskPayload(enc *errors.EncodedError) int {
	return retype(enc, notLinkedMessageName, pnativeMessageName)
}
