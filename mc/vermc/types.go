// Package vermc is engine E5 of the model checker: explicit-state exploration
// of version-assignment x registration-order configurations for property C17
// ("type renames do not break cross-version identity").
//
// A *type lineage* is one logical error type that has had several names over
// time: name0 (original) -> name1 -> name2 -> name3. A Go type cannot be
// renamed at run time, so every name is modelled by a distinct Go type of
// this package (LeafV0..LeafV3, WrapV0..WrapV3), plus one "differently
// renamed" type (LeafAlt, WrapAlt: another new name for name0) and one
// unrelated lineage (ULeaf0 -> ULeaf1, UWrap0 -> UWrap1).
//
// A *process* (a "code version") is a configuration of the library's
// process-global registries: which Go type stands for the lineage in that
// binary, the RegisterTypeMigration calls that binary makes (in a chosen
// order) and the decoders (optionally encoders) it registers afterwards. It
// is installed around each encode / decode step with the errbase registry
// snapshot hooks, starting every time from the pristine registries.
package vermc

import (
	"reflect"
)

// ---- leaf lineage T: four successive names, one alternative rename ----

type LeafV0 struct{ Msg string }
type LeafV1 struct{ Msg string }
type LeafV2 struct{ Msg string }
type LeafV3 struct{ Msg string }
type LeafAlt struct{ Msg string }

func (e *LeafV0) Error() string  { return e.Msg }
func (e *LeafV1) Error() string  { return e.Msg }
func (e *LeafV2) Error() string  { return e.Msg }
func (e *LeafV3) Error() string  { return e.Msg }
func (e *LeafAlt) Error() string { return e.Msg }

// ---- wrapper lineage T ----

type WrapV0 struct {
	Msg   string
	Cause error
}
type WrapV1 struct {
	Msg   string
	Cause error
}
type WrapV2 struct {
	Msg   string
	Cause error
}
type WrapV3 struct {
	Msg   string
	Cause error
}
type WrapAlt struct {
	Msg   string
	Cause error
}

func (e *WrapV0) Error() string  { return e.Msg + ": " + e.Cause.Error() }
func (e *WrapV1) Error() string  { return e.Msg + ": " + e.Cause.Error() }
func (e *WrapV2) Error() string  { return e.Msg + ": " + e.Cause.Error() }
func (e *WrapV3) Error() string  { return e.Msg + ": " + e.Cause.Error() }
func (e *WrapAlt) Error() string { return e.Msg + ": " + e.Cause.Error() }

func (e *WrapV0) Unwrap() error  { return e.Cause }
func (e *WrapV1) Unwrap() error  { return e.Cause }
func (e *WrapV2) Unwrap() error  { return e.Cause }
func (e *WrapV3) Unwrap() error  { return e.Cause }
func (e *WrapAlt) Unwrap() error { return e.Cause }

func (e *WrapV0) prefix() string  { return e.Msg }
func (e *WrapV1) prefix() string  { return e.Msg }
func (e *WrapV2) prefix() string  { return e.Msg }
func (e *WrapV3) prefix() string  { return e.Msg }
func (e *WrapAlt) prefix() string { return e.Msg }

// ---- unrelated lineage U (renamed once) ----

type ULeaf0 struct{ Msg string }
type ULeaf1 struct{ Msg string }

func (e *ULeaf0) Error() string { return e.Msg }
func (e *ULeaf1) Error() string { return e.Msg }

type UWrap0 struct {
	Msg   string
	Cause error
}
type UWrap1 struct {
	Msg   string
	Cause error
}

func (e *UWrap0) Error() string  { return e.Msg + ": " + e.Cause.Error() }
func (e *UWrap1) Error() string  { return e.Msg + ": " + e.Cause.Error() }
func (e *UWrap0) Unwrap() error  { return e.Cause }
func (e *UWrap1) Unwrap() error  { return e.Cause }
func (e *UWrap0) prefix() string { return e.Msg }
func (e *UWrap1) prefix() string { return e.Msg }

type prefixer interface{ prefix() string }

// version is one name of a lineage: the Go types that carry that name.
type version struct {
	label     string
	leafProto error // typed nil pointer, for registration and reflect
	wrapProto error
	newLeaf   func(msg string) error
	newWrap   func(msg string, cause error) error
}

func (v *version) leafType() reflect.Type { return reflect.TypeOf(v.leafProto) }
func (v *version) wrapType() reflect.Type { return reflect.TypeOf(v.wrapProto) }

// leafName / wrapName are what RegisterTypeMigration wants as
// previousTypeName: reflect.TypeOf(err).String().
func (v *version) leafName() string { return v.leafType().String() }
func (v *version) wrapName() string { return v.wrapType().String() }

// chainT[k] is the k-th name of lineage T.
var chainT = []*version{
	{"V0", (*LeafV0)(nil), (*WrapV0)(nil),
		func(m string) error { return &LeafV0{m} }, func(m string, c error) error { return &WrapV0{m, c} }},
	{"V1", (*LeafV1)(nil), (*WrapV1)(nil),
		func(m string) error { return &LeafV1{m} }, func(m string, c error) error { return &WrapV1{m, c} }},
	{"V2", (*LeafV2)(nil), (*WrapV2)(nil),
		func(m string) error { return &LeafV2{m} }, func(m string, c error) error { return &WrapV2{m, c} }},
	{"V3", (*LeafV3)(nil), (*WrapV3)(nil),
		func(m string) error { return &LeafV3{m} }, func(m string, c error) error { return &WrapV3{m, c} }},
}

// altT is the "other rename": a different new name for name0.
var altT = &version{"Alt", (*LeafAlt)(nil), (*WrapAlt)(nil),
	func(m string) error { return &LeafAlt{m} }, func(m string, c error) error { return &WrapAlt{m, c} }}

// chainU is the unrelated lineage: every knowing process has U at its
// second name.
var chainU = []*version{
	{"U0", (*ULeaf0)(nil), (*UWrap0)(nil),
		func(m string) error { return &ULeaf0{m} }, func(m string, c error) error { return &UWrap0{m, c} }},
	{"U1", (*ULeaf1)(nil), (*UWrap1)(nil),
		func(m string) error { return &ULeaf1{m} }, func(m string, c error) error { return &UWrap1{m, c} }},
}

// pkgPath is the package path of all the types above.
var pkgPath = reflect.TypeOf(LeafV0{}).PkgPath()

// modelKey is the reference model of a type key: "<pkgpath>/<type name>".
// (Written from the documentation of RegisterTypeMigration, not by calling
// the library.)
func modelKey(typeName string) string { return pkgPath + "/" + typeName }
