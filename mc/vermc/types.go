// Package vermc is engine E5 of the model checker: explicit-state exploration
// of version-assignment x registration-order configurations for property C17
// ("type renames do not break cross-version identity").
//
// A *type lineage* is one logical error type that has had several names over
// time: name0 (original) -> name1 -> name2 -> name3. A Go type cannot be
// renamed at run time, so every name is modelled by a distinct Go type of
// this package (LeafV0..LeafV3, WrapV0..WrapV3, MultiV0..MultiV3), plus one
// "differently renamed" type (LeafAlt, ...: another new name for name0) and
// one unrelated lineage (ULeaf0 -> ULeaf1, ...). Generic lineages
// (GLeafV0[P] -> GLeafV1[P], GWrapV0[P] -> GWrapV1[P]) are instantiated with
// a built-in type argument, a named type of this package and a pointer to
// it: their reflected names contain brackets and, for the last two, an
// import path. The proto-native leaf lineage (PNativeV0 -> PNativeV1 ->
// PNativeV2, PNativeAlt; types_proto.go) is a leaf type that is itself a
// protobuf message and travels as its own payload, without any registered
// encoder or decoder; only receivers at its newest name are explored (the
// protobuf type registry is global to the OS process: see the LIMITATION
// paragraph in types_proto.go). The marker lineage (types_marker.go) has
// types that implement ErrorKeyMarker; in the receiver-kind lineages
// (types_recv.go) a rename also changes a pointer type into a value type or
// back.
//
// Every type has a field Code that Error() does not show: it only crosses
// the wire in the payload of a custom encoder.
//
// A *process* (a "code version") is a configuration of the library's
// process-global registries: which Go type stands for the lineage in that
// binary, the RegisterTypeMigration calls that binary makes (in a chosen
// order) and the decoders (optionally encoders) it registers afterwards. It
// is installed around each encode / decode step with the errbase registry
// snapshot hooks, starting every time from the pristine registries.
package vermc

import (
	"reflect"
)

// fielder gives the custom encoders access to what they put in the payload.
type fielder interface{ fields() (msg, code string) }

// ---- leaf lineage T: four successive names, one alternative rename ----

type LeafV0 struct{ Msg, Code string }

func (e *LeafV0) Error() string            { return e.Msg }
func (e *LeafV0) fields() (string, string) { return e.Msg, e.Code }

type LeafV1 struct{ Msg, Code string }

func (e *LeafV1) Error() string            { return e.Msg }
func (e *LeafV1) fields() (string, string) { return e.Msg, e.Code }

type LeafV2 struct{ Msg, Code string }

func (e *LeafV2) Error() string            { return e.Msg }
func (e *LeafV2) fields() (string, string) { return e.Msg, e.Code }

type LeafV3 struct{ Msg, Code string }

func (e *LeafV3) Error() string            { return e.Msg }
func (e *LeafV3) fields() (string, string) { return e.Msg, e.Code }

type LeafAlt struct{ Msg, Code string }

func (e *LeafAlt) Error() string            { return e.Msg }
func (e *LeafAlt) fields() (string, string) { return e.Msg, e.Code }

// ---- wrapper lineage T ----

type WrapV0 struct {
	Msg, Code string
	Cause     error
}

func (e *WrapV0) Error() string            { return e.Msg + ": " + e.Cause.Error() }
func (e *WrapV0) Unwrap() error            { return e.Cause }
func (e *WrapV0) fields() (string, string) { return e.Msg, e.Code }

type WrapV1 struct {
	Msg, Code string
	Cause     error
}

func (e *WrapV1) Error() string            { return e.Msg + ": " + e.Cause.Error() }
func (e *WrapV1) Unwrap() error            { return e.Cause }
func (e *WrapV1) fields() (string, string) { return e.Msg, e.Code }

type WrapV2 struct {
	Msg, Code string
	Cause     error
}

func (e *WrapV2) Error() string            { return e.Msg + ": " + e.Cause.Error() }
func (e *WrapV2) Unwrap() error            { return e.Cause }
func (e *WrapV2) fields() (string, string) { return e.Msg, e.Code }

type WrapV3 struct {
	Msg, Code string
	Cause     error
}

func (e *WrapV3) Error() string            { return e.Msg + ": " + e.Cause.Error() }
func (e *WrapV3) Unwrap() error            { return e.Cause }
func (e *WrapV3) fields() (string, string) { return e.Msg, e.Code }

type WrapAlt struct {
	Msg, Code string
	Cause     error
}

func (e *WrapAlt) Error() string            { return e.Msg + ": " + e.Cause.Error() }
func (e *WrapAlt) Unwrap() error            { return e.Cause }
func (e *WrapAlt) fields() (string, string) { return e.Msg, e.Code }

// ---- multi-cause lineage T ----

type MultiV0 struct {
	Msg, Code string
	Causes    []error
}

func (e *MultiV0) Error() string            { return e.Msg }
func (e *MultiV0) Unwrap() []error          { return e.Causes }
func (e *MultiV0) fields() (string, string) { return e.Msg, e.Code }

type MultiV1 struct {
	Msg, Code string
	Causes    []error
}

func (e *MultiV1) Error() string            { return e.Msg }
func (e *MultiV1) Unwrap() []error          { return e.Causes }
func (e *MultiV1) fields() (string, string) { return e.Msg, e.Code }

type MultiV2 struct {
	Msg, Code string
	Causes    []error
}

func (e *MultiV2) Error() string            { return e.Msg }
func (e *MultiV2) Unwrap() []error          { return e.Causes }
func (e *MultiV2) fields() (string, string) { return e.Msg, e.Code }

type MultiV3 struct {
	Msg, Code string
	Causes    []error
}

func (e *MultiV3) Error() string            { return e.Msg }
func (e *MultiV3) Unwrap() []error          { return e.Causes }
func (e *MultiV3) fields() (string, string) { return e.Msg, e.Code }

type MultiAlt struct {
	Msg, Code string
	Causes    []error
}

func (e *MultiAlt) Error() string            { return e.Msg }
func (e *MultiAlt) Unwrap() []error          { return e.Causes }
func (e *MultiAlt) fields() (string, string) { return e.Msg, e.Code }

// ---- unrelated lineage U (renamed once) ----

type ULeaf0 struct{ Msg, Code string }

func (e *ULeaf0) Error() string            { return e.Msg }
func (e *ULeaf0) fields() (string, string) { return e.Msg, e.Code }

type UWrap0 struct {
	Msg, Code string
	Cause     error
}

func (e *UWrap0) Error() string            { return e.Msg + ": " + e.Cause.Error() }
func (e *UWrap0) Unwrap() error            { return e.Cause }
func (e *UWrap0) fields() (string, string) { return e.Msg, e.Code }

type UMulti0 struct {
	Msg, Code string
	Causes    []error
}

func (e *UMulti0) Error() string            { return e.Msg }
func (e *UMulti0) Unwrap() []error          { return e.Causes }
func (e *UMulti0) fields() (string, string) { return e.Msg, e.Code }

type ULeaf1 struct{ Msg, Code string }

func (e *ULeaf1) Error() string            { return e.Msg }
func (e *ULeaf1) fields() (string, string) { return e.Msg, e.Code }

type UWrap1 struct {
	Msg, Code string
	Cause     error
}

func (e *UWrap1) Error() string            { return e.Msg + ": " + e.Cause.Error() }
func (e *UWrap1) Unwrap() error            { return e.Cause }
func (e *UWrap1) fields() (string, string) { return e.Msg, e.Code }

type UMulti1 struct {
	Msg, Code string
	Causes    []error
}

func (e *UMulti1) Error() string            { return e.Msg }
func (e *UMulti1) Unwrap() []error          { return e.Causes }
func (e *UMulti1) fields() (string, string) { return e.Msg, e.Code }

// ---- generic lineages (renamed once) ----

// Payload is a named type of this package used as a type argument.
type Payload struct{ N int }

type GLeafV0[P any] struct {
	Msg, Code string
	Arg       P
}

func (e *GLeafV0[P]) Error() string            { return e.Msg }
func (e *GLeafV0[P]) fields() (string, string) { return e.Msg, e.Code }

type GWrapV0[P any] struct {
	Msg, Code string
	Cause     error
	Arg       P
}

func (e *GWrapV0[P]) Error() string            { return e.Msg + ": " + e.Cause.Error() }
func (e *GWrapV0[P]) Unwrap() error            { return e.Cause }
func (e *GWrapV0[P]) fields() (string, string) { return e.Msg, e.Code }

type GLeafV1[P any] struct {
	Msg, Code string
	Arg       P
}

func (e *GLeafV1[P]) Error() string            { return e.Msg }
func (e *GLeafV1[P]) fields() (string, string) { return e.Msg, e.Code }

type GWrapV1[P any] struct {
	Msg, Code string
	Cause     error
	Arg       P
}

func (e *GWrapV1[P]) Error() string            { return e.Msg + ": " + e.Cause.Error() }
func (e *GWrapV1[P]) Unwrap() error            { return e.Cause }
func (e *GWrapV1[P]) fields() (string, string) { return e.Msg, e.Code }

// version is one name of a lineage: the Go types that carry that name.
type version struct {
	label      string
	leafProto  error // typed nil pointers (zero values of value types), for registration and reflect
	wrapProto  error
	multiProto error // nil: the lineage has no multi-cause type
	newLeaf    func(msg, code string) error
	newWrap    func(msg, code string, cause error) error
	newMulti   func(msg, code string, causes []error) error
	// protoNative: the leaf type is itself a proto.Message; it has no leaf
	// encoder and no leaf decoder (types_proto.go).
	protoNative bool
	// marked: marker lineage only (types_marker.go): the same version whose
	// constructors give the instances another ErrorKeyMarker.
	marked func(mark string) *version
}

func (v *version) leafType() reflect.Type  { return reflect.TypeOf(v.leafProto) }
func (v *version) wrapType() reflect.Type  { return reflect.TypeOf(v.wrapProto) }
func (v *version) multiType() reflect.Type { return reflect.TypeOf(v.multiProto) }

// leafName / wrapName / multiName are what RegisterTypeMigration wants as
// previousTypeName: reflect.TypeOf(err).String(), exactly what an application
// would write; pkg is what it wants as previousPkgPath.
func (v *version) leafName() string  { return v.leafType().String() }
func (v *version) wrapName() string  { return v.wrapType().String() }
func (v *version) multiName() string { return v.multiType().String() }
func (v *version) pkg() string {
	t := v.leafType()
	if t.Kind() == reflect.Ptr {
		t = t.Elem()
	}
	return t.PkgPath()
}

// protos lists the error types of the version with their role.
func (v *version) protos() []typedProto {
	ps := []typedProto{{"leaf", v.leafProto}, {"wrap", v.wrapProto}}
	if v.multiProto != nil {
		ps = append(ps, typedProto{"multi", v.multiProto})
	}
	return ps
}

type typedProto struct {
	role  string
	proto error
}

func (v *version) typeOf(role string) reflect.Type {
	switch role {
	case "wrap":
		return v.wrapType()
	case "multi":
		return v.multiType()
	}
	return v.leafType()
}

// chainT[k] is the k-th name of lineage T.
var chainT = []*version{
	{label: "V0", leafProto: (*LeafV0)(nil), wrapProto: (*WrapV0)(nil), multiProto: (*MultiV0)(nil),
		newLeaf:  func(m, c string) error { return &LeafV0{m, c} },
		newWrap:  func(m, c string, cause error) error { return &WrapV0{m, c, cause} },
		newMulti: func(m, c string, causes []error) error { return &MultiV0{m, c, causes} }},
	{label: "V1", leafProto: (*LeafV1)(nil), wrapProto: (*WrapV1)(nil), multiProto: (*MultiV1)(nil),
		newLeaf:  func(m, c string) error { return &LeafV1{m, c} },
		newWrap:  func(m, c string, cause error) error { return &WrapV1{m, c, cause} },
		newMulti: func(m, c string, causes []error) error { return &MultiV1{m, c, causes} }},
	{label: "V2", leafProto: (*LeafV2)(nil), wrapProto: (*WrapV2)(nil), multiProto: (*MultiV2)(nil),
		newLeaf:  func(m, c string) error { return &LeafV2{m, c} },
		newWrap:  func(m, c string, cause error) error { return &WrapV2{m, c, cause} },
		newMulti: func(m, c string, causes []error) error { return &MultiV2{m, c, causes} }},
	{label: "V3", leafProto: (*LeafV3)(nil), wrapProto: (*WrapV3)(nil), multiProto: (*MultiV3)(nil),
		newLeaf:  func(m, c string) error { return &LeafV3{m, c} },
		newWrap:  func(m, c string, cause error) error { return &WrapV3{m, c, cause} },
		newMulti: func(m, c string, causes []error) error { return &MultiV3{m, c, causes} }},
}

// altT is the "other rename": a different new name for name0.
var altT = &version{label: "Alt", leafProto: (*LeafAlt)(nil), wrapProto: (*WrapAlt)(nil), multiProto: (*MultiAlt)(nil),
	newLeaf:  func(m, c string) error { return &LeafAlt{m, c} },
	newWrap:  func(m, c string, cause error) error { return &WrapAlt{m, c, cause} },
	newMulti: func(m, c string, causes []error) error { return &MultiAlt{m, c, causes} }}

// chainU is the unrelated lineage: every knowing process has U at its
// second name.
var chainU = []*version{
	{label: "U0", leafProto: (*ULeaf0)(nil), wrapProto: (*UWrap0)(nil), multiProto: (*UMulti0)(nil),
		newLeaf:  func(m, c string) error { return &ULeaf0{m, c} },
		newWrap:  func(m, c string, cause error) error { return &UWrap0{m, c, cause} },
		newMulti: func(m, c string, causes []error) error { return &UMulti0{m, c, causes} }},
	{label: "U1", leafProto: (*ULeaf1)(nil), wrapProto: (*UWrap1)(nil), multiProto: (*UMulti1)(nil),
		newLeaf:  func(m, c string) error { return &ULeaf1{m, c} },
		newWrap:  func(m, c string, cause error) error { return &UWrap1{m, c, cause} },
		newMulti: func(m, c string, causes []error) error { return &UMulti1{m, c, causes} }},
}

// genericChain is the lineage GLeafV0[P] -> GLeafV1[P] (and GWrap) for one
// type argument.
func genericChain[P any]() []*version {
	return []*version{
		{label: "V0", leafProto: (*GLeafV0[P])(nil), wrapProto: (*GWrapV0[P])(nil),
			newLeaf: func(m, c string) error { return &GLeafV0[P]{Msg: m, Code: c} },
			newWrap: func(m, c string, cause error) error { return &GWrapV0[P]{Msg: m, Code: c, Cause: cause} }},
		{label: "V1", leafProto: (*GLeafV1[P])(nil), wrapProto: (*GWrapV1[P])(nil),
			newLeaf: func(m, c string) error { return &GLeafV1[P]{Msg: m, Code: c} },
			newWrap: func(m, c string, cause error) error { return &GWrapV1[P]{Msg: m, Code: c, Cause: cause} }},
	}
}

// lineage is one logical type with its successive names.
type lineage struct {
	// name is "" for the plain lineage T, else "generic-<type argument>".
	name  string
	chain []*version
	alt   *version // nil: no differently renamed version
	kinds []string
	// protoNative: the proto-native leaf lineage (types_proto.go); only
	// processes at the newest name are receivers.
	protoNative bool
	// marker: the types implement ErrorKeyMarker (types_marker.go).
	marker bool
	// recvKind: the renames also change pointer <-> value (types_recv.go).
	recvKind bool
}

func (l *lineage) maxN() int { return len(l.chain) - 1 }

// allKinds is kinds plus the middle-layer kind, which has its own, smaller
// enumeration.
func (l *lineage) allKinds() []string {
	if l.protoNative {
		return l.kinds
	}
	return append(append([]string{}, l.kinds...), kindMid)
}

// versions lists every version of the lineage.
func (l *lineage) versions() []*version {
	vs := append([]*version{}, l.chain...)
	if l.alt != nil {
		vs = append(vs, l.alt)
	}
	return vs
}

var (
	plainKinds   = []string{"leaf", "wrapper", "wrapped-leaf", "both", "multi"}
	genericKinds = []string{"leaf", "wrapper", "wrapped-leaf", "both"}

	plainLineage = &lineage{name: "", chain: chainT, alt: altT, kinds: plainKinds}
	lineages     = []*lineage{
		plainLineage,
		{name: "generic-int", chain: genericChain[int](), kinds: genericKinds},
		{name: "generic-named", chain: genericChain[Payload](), kinds: genericKinds},
		{name: "generic-pointer", chain: genericChain[*Payload](), kinds: genericKinds},
		protoNativeLineage,
		markerLineage,
		recvPVPLineage,
		recvVPVLineage,
	}
)

func lineageByName(name string) *lineage {
	for _, l := range lineages {
		if l.name == name {
			return l
		}
	}
	return nil
}

// pkgPath is the package path of all the types above.
var pkgPath = reflect.TypeOf(LeafV0{}).PkgPath()

// modelKey is the reference model of a type key: "<pkgpath>/<type name>",
// the type name being reflect.TypeOf(err).String() verbatim. (Written from
// the documentation of RegisterTypeMigration, not by calling the library.)
func modelKey(typeName string) string { return pkgPath + "/" + typeName }
