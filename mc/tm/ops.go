package tm

import (
	"context"
	goerrors "errors"
	"fmt"
	"io"
	"net"
	"net/url"
	"os"
	"strconv"
	"strings"
	"syscall"

	"github.com/cockroachdb/errors"
	"github.com/cockroachdb/errors/barriers"
	"github.com/cockroachdb/errors/domains"
	"github.com/cockroachdb/errors/errorspb"
	"github.com/cockroachdb/errors/extgrpc"
	"github.com/cockroachdb/errors/exthttp"
	"github.com/cockroachdb/errors/join"
	"github.com/cockroachdb/logtags"
	"github.com/gogo/protobuf/proto"
	gogostatus "github.com/gogo/status"
	pkgerrors "github.com/pkg/errors"
	"google.golang.org/grpc/codes"
	grpcstatus "google.golang.org/grpc/status"

	"verif/mc/ut"
)

// GrpcCodeSweep lists the codes of the WrapWithGrpcCode#k ops.
// Code 0 (OK) is skipped by C20 only: gRPC defines OK as "no error"
// (status.Err() is nil), so a non-nil error cannot travel with it; see
// DESIGN.md §4.4. Everywhere else it is an annotation like any other.
var GrpcCodeSweep = []int{0, 1, 2, 3, 4, 5, 6, 7, 8, 9, 10, 11, 12, 13, 14, 15, 16, 17, 99}

// All is the full alphabet, simplest first within each kind.
var (
	Leaves   []*Op
	Wrappers []*Op // KWrap and KMulti ops (both take an inner term)
	// Quirks are wrapper ops kept out of the general spaces (Op.QuirkOf).
	Quirks []*Op
)

func reg(op *Op) *Op {
	if OpByName[op.Name] != nil {
		panic("duplicate op " + op.Name)
	}
	OpByName[op.Name] = op
	switch {
	case op.QuirkOf != "":
		Quirks = append(Quirks, op)
	case op.ExtraOnly:
	case op.Kind == KLeaf:
		Leaves = append(Leaves, op)
	default:
		Wrappers = append(Wrappers, op)
	}
	return op
}

// mixedVerbs: one format with several verbs and argument kinds (int, Safe
// value, quoted string, bytes in hex, nil, float with width/precision, struct).
const mixedVerbs = " %d %v %q %x %v %6.2f %v"

type mixedStruct struct {
	A int
	B string
}

func mixedText(s []string) string {
	return fmt.Sprintf(pct(s[0])+mixedVerbs, 42, s[1], s[2], []byte("ab"), nil, 3.14159, mixedStruct{1, "b"})
}

func pct(s string) string { return strings.ReplaceAll(s, "%", "%%") }

func safe(names ...string) []Slot {
	var s []Slot
	for _, n := range names {
		s = append(s, Slot{Name: n, Safe: true})
	}
	return s
}

// safeNoRep: printed as safe locally (special-case printer / user
// SafeFormatter) but outside the list of information C12 requires to be
// retained after transfer.
func safeNoRep(names ...string) []Slot {
	var s []Slot
	for _, n := range names {
		s = append(s, Slot{Name: n, Safe: true, NoReport: true})
	}
	return s
}
func unsafe(names ...string) []Slot {
	var s []Slot
	for _, n := range names {
		s = append(s, Slot{Name: n})
	}
	return s
}
func slots(ss ...[]Slot) []Slot {
	var r []Slot
	for _, s := range ss {
		r = append(r, s...)
	}
	return r
}

func libLeaf(text string, safeToks, unsafeToks []string) *Node {
	n := Leaf(text)
	n.Lib = true
	n.Safe, n.Unsafe = safeToks, unsafeToks
	return n
}

func foreignLeaf(text string, unsafeToks ...string) *Node {
	n := Leaf(text)
	n.Unsafe = unsafeToks
	return n
}

func libPrefix(p string, c *Node, safeToks, unsafeToks []string) *Node {
	n := Prefix(p, c)
	n.Lib = true
	n.Safe, n.Unsafe = safeToks, unsafeToks
	return n
}

func foreignPrefix(p string, c *Node, unsafeToks ...string) *Node {
	n := Prefix(p, c)
	n.Unsafe = unsafeToks
	return n
}

func fullMsg(text string, c *Node) *Node {
	return &Node{Text: text, Own: text, Cause: c, Role: "full", GRPC: -1}
}

func barrier(text string, hidden *Node) *Node {
	return &Node{Text: text, Own: text, Role: "barrier", Hidden: []*Node{hidden}, Barrier: true, GRPC: -1, Lib: true}
}

func multi(text string, branches []*Node) *Node {
	return &Node{Text: text, Own: text, Role: "multi", Multi: branches, GRPC: -1}
}

func sentinelLeaf(name string, e error, class string) *Op {
	return reg(&Op{Name: name, Kind: KLeaf, Class: class,
		Build: func(s []string, _ error, _ []error) error { return e },
		Model: func(s []string, _ *Node, _ []*Node) *Node {
			n := Leaf(e.Error())
			n.Is = []string{name}
			return n
		}})
}

// ThisDomain is the package domain of package tm (what domains.New and
// domains.Handled called from here must denote).
var ThisDomain = string(domains.PackageDomain())

// Addr is a net.Addr whose text comes from a slot.
type Addr struct{ S string }

func (a Addr) Network() string { return "tcp" }
func (a Addr) String() string  { return a.S }

// MakeOpaqueErrno obtains an *errbase.OpaqueErrno through the public API:
// an errno that was encoded on another platform.
func MakeOpaqueErrno(e syscall.Errno) error {
	enc := errors.EncodeError(context.Background(), e)
	leaf := enc.GetLeaf()
	var p errorspb.ErrnoPayload
	if err := proto.Unmarshal(leaf.Details.FullDetails.Value, &p); err != nil {
		panic(err)
	}
	p.Arch = "plan9:verif"
	b, err := proto.Marshal(&p)
	if err != nil {
		panic(err)
	}
	leaf.Details.FullDetails.Value = b
	return errors.DecodeError(context.Background(), enc)
}

// RuntimeError returns a genuine runtime.Error.
func RuntimeError() (err error) {
	defer func() { err = recover().(error) }()
	var a []int
	i := 5
	_ = a[i]
	return nil
}

func tagCtx(kv ...interface{}) context.Context {
	ctx := context.Background()
	for i := 0; i+1 < len(kv); i += 2 {
		ctx = logtags.AddTag(ctx, kv[i].(string), kv[i+1])
	}
	return ctx
}

func sprintf(format string, args ...interface{}) string { return fmt.Sprintf(format, args...) }

func init() {
	// ------------------------------------------------------------------
	// Leaves
	// ------------------------------------------------------------------
	reg(&Op{Name: "New", Kind: KLeaf, Slots: safe("msg"), Class: "lib-leaf", Lib: true, Core: true,
		Build: func(s []string, _ error, _ []error) error { return errors.New(s[0]) },
		Model: func(s []string, _ *Node, _ []*Node) *Node { return Stack(libLeaf(s[0], s, nil)) }})
	reg(&Op{Name: "New@generic", Kind: KLeaf, Slots: safe("msg"), Class: "lib-leaf", Lib: true,
		Build: func(s []string, _ error, _ []error) error { return newAtGeneric(s[0], 1) },
		Model: func(s []string, _ *Node, _ []*Node) *Node { return Stack(libLeaf(s[0], s, nil)) }})
	reg(&Op{Name: "New@genericmethod", Kind: KLeaf, Slots: safe("msg"), Class: "lib-leaf", Lib: true,
		Build: func(s []string, _ error, _ []error) error { return (&genericSite[string]{}).make(s[0]) },
		Model: func(s []string, _ *Node, _ []*Node) *Node { return Stack(libLeaf(s[0], s, nil)) }})
	reg(&Op{Name: "New@unknownfn", Kind: KLeaf, Slots: safe("msg"), Class: "lib-leaf", Lib: true,
		Build: func(s []string, _ error, _ []error) error { return unknown(s[0]) },
		Model: func(s []string, _ *Node, _ []*Node) *Node { return Stack(libLeaf(s[0], s, nil)) }})
	reg(&Op{Name: "New@colonpath", Kind: KLeaf, Slots: safe("msg"), Class: "lib-leaf", Lib: true,
		Build: func(s []string, _ error, _ []error) error { return newAtColonSite(s[0]) },
		Model: func(s []string, _ *Node, _ []*Node) *Node { return Stack(libLeaf(s[0], s, nil)) }})
	reg(&Op{Name: "GoNew", Kind: KLeaf, Slots: unsafe("msg"), Class: "foreign-leaf", Core: true,
		Build: func(s []string, _ error, _ []error) error { return goerrors.New(s[0]) },
		Model: func(s []string, _ *Node, _ []*Node) *Node { return foreignLeaf(s[0], s[0]) }})
	reg(&Op{Name: "Newf_u", Kind: KLeaf, Slots: slots(safe("fmt"), unsafe("arg")), Class: "lib-leaf", Lib: true, Core: true,
		Build: func(s []string, _ error, _ []error) error { return errors.Newf(pct(s[0])+" %s", s[1]) },
		Model: func(s []string, _ *Node, _ []*Node) *Node {
			return Stack(libLeaf(s[0]+" "+s[1], s[:1], s[1:]))
		}})
	reg(&Op{Name: "Newf_mixed", Kind: KLeaf, Slots: slots(safe("fmt", "safearg"), unsafe("qarg")), Class: "lib-leaf", Lib: true,
		Build: func(s []string, _ error, _ []error) error {
			return errors.Newf(pct(s[0])+mixedVerbs, 42, errors.Safe(s[1]), s[2], []byte("ab"), nil, 3.14159, mixedStruct{1, "b"})
		},
		Model: func(s []string, _ *Node, _ []*Node) *Node { return Stack(libLeaf(mixedText(s), s[:2], s[2:])) }})
	reg(&Op{Name: "Newf_s", Kind: KLeaf, Slots: safe("fmt", "safearg"), Class: "lib-leaf", Lib: true,
		Build: func(s []string, _ error, _ []error) error { return errors.Newf(pct(s[0])+" %s", errors.Safe(s[1])) },
		Model: func(s []string, _ *Node, _ []*Node) *Node { return Stack(libLeaf(s[0]+" "+s[1], s, nil)) }})
	reg(&Op{Name: "Errorf_v", Kind: KLeaf, Slots: slots(safe("fmt"), unsafe("arg")), Class: "lib-leaf", Lib: true,
		Build: func(s []string, _ error, _ []error) error { return errors.Errorf(pct(s[0])+"=%v", s[1]) },
		Model: func(s []string, _ *Node, _ []*Node) *Node {
			return Stack(libLeaf(s[0]+"="+s[1], s[:1], s[1:]))
		}})
	reg(&Op{Name: "Newf_raw", Kind: KLeaf, Slots: []Slot{{Name: "fmt", Safe: true, Fmt: true}}, Class: "lib-leaf", Lib: true,
		Build: func(s []string, _ error, _ []error) error { return errors.Newf(s[0]) },
		Model: func(s []string, _ *Node, _ []*Node) *Node { return Stack(libLeaf(sprintf(s[0]), s, nil)) }})
	reg(&Op{Name: "Newf_e", Kind: KLeaf, Slots: safe("fmt"), NSide: 1, Class: "lib-leaf", Lib: true,
		Build: func(s []string, _ error, side []error) error { return errors.Newf(pct(s[0])+" %v", side[0]) },
		Model: func(s []string, _ *Node, side []*Node) *Node {
			return Stack(Secondary(libLeaf(s[0]+" "+side[0].Text, s, nil), side[0]))
		}})
	reg(&Op{Name: "AssertionFailedf", Kind: KLeaf, Slots: slots(safe("fmt"), unsafe("arg")), Class: "lib-leaf", Lib: true,
		Build: func(s []string, _ error, _ []error) error { return errors.AssertionFailedf(pct(s[0])+" %s", s[1]) },
		Model: func(s []string, _ *Node, _ []*Node) *Node {
			n := Annot(Stack(libLeaf(s[0]+" "+s[1], s[:1], s[1:])))
			n.Assert = true
			return n
		}})
	reg(&Op{Name: "Unimplemented", Kind: KLeaf, Slots: slots(unsafe("msg"), safe("url", "detail")), Class: "lib-leaf", Lib: true,
		Build: func(s []string, _ error, _ []error) error {
			return errors.UnimplementedError(errors.IssueLink{IssueURL: s[1], Detail: s[2]}, s[0])
		},
		Model: func(s []string, _ *Node, _ []*Node) *Node {
			n := libLeaf(s[0], s[1:], s[:1])
			n.Unimpl = true
			n.Links = []Link{{s[1], s[2]}}
			return n
		}})
	reg(&Op{Name: "Unimplementedf_nolink", Kind: KLeaf, Slots: unsafe("msg"), Class: "lib-leaf", Lib: true,
		Build: func(s []string, _ error, _ []error) error {
			return errors.UnimplementedErrorf(errors.IssueLink{}, "%s", s[0])
		},
		Model: func(s []string, _ *Node, _ []*Node) *Node {
			n := libLeaf(s[0], nil, s)
			n.Unimpl = true
			n.Links = []Link{{}}
			return n
		}})
	reg(&Op{Name: "PkgNew", Kind: KLeaf, Slots: unsafe("msg"), Class: "foreign-leaf",
		Build: func(s []string, _ error, _ []error) error { return pkgerrors.New(s[0]) },
		Model: func(s []string, _ *Node, _ []*Node) *Node { n := foreignLeaf(s[0], s[0]); n.Stack = true; return n }})
	reg(&Op{Name: "DomainsNew", Kind: KLeaf, Slots: unsafe("msg"), Class: "lib-leaf", Lib: true,
		Build: func(s []string, _ error, _ []error) error { return domains.New(s[0]) },
		Model: func(s []string, _ *Node, _ []*Node) *Node {
			n := Annot(foreignLeaf(s[0], s[0]))
			n.Domain = ThisDomain
			return n
		}})

	// sentinels
	sentinelLeaf("context.Canceled", context.Canceled, "sentinel").Core = true
	sentinelLeaf("context.DeadlineExceeded", context.DeadlineExceeded, "sentinel")
	sentinelLeaf("os.ErrNotExist", os.ErrNotExist, "sentinel")
	sentinelLeaf("os.ErrPermission", os.ErrPermission, "sentinel")
	sentinelLeaf("os.ErrExist", os.ErrExist, "sentinel")
	sentinelLeaf("os.ErrInvalid", os.ErrInvalid, "sentinel")
	sentinelLeaf("os.ErrClosed", os.ErrClosed, "sentinel")
	sentinelLeaf("io.EOF", io.EOF, "sentinel")
	sentinelLeaf("ut.Sentinel", ut.Sentinel, "sentinel")
	sentinelLeaf("ENOENT", syscall.ENOENT, "errno").Core = true
	sentinelLeaf("EACCES", syscall.EACCES, "errno")
	sentinelLeaf("EEXIST", syscall.EEXIST, "errno")
	sentinelLeaf("ETIMEDOUT", syscall.ETIMEDOUT, "errno")
	reg(&Op{Name: "OpaqueErrno", Kind: KLeaf, Class: "errno",
		Build: func(s []string, _ error, _ []error) error { return MakeOpaqueErrno(syscall.EACCES) },
		Model: func(s []string, _ *Node, _ []*Node) *Node { return Leaf(syscall.EACCES.Error()) }})
	reg(&Op{Name: "RuntimeError", Kind: KLeaf, Class: "foreign-leaf", Unreg: true,
		Build: func(s []string, _ error, _ []error) error { return RuntimeError() },
		Model: func(s []string, _ *Node, _ []*Node) *Node { return Leaf(RuntimeError().Error()) }})
	reg(&Op{Name: "GrpcStatus", Kind: KLeaf, Slots: unsafe("msg"), Class: "foreign-leaf",
		Build: func(s []string, _ error, _ []error) error { return grpcstatus.Error(codes.NotFound, s[0]) },
		Model: func(s []string, _ *Node, _ []*Node) *Node {
			return foreignLeaf("rpc error: code = NotFound desc = "+s[0], s[0])
		}})
	reg(&Op{Name: "GogoStatus", Kind: KLeaf, Slots: unsafe("msg"), Class: "foreign-leaf",
		Build: func(s []string, _ error, _ []error) error { return gogostatus.Error(codes.Aborted, s[0]) },
		Model: func(s []string, _ *Node, _ []*Node) *Node {
			return foreignLeaf("rpc error: code = Aborted desc = "+s[0], s[0])
		}})
	reg(&Op{Name: "ProtoLeaf", Kind: KLeaf, Class: "foreign-leaf",
		Build: func(s []string, _ error, _ []error) error { return &errorspb.TestError{} },
		Model: func(s []string, _ *Node, _ []*Node) *Node { return Leaf("test error") }})

	reg(&Op{Name: "net.DNSError", Kind: KLeaf, Slots: unsafe("err", "name"), Class: "foreign-leaf", Unreg: true,
		Build: func(s []string, _ error, _ []error) error { return &net.DNSError{Err: s[0], Name: s[1]} },
		Model: func(s []string, _ *Node, _ []*Node) *Node { return foreignLeaf("lookup "+s[1]+": "+s[0], s[0], s[1]) }})
	// the same with the resolver's flags set (Timeout()/NotFound behaviour is
	// lost in transit for this unregistered type, hence rendering properties only)
	for _, fl := range []struct {
		name              string
		timeout, notFound bool
	}{{"net.DNSError_timeout", true, false}, {"net.DNSError_notfound", false, true}} {
		fl := fl
		reg(&Op{Name: fl.name, Kind: KLeaf, Slots: unsafe("err", "name"), Class: "foreign-leaf", Unreg: true,
			QuirkOf: "net.DNSError", QuirkFor: []string{"C03", "C06", "C09", "C10", "C12"},
			Build: func(s []string, _ error, _ []error) error {
				return &net.DNSError{Err: s[0], Name: s[1], IsTimeout: fl.timeout, IsNotFound: fl.notFound}
			},
			Model: func(s []string, _ *Node, _ []*Node) *Node { return foreignLeaf("lookup "+s[1]+": "+s[0], s[0], s[1]) }})
	}
	reg(&Op{Name: "ut.AsTargetLeaf", Kind: KLeaf, Slots: unsafe("from"), Class: "user-leaf", Unreg: true,
		Build: func(s []string, _ error, _ []error) error { return &ut.AsTarget{From: s[0]} },
		Model: func(s []string, _ *Node, _ []*Node) *Node { return foreignLeaf("as-target from "+s[0], s[0]) }})

	// user leaves
	uleaf := func(name string, unreg bool, mk func(m string) error) *Op {
		return reg(&Op{Name: name, Kind: KLeaf, Slots: unsafe("msg"), Class: "user-leaf", Unreg: unreg,
			Build: func(s []string, _ error, _ []error) error { return mk(s[0]) },
			Model: func(s []string, _ *Node, _ []*Node) *Node { return foreignLeaf(s[0], s[0]) }})
	}
	uleaf("ut.PtrLeaf", true, func(m string) error { return &ut.PtrLeaf{Msg: m} }).Core = true
	uleaf("ut.RegLeaf", false, func(m string) error { return &ut.RegLeaf{Msg: m} })
	uleaf("ut.ValLeaf", true, func(m string) error { return ut.ValLeaf{Msg: m} })
	uleaf("ut.NCLeaf", true, func(m string) error { return ut.NCLeaf{Msg: m, X: []int{1}} })
	uleaf("ut.RegNCLeaf", false, func(m string) error { return ut.RegNCLeaf{Msg: m, X: []int{1}} })
	isl := uleaf("ut.IsLeaf", true, func(m string) error { return &ut.IsLeaf{Msg: m} })
	_ = isl
	osl := uleaf("ut.OsIsLeaf", true, func(m string) error { return &ut.OsIsLeaf{Msg: m} })
	delete(OpByName, osl.Name)
	Leaves = Leaves[:len(Leaves)-1]
	osl.QuirkOf = "ut.IsLeaf"
	// its Is method is lost in transit like that of ut.IsLeaf; what it adds
	// is the special-case printing of sentinel-equivalent leaves, which
	// concerns the rendering and redaction properties
	osl.QuirkFor = []string{"C03", "C06", "C09", "C10", "C12"}
	osl.QuirkStringsFor = []string{"C03", "C06"}
	// texts that embed the constant text of a sentinel
	for _, st := range []string{context.DeadlineExceeded.Error(), context.Canceled.Error(), os.ErrInvalid.Error(), os.ErrPermission.Error(),
		os.ErrExist.Error(), os.ErrNotExist.Error(), os.ErrClosed.Error(), os.ErrDeadlineExceeded.Error()} {
		osl.QuirkStrings = append(osl.QuirkStrings, st+" ({T})", st+": {T}", st+"\n{T}", "{T}: "+st)
	}
	reg(osl)
	uleaf("ut.TypeIsLeaf", true, func(m string) error { return &ut.TypeIsLeaf{Msg: m} })
	uleaf("ut.RegIsLeaf", false, func(m string) error { return &ut.RegIsLeaf{Msg: m} })
	uleaf("ut.AsLeaf", false, func(m string) error { return &ut.AsLeaf{Msg: m} })
	uleaf("ut.FmtoLeaf", true, func(m string) error { return &ut.FmtoLeaf{Msg: m} })
	uleaf("ut.FmtpLeaf", true, func(m string) error { return &ut.FmtpLeaf{Msg: m} })
	uleaf("ut.TimeoutLeaf", false, func(m string) error { return &ut.TimeoutLeaf{Msg: m} })
	uleaf("ut.OptLeaf", true, func(m string) error { return &ut.Opt{Msg: m} })
	reg(&Op{Name: "ut.FELeaf", Kind: KLeaf, Slots: unsafe("msg", "detail"), Class: "user-leaf", Unreg: true,
		Build: func(s []string, _ error, _ []error) error { return &ut.FELeaf{Msg: s[0], Detail: s[1]} },
		Model: func(s []string, _ *Node, _ []*Node) *Node { return foreignLeaf(s[0], s[0], s[1]) }})
	reg(&Op{Name: "ut.SFELeaf", Kind: KLeaf, Slots: slots(safeNoRep("safepart"), unsafe("unsafepart")), Class: "user-leaf", Unreg: true,
		Build: func(s []string, _ error, _ []error) error { return &ut.SFELeaf{SafePart: s[0], UnsafePart: s[1]} },
		Model: func(s []string, _ *Node, _ []*Node) *Node {
			n := Leaf(s[0] + " " + s[1])
			n.Safe, n.Unsafe = s[:1], s[1:]
			return n
		}})

	// ------------------------------------------------------------------
	// Single-cause wrappers
	// ------------------------------------------------------------------
	annot := func(name string, sl []Slot, build func(s []string, c error) error, dec func(s []string, n *Node)) *Op {
		return reg(&Op{Name: name, Kind: KWrap, Slots: sl, Class: "annotation", Lib: true,
			Build: func(s []string, c error, _ []error) error { return build(s, c) },
			Model: func(s []string, c *Node, _ []*Node) *Node {
				n := Annot(c)
				for i, x := range s {
					if sl[i].Safe {
						n.Safe = append(n.Safe, x)
					} else {
						n.Unsafe = append(n.Unsafe, x)
					}
				}
				dec(s, n)
				return n
			}})
	}

	reg(&Op{Name: "WithMessage", Kind: KWrap, Slots: safe("msg"), Class: "prefix", Lib: true, Core: true,
		Build: func(s []string, c error, _ []error) error { return errors.WithMessage(c, s[0]) },
		Model: func(s []string, c *Node, _ []*Node) *Node { return libPrefix(s[0], c, s, nil) }})
	reg(&Op{Name: "Wrap", Kind: KWrap, Slots: safe("msg"), Class: "prefix", Lib: true, Core: true,
		Build: func(s []string, c error, _ []error) error { return errors.Wrap(c, s[0]) },
		Model: func(s []string, c *Node, _ []*Node) *Node {
			if s[0] == "" {
				return Stack(c)
			}
			return Stack(libPrefix(s[0], c, s, nil))
		}})
	reg(&Op{Name: "WithStack", Kind: KWrap, Class: "stack", Lib: true, Core: true,
		Build: func(s []string, c error, _ []error) error { return errors.WithStack(c) },
		Model: func(s []string, c *Node, _ []*Node) *Node { return Stack(c) }})
	reg(&Op{Name: "GoErrorf_w", Kind: KWrap, Slots: unsafe("msg"), Class: "foreign-prefix", Core: true, Unreg: true,
		Build: func(s []string, c error, _ []error) error { return fmt.Errorf(pct(s[0])+": %w", c) },
		Model: func(s []string, c *Node, _ []*Node) *Node {
			if s[0] == "" {
				// ": cause" — the text does not end a "prefix: " pattern with a
				// non-empty prefix; the wrapper owns ": cause" as a whole.
				return fullMsg(": "+c.Text, c)
			}
			return foreignPrefix(s[0], c, s[0])
		}})
	annot("WithHint", unsafe("hint"), func(s []string, c error) error { return errors.WithHint(c, s[0]) },
		func(s []string, n *Node) { n.Hint = s[0] }).Core = true
	annot("WithDetail", unsafe("detail"), func(s []string, c error) error { return errors.WithDetail(c, s[0]) },
		func(s []string, n *Node) { n.Detail = s[0] })
	reg(&Op{Name: "Handled", Kind: KWrap, Class: "barrier", Lib: true, HidesCause: true, Core: true,
		Build: func(s []string, c error, _ []error) error { return errors.Handled(c) },
		Model: func(s []string, c *Node, _ []*Node) *Node { return barrier(c.Text, c) }})
	reg(&Op{Name: "WithSecondaryError", Kind: KWrap, NSide: 1, Class: "secondary", Lib: true, Core: true,
		Build: func(s []string, c error, side []error) error { return errors.WithSecondaryError(c, side[0]) },
		Model: func(s []string, c *Node, side []*Node) *Node { return Secondary(c, side[0]) }})
	reg(&Op{Name: "Mark", Kind: KWrap, NSide: 1, Class: "mark", Lib: true, Core: true, SideIsReference: true,
		Build: func(s []string, c error, side []error) error { return errors.Mark(c, side[0]) },
		Model: func(s []string, c *Node, side []*Node) *Node { n := Annot(c); n.MarkOf = side[0]; return n }})
	reg(&Op{Name: "ut.UnwrapW", Kind: KWrap, Slots: unsafe("msg"), Class: "user-prefix", Unreg: true, Core: true,
		Build: func(s []string, c error, _ []error) error { return &ut.UnwrapW{Msg: s[0], Cause: c} },
		Model: func(s []string, c *Node, _ []*Node) *Node { return userPrefix(s[0], c) }})
	reg(&Op{Name: "Newf_w_indexed", Kind: KWrap, Slots: safe("fmt"), Class: "fullmsg", Lib: true,
		Build: func(s []string, c error, _ []error) error { return errors.Newf("%[2]s: %[1]w", c, errors.Safe(s[0])) },
		Model: func(s []string, c *Node, _ []*Node) *Node {
			f := fullMsg(s[0]+": "+c.Text, c)
			f.Lib = true
			f.Safe = s
			return Stack(Secondary(f, c))
		}})
	reg(&Op{Name: "Newf_w", Kind: KWrap, Slots: safe("fmt"), Class: "fullmsg", Lib: true, Core: true,
		Build: func(s []string, c error, _ []error) error { return errors.Newf(pct(s[0])+": %w", c) },
		Model: func(s []string, c *Node, _ []*Node) *Node {
			f := fullMsg(s[0]+": "+c.Text, c)
			f.Lib = true
			f.Safe = s
			return Stack(Secondary(f, c))
		}})

	reg(&Op{Name: "WithMessagef_u", Kind: KWrap, Slots: slots(safe("fmt"), unsafe("arg")), Class: "prefix", Lib: true,
		Build: func(s []string, c error, _ []error) error { return errors.WithMessagef(c, pct(s[0])+" %s", s[1]) },
		Model: func(s []string, c *Node, _ []*Node) *Node { return libPrefix(s[0]+" "+s[1], c, s[:1], s[1:]) }})
	reg(&Op{Name: "Wrapf_u", Kind: KWrap, Slots: slots(safe("fmt"), unsafe("arg")), Class: "prefix", Lib: true,
		Build: func(s []string, c error, _ []error) error { return errors.Wrapf(c, pct(s[0])+" %s", s[1]) },
		Model: func(s []string, c *Node, _ []*Node) *Node { return Stack(libPrefix(s[0]+" "+s[1], c, s[:1], s[1:])) }})
	reg(&Op{Name: "Wrapf_mixed", Kind: KWrap, Slots: slots(safe("fmt", "safearg"), unsafe("qarg")), Class: "prefix", Lib: true,
		Build: func(s []string, c error, _ []error) error {
			return errors.Wrapf(c, pct(s[0])+mixedVerbs, 42, errors.Safe(s[1]), s[2], []byte("ab"), nil, 3.14159, mixedStruct{1, "b"})
		},
		Model: func(s []string, c *Node, _ []*Node) *Node {
			return Stack(libPrefix(mixedText(s), c, s[:2], s[2:]))
		}})
	reg(&Op{Name: "Wrapf_s", Kind: KWrap, Slots: safe("fmt", "safearg"), Class: "prefix", Lib: true,
		Build: func(s []string, c error, _ []error) error {
			return errors.Wrapf(c, pct(s[0])+" %s", errors.Safe(s[1]))
		},
		Model: func(s []string, c *Node, _ []*Node) *Node { return Stack(libPrefix(s[0]+" "+s[1], c, s, nil)) }})
	reg(&Op{Name: "Wrapf_e", Kind: KWrap, Slots: safe("fmt"), NSide: 1, Class: "prefix", Lib: true,
		Build: func(s []string, c error, side []error) error { return errors.Wrapf(c, pct(s[0])+" %v", side[0]) },
		Model: func(s []string, c *Node, side []*Node) *Node {
			return Stack(Secondary(libPrefix(s[0]+" "+side[0].Text, c, s, nil), side[0]))
		}})
	reg(&Op{Name: "Wrapf_empty", Kind: KWrap, Class: "stack", Lib: true,
		Build: func(s []string, c error, _ []error) error { return errors.Wrapf(c, "") },
		Model: func(s []string, c *Node, _ []*Node) *Node { return Stack(c) }})
	annot("WithHintf", unsafe("fmt", "arg"), func(s []string, c error) error { return errors.WithHintf(c, pct(s[0])+" %s", s[1]) },
		func(s []string, n *Node) { n.Hint = s[0] + " " + s[1] })
	annot("WithDetailf", unsafe("fmt", "arg"), func(s []string, c error) error { return errors.WithDetailf(c, pct(s[0])+" %s", s[1]) },
		func(s []string, n *Node) { n.Detail = s[0] + " " + s[1] })
	annot("WithSafeDetails_s", safe("fmt", "safearg"),
		func(s []string, c error) error { return errors.WithSafeDetails(c, pct(s[0])+" %s", errors.Safe(s[1])) },
		func(s []string, n *Node) {})
	annot("WithSafeDetails_u", slots(safe("fmt"), unsafe("arg")),
		func(s []string, c error) error { return errors.WithSafeDetails(c, pct(s[0])+" %s", s[1]) },
		func(s []string, n *Node) {})
	annot("WithTelemetry", safe("key"), func(s []string, c error) error { return errors.WithTelemetry(c, s[0]) },
		func(s []string, n *Node) { n.Keys = []string{s[0]} })
	annot("WithTelemetry2", safe("key1", "key2"), func(s []string, c error) error { return errors.WithTelemetry(c, s[0], s[1]) },
		func(s []string, n *Node) { n.Keys = []string{s[0], s[1]} })
	annot("WithDomain", safe("domain"), func(s []string, c error) error { return errors.WithDomain(c, errors.NamedDomain(s[0])) },
		func(s []string, n *Node) { n.Domain = sprintf("error domain: %q", s[0]) }).Core = true
	annot("WithIssueLink", safe("url", "detail"), func(s []string, c error) error {
		return errors.WithIssueLink(c, errors.IssueLink{IssueURL: s[0], Detail: s[1]})
	}, func(s []string, n *Node) { n.Links = []Link{{s[0], s[1]}} })
	annot("WithIssueLink_detailonly", safe("detail"), func(s []string, c error) error {
		return errors.WithIssueLink(c, errors.IssueLink{Detail: s[0]})
	}, func(s []string, n *Node) { n.Links = []Link{{"", s[0]}} })
	annot("WithIssueLink_urlonly", safe("url"), func(s []string, c error) error {
		return errors.WithIssueLink(c, errors.IssueLink{IssueURL: s[0]})
	}, func(s []string, n *Node) { n.Links = []Link{{s[0], ""}} })
	annot("WithContextTags", slots(safe("key"), unsafe("value")), func(s []string, c error) error {
		return errors.WithContextTags(c, tagCtx("k"+s[0], s[1]))
	}, func(s []string, n *Node) { n.Tags = [][2]string{{"k" + s[0], s[1]}} })
	annot("WithContextTags_shortkey", unsafe("value"), func(s []string, c error) error {
		return errors.WithContextTags(c, tagCtx("u", s[0]))
	}, func(s []string, n *Node) { n.Tags = [][2]string{{"u", s[0]}} })
	// the same context annotated twice (a request context reused by two layers)
	reg(&Op{Name: "WithContextTags_twice", Kind: KWrap, Slots: slots(safe("key"), unsafe("value")), Class: "annotation", Lib: true,
		Build: func(s []string, c error, _ []error) error {
			ctx := tagCtx("k"+s[0], s[1])
			return errors.WithContextTags(errors.WithContextTags(c, ctx), ctx)
		},
		Model: func(s []string, c *Node, _ []*Node) *Node {
			in := Annot(c)
			in.Safe, in.Unsafe = s[:1], s[1:]
			in.Tags = [][2]string{{"k" + s[0], s[1]}}
			out := Annot(in)
			out.Safe, out.Unsafe = s[:1], s[1:]
			out.Tags = [][2]string{{"k" + s[0], s[1]}}
			return out
		}})
	annot("WithTelemetry_emptykeys", nil, func(s []string, c error) error { return errors.WithTelemetry(c, []string{}...) },
		func(s []string, n *Node) {})
	annot("WithContextTags_safe", safe("key", "value"), func(s []string, c error) error {
		return errors.WithContextTags(c, tagCtx("k"+s[0], errors.Safe(s[1])))
	}, func(s []string, n *Node) { n.Tags = [][2]string{{"k" + s[0], s[1]}} })
	annot("WithContextTags_strint", slots(safe("key"), unsafe("value")), func(s []string, c error) error {
		return errors.WithContextTags(c, tagCtx("k"+s[0], s[1], "n", 7, "z", nil))
	}, func(s []string, n *Node) { n.Tags = [][2]string{{"k" + s[0], s[1]}, {"n", "7"}, {"z", ""}} })
	annot("WithContextTags_int2", nil, func(s []string, c error) error {
		return errors.WithContextTags(c, tagCtx("n", 7, "empty", nil))
	}, func(s []string, n *Node) { n.Tags = [][2]string{{"n", "7"}, {"empty", ""}} })
	annot("WithAssertionFailure", nil, func(s []string, c error) error { return errors.WithAssertionFailure(c) },
		func(s []string, n *Node) { n.Assert = true })
	annot("WrapWithHTTPCode", nil, func(s []string, c error) error { return exthttp.WrapWithHTTPCode(c, 404) },
		func(s []string, n *Node) { n.HTTP = 404 })
	annot("WrapWithGrpcCode", nil, func(s []string, c error) error { return extgrpc.WrapWithGrpcCode(c, codes.PermissionDenied) },
		func(s []string, n *Node) { n.GRPC = int(codes.PermissionDenied) })
	reg(&Op{Name: "CombineErrors", Kind: KWrap, NSide: 1, Class: "secondary", Lib: true,
		Build: func(s []string, c error, side []error) error { return errors.CombineErrors(c, side[0]) },
		Model: func(s []string, c *Node, side []*Node) *Node { return Secondary(c, side[0]) }})

	// barriers
	reg(&Op{Name: "Opaque", Kind: KWrap, Class: "barrier", Lib: true, HidesCause: true,
		Build: func(s []string, c error, _ []error) error { return errors.Opaque(c) },
		Model: func(s []string, c *Node, _ []*Node) *Node { return barrier(c.Text, c) }})
	reg(&Op{Name: "HandledWithMessage", Kind: KWrap, Slots: unsafe("msg"), Class: "barrier", Lib: true, HidesCause: true,
		Build: func(s []string, c error, _ []error) error { return errors.HandledWithMessage(c, s[0]) },
		Model: func(s []string, c *Node, _ []*Node) *Node { n := barrier(s[0], c); n.Unsafe = s; return n }})
	reg(&Op{Name: "HandledWithMessagef", Kind: KWrap, Slots: slots(safe("fmt"), unsafe("arg")), Class: "barrier", Lib: true, HidesCause: true,
		Build: func(s []string, c error, _ []error) error {
			return barriers.HandledWithMessagef(c, pct(s[0])+" %s", s[1])
		},
		Model: func(s []string, c *Node, _ []*Node) *Node {
			n := barrier(s[0]+" "+s[1], c)
			n.Safe, n.Unsafe = s[:1], s[1:]
			return n
		}})
	reg(&Op{Name: "HandledInDomain", Kind: KWrap, Slots: safe("domain"), Class: "barrier", Lib: true, HidesCause: true,
		Build: func(s []string, c error, _ []error) error { return errors.HandledInDomain(c, errors.NamedDomain(s[0])) },
		Model: func(s []string, c *Node, _ []*Node) *Node {
			n := Annot(barrier(c.Text, c))
			n.Domain = sprintf("error domain: %q", s[0])
			n.Safe = s
			return n
		}})
	reg(&Op{Name: "HandledInDomainWithMessage", Kind: KWrap, Slots: slots(safe("domain"), unsafe("msg")), Class: "barrier", Lib: true, HidesCause: true,
		Build: func(s []string, c error, _ []error) error {
			return errors.HandledInDomainWithMessage(c, errors.NamedDomain(s[0]), s[1])
		},
		Model: func(s []string, c *Node, _ []*Node) *Node {
			b := barrier(s[1], c)
			b.Unsafe = s[1:]
			n := Annot(b)
			n.Domain = sprintf("error domain: %q", s[0])
			n.Safe = s[:1]
			return n
		}})
	reg(&Op{Name: "DomainsHandled", Kind: KWrap, Class: "barrier", Lib: true, HidesCause: true,
		Build: func(s []string, c error, _ []error) error { return domains.Handled(c) },
		Model: func(s []string, c *Node, _ []*Node) *Node {
			n := Annot(barrier(c.Text, c))
			n.Domain = ThisDomain
			return n
		}})
	reg(&Op{Name: "HandleAsAssertionFailure", Kind: KWrap, Class: "barrier", Lib: true, HidesCause: true,
		Build: func(s []string, c error, _ []error) error { return errors.HandleAsAssertionFailure(c) },
		Model: func(s []string, c *Node, _ []*Node) *Node {
			n := Annot(Stack(barrier(c.Text, c)))
			n.Assert = true
			return n
		}})
	reg(&Op{Name: "NewAssertionErrorWithWrappedErrf", Kind: KWrap, Slots: slots(safe("fmt"), unsafe("arg")), Class: "barrier", Lib: true, HidesCause: true,
		Build: func(s []string, c error, _ []error) error {
			return errors.NewAssertionErrorWithWrappedErrf(c, pct(s[0])+" %s", s[1])
		},
		Model: func(s []string, c *Node, _ []*Node) *Node {
			n := Annot(Stack(libPrefix(s[0]+" "+s[1], barrier(c.Text, c), s[:1], s[1:])))
			n.Assert = true
			return n
		}})

	// %w forms
	reg(&Op{Name: "Newf_w_suffix", Kind: KWrap, Slots: safe("fmt"), Class: "fullmsg", Lib: true,
		Build: func(s []string, c error, _ []error) error { return errors.Newf("%w - "+pct(s[0]), c) },
		Model: func(s []string, c *Node, _ []*Node) *Node {
			f := fullMsg(c.Text+" - "+s[0], c)
			f.Lib = true
			f.Safe = s
			return Stack(Secondary(f, c))
		}})
	reg(&Op{Name: "GoErrorf_w_suffix", Kind: KWrap, Slots: unsafe("msg"), Class: "foreign-full", Unreg: true,
		Build: func(s []string, c error, _ []error) error { return fmt.Errorf("%w - "+pct(s[0]), c) },
		Model: func(s []string, c *Node, _ []*Node) *Node {
			n := fullMsg(c.Text+" - "+s[0], c)
			n.Unsafe = s
			return n
		}})
	reg(&Op{Name: "GoErrorf_w_bare", Kind: KWrap, Class: "foreign-prefix", Unreg: true,
		Build: func(s []string, c error, _ []error) error { return fmt.Errorf("%w", c) },
		Model: func(s []string, c *Node, _ []*Node) *Node { return Prefix("", c) }})

	// the cause printed twice: "msg: cause: cause" (prefix ends with ": " + cause text)
	reg(&Op{Name: "GoErrorf_vw", Kind: KWrap, Slots: unsafe("msg"), Class: "foreign-prefix", Unreg: true,
		Build: func(s []string, c error, _ []error) error { return fmt.Errorf(pct(s[0])+": %v: %w", c, c) },
		Model: func(s []string, c *Node, _ []*Node) *Node { return foreignPrefix(s[0]+": "+c.Text, c, s[0]) }})
	reg(&Op{Name: "Newf_vw", Kind: KWrap, Slots: safe("fmt"), NSide: 1, Class: "fullmsg", Lib: true,
		Build: func(s []string, c error, side []error) error { return errors.Newf(pct(s[0])+" %v: %w", side[0], c) },
		Model: func(s []string, c *Node, side []*Node) *Node {
			f := fullMsg(s[0]+" "+side[0].Text+": "+c.Text, c)
			f.Lib = true
			f.Safe = s
			return Stack(Secondary(Secondary(f, side[0]), c))
		}})

	// more standard-library wrappers
	reg(&Op{Name: "url.Error", Kind: KWrap, Slots: unsafe("op", "url"), Class: "foreign-prefix", Unreg: true,
		Build: func(s []string, c error, _ []error) error { return &url.Error{Op: s[0], URL: s[1], Err: c} },
		Model: func(s []string, c *Node, _ []*Node) *Node {
			own := s[0] + " " + strconv.Quote(s[1])
			n := Prefix(own, c)
			n.Text = own + ": " + c.Text
			n.Unsafe = s
			return n
		}})
	reg(&Op{Name: "strconv.NumError", Kind: KWrap, Slots: unsafe("func", "num"), Class: "foreign-prefix", Unreg: true,
		Build: func(s []string, c error, _ []error) error { return &strconv.NumError{Func: s[0], Num: s[1], Err: c} },
		Model: func(s []string, c *Node, _ []*Node) *Node {
			own := "strconv." + s[0] + ": parsing " + strconv.Quote(s[1])
			n := Prefix(own, c)
			n.Text = own + ": " + c.Text
			n.Unsafe = s
			return n
		}})
	// constructor shapes that select other branches of the library
	reg(&Op{Name: "Wrapf_emptyarg", Kind: KWrap, Class: "stack", Lib: true,
		Build: func(s []string, c error, _ []error) error { return errors.Wrapf(c, "%s", "") },
		Model: func(s []string, c *Node, _ []*Node) *Node { return Stack(libPrefix("", c, nil, nil)) }})
	reg(&Op{Name: "WithMessagef_emptyarg", Kind: KWrap, Class: "prefix", Lib: true,
		Build: func(s []string, c error, _ []error) error { return errors.WithMessagef(c, "%s", errors.Safe("")) },
		Model: func(s []string, c *Node, _ []*Node) *Node { return libPrefix("", c, nil, nil) }})
	reg(&Op{Name: "WithMessage_empty", Kind: KWrap, Class: "prefix", Lib: true,
		Build: func(s []string, c error, _ []error) error { return errors.WithMessage(c, "") },
		Model: func(s []string, c *Node, _ []*Node) *Node { return libPrefix("", c, nil, nil) }})
	annot("WithTelemetry0", nil, func(s []string, c error) error { return errors.WithTelemetry(c) },
		func(s []string, n *Node) {})
	annot("WrapWithGrpcCode_Unknown", nil, func(s []string, c error) error { return extgrpc.WrapWithGrpcCode(c, codes.Unknown) },
		func(s []string, n *Node) { n.GRPC = int(codes.Unknown) })
	// every defined gRPC code, and two undefined ones (Extras only)
	for _, k := range GrpcCodeSweep {
		k := k
		op := annot(fmt.Sprintf("WrapWithGrpcCode#%d", k), nil, func(s []string, c error) error { return extgrpc.WrapWithGrpcCode(c, codes.Code(k)) },
			func(s []string, n *Node) { n.GRPC = k })
		delete(OpByName, op.Name)
		Wrappers = Wrappers[:len(Wrappers)-1]
		op.ExtraOnly = true
		reg(op)
	}
	// an error that came over the network and is then wrapped locally
	// (mixed decoded / native chain)
	reg(&Op{Name: "HopThenWrap", Kind: KWrap, Slots: safe("msg"), Class: "prefix", Lib: true,
		Build: func(s []string, c error, _ []error) error { d, _ := HopK(c); return errors.Wrap(d, s[0]) },
		Model: func(s []string, c *Node, _ []*Node) *Node {
			if s[0] == "" {
				return Stack(c)
			}
			return Stack(libPrefix(s[0], c, s, nil))
		}})

	// pkg/errors
	reg(&Op{Name: "PkgWithMessage", Kind: KWrap, Slots: unsafe("msg"), Class: "foreign-prefix",
		Build: func(s []string, c error, _ []error) error { return pkgerrors.WithMessage(c, s[0]) },
		Model: func(s []string, c *Node, _ []*Node) *Node { return pkgPrefix(s[0], c) }})
	reg(&Op{Name: "PkgWithStack", Kind: KWrap, Class: "stack",
		Build: func(s []string, c error, _ []error) error { return pkgerrors.WithStack(c) },
		Model: func(s []string, c *Node, _ []*Node) *Node { n := Stack(c); n.Lib = false; return n }})
	reg(&Op{Name: "PkgWrap", Kind: KWrap, Slots: unsafe("msg"), Class: "foreign-prefix",
		Build: func(s []string, c error, _ []error) error { return pkgerrors.Wrap(c, s[0]) },
		Model: func(s []string, c *Node, _ []*Node) *Node {
			n := Stack(pkgPrefix(s[0], c))
			n.Lib = false
			return n
		}})

	// os / net
	reg(&Op{Name: "os.PathError", Kind: KWrap, Slots: slots(safe("op"), unsafe("path")), Class: "foreign-prefix",
		Build: func(s []string, c error, _ []error) error { return &os.PathError{Op: s[0], Path: s[1], Err: c} },
		Model: func(s []string, c *Node, _ []*Node) *Node {
			n := Prefix(s[0]+" "+s[1], c)
			n.Text = s[0] + " " + s[1] + ": " + c.Text
			n.Safe, n.Unsafe = s[:1], s[1:]
			return n
		}})
	reg(&Op{Name: "os.LinkError", Kind: KWrap, Slots: slots(safe("op"), unsafe("old", "new")), Class: "foreign-prefix",
		Build: func(s []string, c error, _ []error) error {
			return &os.LinkError{Op: s[0], Old: s[1], New: s[2], Err: c}
		},
		Model: func(s []string, c *Node, _ []*Node) *Node {
			n := Prefix(s[0]+" "+s[1]+" "+s[2], c)
			n.Text = s[0] + " " + s[1] + " " + s[2] + ": " + c.Text
			n.Safe, n.Unsafe = s[:1], s[1:]
			return n
		}})
	reg(&Op{Name: "os.SyscallError", Kind: KWrap, Slots: safe("syscall"), Class: "foreign-prefix",
		Build: func(s []string, c error, _ []error) error { return &os.SyscallError{Syscall: s[0], Err: c} },
		Model: func(s []string, c *Node, _ []*Node) *Node {
			n := Prefix(s[0], c)
			n.Text = s[0] + ": " + c.Text
			n.Safe = s
			return n
		}})
	reg(&Op{Name: "net.OpError", Kind: KWrap, Slots: slots(safeNoRep("op", "net"), unsafe("addr")), Class: "foreign-prefix", Unreg: true,
		Build: func(s []string, c error, _ []error) error {
			return &net.OpError{Op: s[0], Net: s[1], Addr: Addr{s[2]}, Err: c}
		},
		Model: func(s []string, c *Node, _ []*Node) *Node {
			own := s[0]
			if s[1] != "" {
				own += " " + s[1]
			}
			own += " " + s[2]
			n := Prefix(own, c)
			n.Text = own + ": " + c.Text
			n.Safe, n.Unsafe = s[:2], s[2:]
			return n
		}})
	// With a Source address net.OpError.Error() prints "src->addr" while
	// the library's special-case printer prints "src -> addr" (pinned by
	// safedetails.TestRedact): explored in the quirk pass.
	reg(&Op{Name: "net.OpError_src", Kind: KWrap, Slots: slots(safeNoRep("op", "net"), unsafe("src", "addr")), Class: "foreign-prefix", Unreg: true, QuirkOf: "net.OpError",
		Build: func(s []string, c error, _ []error) error {
			return &net.OpError{Op: s[0], Net: s[1], Source: Addr{s[2]}, Addr: Addr{s[3]}, Err: c}
		},
		Model: func(s []string, c *Node, _ []*Node) *Node {
			own := s[0]
			if s[1] != "" {
				own += " " + s[1]
			}
			own += " " + s[2] + "->" + s[3]
			n := Prefix(own, c)
			n.Text = own + ": " + c.Text
			n.Safe, n.Unsafe = s[:2], s[2:]
			return n
		}})

	// user wrappers
	uwrap := func(name string, unreg bool, mk func(m string, c error) error) *Op {
		return reg(&Op{Name: name, Kind: KWrap, Slots: unsafe("msg"), Class: "user-prefix", Unreg: unreg,
			Build: func(s []string, c error, _ []error) error { return mk(s[0], c) },
			Model: func(s []string, c *Node, _ []*Node) *Node { return userPrefix(s[0], c) }})
	}
	uwrap("ut.CauseW", true, func(m string, c error) error { return &ut.CauseW{Msg: m, C: c} })
	uwrap("ut.ProtoW", true, func(m string, c error) error { return &ut.ProtoW{Msg: m, C: c} })
	uwrap("ut.BothW", true, func(m string, c error) error { return &ut.BothW{Msg: m, C: c} })
	uwrap("ut.ValW", true, func(m string, c error) error { return ut.ValW{Msg: m, C: c} })
	uwrap("ut.NCW", true, func(m string, c error) error { return ut.NCW{Msg: m, C: c, X: []int{2}} })
	uwrap("ut.IsW", true, func(m string, c error) error { return &ut.IsW{Msg: m, C: c} })
	uwrap("ut.AsW", false, func(m string, c error) error { return &ut.AsW{Msg: m, C: c} })
	uwrap("ut.RegW", false, func(m string, c error) error { return &ut.RegW{Msg: m, C: c} })
	uwrap("ut.OptW", true, func(m string, c error) error { return &ut.Opt{Msg: m, Cause: c} })
	uwrap("ut.FEW", true, func(m string, c error) error { return &ut.FEW{Msg: m, C: c} })
	uwrap("ut.FmtoW", true, func(m string, c error) error { return &ut.FmtoW{Msg: m, C: c} })
	uwrap("ut.FmtpW", true, func(m string, c error) error { return &ut.FmtpW{Msg: m, C: c} })
	uwrap("ut.DelegW", true, func(m string, c error) error { return &ut.DelegW{Msg: m, C: c} })
	reg(&Op{Name: "ut.SFEW", Kind: KWrap, Slots: unsafe("msg"), Class: "user-prefix", Unreg: true,
		Build: func(s []string, c error, _ []error) error { return &ut.SFEW{Msg: s[0], C: c} },
		Model: func(s []string, c *Node, _ []*Node) *Node { n := userPrefix("safe "+s[0], c); return n }})
	reg(&Op{Name: "ut.FullW", Kind: KWrap, Slots: unsafe("msg"), Class: "user-full", Unreg: true,
		Build: func(s []string, c error, _ []error) error { return &ut.FullW{Msg: s[0], C: c} },
		Model: func(s []string, c *Node, _ []*Node) *Node { n := fullMsg(s[0], c); n.Unsafe = s; return n }})
	reg(&Op{Name: "ut.RegFullW", Kind: KWrap, Slots: unsafe("msg"), Class: "user-full",
		Build: func(s []string, c error, _ []error) error { return &ut.RegFullW{Msg: s[0], C: c} },
		Model: func(s []string, c *Node, _ []*Node) *Node { n := fullMsg(s[0], c); n.Unsafe = s; return n }})
	reg(&Op{Name: "ut.SuffixW", Kind: KWrap, Slots: unsafe("msg"), Class: "user-full", Unreg: true,
		Build: func(s []string, c error, _ []error) error { return &ut.SuffixW{Msg: s[0], C: c} },
		Model: func(s []string, c *Node, _ []*Node) *Node {
			n := fullMsg(c.Text+" - "+s[0], c)
			n.Unsafe = s
			return n
		}})
	reg(&Op{Name: "ut.EmptyW", Kind: KWrap, Class: "user-prefix", Unreg: true,
		Build: func(s []string, c error, _ []error) error { return &ut.EmptyW{C: c} },
		Model: func(s []string, c *Node, _ []*Node) *Node { return Prefix("", c) }})
	reg(&Op{Name: "ut.MovedW", Kind: KWrap, Class: "user-prefix",
		Build: func(s []string, c error, _ []error) error { return &ut.MovedW{C: c} },
		Model: func(s []string, c *Node, _ []*Node) *Node { return Prefix("", c) }})
	reg(&Op{Name: "ut.MigW", Kind: KWrap, Class: "user-prefix",
		Build: func(s []string, c error, _ []error) error { return &ut.MigW{C: c} },
		Model: func(s []string, c *Node, _ []*Node) *Node { return Prefix("", c) }})

	// ------------------------------------------------------------------
	// Multi-cause (the inner term is the first branch)
	// ------------------------------------------------------------------
	joinText := func(ns []*Node) string {
		var ts []string
		for _, n := range ns {
			ts = append(ts, n.Text)
		}
		return strings.Join(ts, "\n")
	}
	br := func(c *Node, side []*Node) []*Node { return append([]*Node{c}, side...) }
	bre := func(c error, side []error) []error { return append([]error{c}, side...) }
	reg(&Op{Name: "Join2", Kind: KMulti, NSide: 1, Class: "multi", Lib: true, Core: true,
		Build: func(s []string, c error, side []error) error { return errors.Join(c, side[0]) },
		Model: func(s []string, c *Node, side []*Node) *Node {
			m := multi(joinText(br(c, side)), br(c, side))
			m.Lib = true
			return Stack(m)
		}})
	reg(&Op{Name: "Join3_nils", Kind: KMulti, NSide: 2, Class: "multi", Lib: true,
		Build: func(s []string, c error, side []error) error { return errors.Join(nil, c, nil, side[0], side[1], nil) },
		Model: func(s []string, c *Node, side []*Node) *Node {
			m := multi(joinText(br(c, side)), br(c, side))
			m.Lib = true
			return Stack(m)
		}})
	// the caller re-uses the slice it spread into Join
	reg(&Op{Name: "Join_spread_then_mutate", Kind: KMulti, NSide: 1, Class: "multi", Lib: true,
		Build: func(s []string, c error, side []error) error {
			sl := []error{c, side[0]}
			j := errors.Join(sl...)
			sl[0], sl[1] = goerrors.New("overwritten-0"), nil
			return j
		},
		Model: func(s []string, c *Node, side []*Node) *Node {
			m := multi(joinText(br(c, side)), br(c, side))
			m.Lib = true
			return Stack(m)
		}})
	// the same error object reachable through two branches (a DAG)
	reg(&Op{Name: "JoinShared", Kind: KMulti, Slots: safe("a", "b"), Class: "multi", Lib: true,
		Build: func(s []string, c error, _ []error) error {
			return errors.Join(errors.Wrap(c, s[0]), errors.Wrap(c, s[1]))
		},
		Model: func(s []string, c *Node, _ []*Node) *Node {
			mkb := func(p string) *Node {
				if p == "" {
					return Stack(c)
				}
				return Stack(libPrefix(p, c, []string{p}, nil))
			}
			bs := []*Node{mkb(s[0]), mkb(s[1])}
			m := multi(joinText(bs), bs)
			m.Lib = true
			return Stack(m)
		}})
	reg(&Op{Name: "join.Join1", Kind: KMulti, NSide: 0, Class: "multi", Lib: true,
		Build: func(s []string, c error, side []error) error { return join.Join(c) },
		Model: func(s []string, c *Node, side []*Node) *Node {
			m := multi(c.Text, []*Node{c})
			m.Lib = true
			return m
		}})
	reg(&Op{Name: "GoJoin1", Kind: KMulti, NSide: 0, Class: "foreign-multi", Unreg: true,
		Build: func(s []string, c error, side []error) error { return goerrors.Join(nil, c) },
		Model: func(s []string, c *Node, side []*Node) *Node { return multi(c.Text, []*Node{c}) }})
	reg(&Op{Name: "GoJoin2", Kind: KMulti, NSide: 1, Class: "foreign-multi", Unreg: true, Core: true,
		Build: func(s []string, c error, side []error) error { return goerrors.Join(c, side[0]) },
		Model: func(s []string, c *Node, side []*Node) *Node { return multi(joinText(br(c, side)), br(c, side)) }})
	reg(&Op{Name: "GoErrorf_2w", Kind: KMulti, Slots: unsafe("msg"), NSide: 1, Class: "foreign-multi", Unreg: true,
		Build: func(s []string, c error, side []error) error { return fmt.Errorf(pct(s[0])+" %w %w", c, side[0]) },
		Model: func(s []string, c *Node, side []*Node) *Node {
			m := multi(s[0]+" "+c.Text+" "+side[0].Text, br(c, side))
			m.Unsafe = s
			return m
		}})
	reg(&Op{Name: "ut.UMulti", Kind: KMulti, Slots: unsafe("msg"), NSide: 1, Class: "user-multi", Unreg: true,
		Build: func(s []string, c error, side []error) error { return &ut.UMulti{Msg: s[0], Es: bre(c, side)} },
		Model: func(s []string, c *Node, side []*Node) *Node {
			m := multi(s[0]+" | "+c.Text+" | "+side[0].Text, br(c, side))
			m.Unsafe = s
			return m
		}})
	reg(&Op{Name: "ut.IsMulti", Kind: KMulti, Slots: unsafe("msg"), NSide: 1, Class: "user-multi", Unreg: true,
		Build: func(s []string, c error, side []error) error { return &ut.IsMulti{Msg: s[0], Es: bre(c, side)} },
		Model: func(s []string, c *Node, side []*Node) *Node {
			m := multi(s[0]+" / "+c.Text+" / "+side[0].Text, br(c, side))
			m.Unsafe = s
			return m
		}})
	reg(&Op{Name: "ut.AsMulti", Kind: KMulti, Slots: unsafe("msg"), NSide: 1, Class: "user-multi", Unreg: true, ExtraOnly: true,
		Build: func(s []string, c error, side []error) error { return &ut.AsMulti{Msg: s[0], Es: bre(c, side)} },
		Model: func(s []string, c *Node, side []*Node) *Node {
			m := multi(s[0]+" / "+c.Text+" / "+side[0].Text, br(c, side))
			m.Unsafe = s
			return m
		}})
	reg(&Op{Name: "ut.RegMulti", Kind: KMulti, Slots: unsafe("msg"), NSide: 1, Class: "user-multi",
		Build: func(s []string, c error, side []error) error { return &ut.RegMulti{Msg: s[0], Es: bre(c, side)} },
		Model: func(s []string, c *Node, side []*Node) *Node {
			m := multi(s[0], br(c, side))
			m.Unsafe = s
			return m
		}})
}

func userPrefix(p string, c *Node) *Node {
	n := Prefix(p, c)
	// user wrappers always print "msg: cause", even for an empty msg
	n.Text = p + ": " + c.Text
	n.Unsafe = []string{p}
	return n
}

func pkgPrefix(p string, c *Node) *Node {
	n := Prefix(p, c)
	n.Text = p + ": " + c.Text
	n.Unsafe = []string{p}
	return n
}
