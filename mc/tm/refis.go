package tm

import (
	"reflect"
	"strings"

	"github.com/cockroachdb/errors"
	"github.com/cockroachdb/errors/errbase"
	"github.com/cockroachdb/errors/errorspb"
	"github.com/gogo/protobuf/proto"
)

// MarkKey is the wire family name of Mark wrappers.
var MarkKey = string(errors.GetTypeKey(errors.Mark(errors.New("x"), errors.New("y"))))

// RefMark is the documented identity of an error for comparison
// purposes: its message and the full sequence of (type, extension) marks
// along its single-cause chain. Written from the doc comment of
// markers.Is, using only exported functions (errbase.GetTypeMark and, for
// Mark layers, the mark the layer itself puts on the wire).
func RefMark(e error) string {
	if string(errbase.GetTypeKey(e)) == MarkKey {
		if m, ok := wireMarkOf(e); ok {
			return m
		}
	}
	var b strings.Builder
	msg := ""
	if p := Guard(func() { msg = e.Error() }); p != nil {
		msg = "<panic>"
	}
	b.WriteString(msg)
	for c := e; c != nil; c = errbase.UnwrapOnce(c) {
		tmk := errbase.GetTypeMark(c)
		b.WriteString("\x00" + tmk.FamilyName + "\x01" + tmk.Extension)
	}
	return b.String()
}

func wireMarkOf(e error) (string, bool) {
	enc := errors.EncodeError(bg, e)
	w := enc.GetWrapper()
	if w == nil || w.Details.FullDetails == nil {
		return "", false
	}
	var mp errorspb.MarkPayload
	if !strings.HasSuffix(w.Details.FullDetails.TypeUrl, "MarkPayload") || proto.Unmarshal(w.Details.FullDetails.Value, &mp) != nil {
		return "", false
	}
	var b strings.Builder
	b.WriteString(mp.Msg)
	for _, t := range mp.Types {
		b.WriteString("\x00" + t.FamilyName + "\x01" + t.Extension)
	}
	return b.String(), true
}

// RefIs is the reference implementation of the documented Is relation.
// It returns the reason of the match: "identity", "method", "mark", or
// "" when there is no match.
func RefIs(e, r error) (bool, string) {
	if r == nil {
		if e == nil {
			return true, "nil"
		}
		return false, ""
	}
	if e == nil {
		return false, ""
	}
	if ok, why := refIsDirect(e, r); ok {
		return true, why
	}
	rm := RefMark(r)
	for c := e; c != nil; c = errbase.UnwrapOnce(c) {
		if RefMark(c) == rm {
			return true, "mark"
		}
	}
	return false, ""
}

// RefIsByMark tells whether the relation holds through mark equivalence
// alone (no identity, no Is method), in the chain of e or in a branch.
func RefIsByMark(e, r error) bool {
	if e == nil || r == nil {
		return false
	}
	rm := RefMark(r)
	for c := e; c != nil; c = errbase.UnwrapOnce(c) {
		if RefMark(c) == rm {
			return true
		}
		for _, b := range errbase.UnwrapMulti(c) {
			if RefIsByMark(b, r) {
				return true
			}
		}
	}
	return false
}

func refIsDirect(e, r error) (bool, string) {
	cmp := reflect.TypeOf(r).Comparable()
	for c := e; c != nil; c = errbase.UnwrapOnce(c) {
		if cmp && safeEq(c, r) {
			return true, "identity"
		}
		if x, ok := c.(interface{ Is(error) bool }); ok {
			yes := false
			Guard(func() { yes = x.Is(r) })
			if yes {
				return true, "method"
			}
		}
		for _, b := range errbase.UnwrapMulti(c) {
			// the documented recursion applies the whole relation to branches
			if ok, why := RefIs(b, r); ok {
				return true, why
			}
		}
	}
	return false, ""
}

func safeEq(a, b error) (eq bool) {
	defer func() {
		if recover() != nil {
			eq = false
		}
	}()
	return a == b
}

// RNode caches, for one error object, the per-layer data the reference
// relation needs (so that all-pairs comparisons do not recompute marks).
type RNode struct {
	E     error
	Mark  string
	Cause *RNode
	Multi []*RNode
	hasIs bool
}

// BuildRNode precomputes the reference data of e.
func BuildRNode(e error) *RNode {
	if e == nil {
		return nil
	}
	n := &RNode{E: e, Mark: RefMark(e)}
	_, n.hasIs = e.(interface{ Is(error) bool })
	n.Cause = BuildRNode(errbase.UnwrapOnce(e))
	for _, b := range errbase.UnwrapMulti(e) {
		n.Multi = append(n.Multi, BuildRNode(b))
	}
	return n
}

// RefIsN is RefIs over precomputed nodes.
func RefIsN(e, r *RNode) (bool, string) {
	if r == nil {
		if e == nil {
			return true, "nil"
		}
		return false, ""
	}
	if e == nil {
		return false, ""
	}
	cmp := reflect.TypeOf(r.E).Comparable()
	for c := e; c != nil; c = c.Cause {
		if cmp && safeEq(c.E, r.E) {
			return true, "identity"
		}
		if c.hasIs {
			yes := false
			Guard(func() { yes = c.E.(interface{ Is(error) bool }).Is(r.E) })
			if yes {
				return true, "method"
			}
		}
		for _, b := range c.Multi {
			if ok, why := RefIsN(b, r); ok {
				return true, why
			}
		}
	}
	for c := e; c != nil; c = c.Cause {
		if c.Mark == r.Mark {
			return true, "mark"
		}
	}
	return false, ""
}

// AllNodes lists n and every node below it (cause chain, then branches).
func (n *RNode) AllNodes() []*RNode {
	if n == nil {
		return nil
	}
	r := []*RNode{n}
	r = append(r, n.Cause.AllNodes()...)
	for _, b := range n.Multi {
		r = append(r, b.AllNodes()...)
	}
	return r
}
