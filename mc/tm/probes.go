package tm

import (
	"context"
	"fmt"
	"io"
	"os"
	"syscall"

	"verif/mc/ut"
)

// NamedErr is a reference error with a stable name.
type NamedErr struct {
	Name string
	Err  error
}

// Sentinels is the pool of well-known references.
func Sentinels() []NamedErr {
	return []NamedErr{
		{"context.Canceled", context.Canceled},
		{"context.DeadlineExceeded", context.DeadlineExceeded},
		{"os.ErrNotExist", os.ErrNotExist},
		{"os.ErrPermission", os.ErrPermission},
		{"os.ErrExist", os.ErrExist},
		{"os.ErrInvalid", os.ErrInvalid},
		{"os.ErrClosed", os.ErrClosed},
		{"io.EOF", io.EOF},
		{"ENOENT", syscall.ENOENT},
		{"EACCES", syscall.EACCES},
		{"EEXIST", syscall.EEXIST},
		{"ETIMEDOUT", syscall.ETIMEDOUT},
		{"ut.Sentinel", ut.Sentinel},
		{"ut.Sentinel2", ut.Sentinel2},
		{"ut.ValSentinel", ut.ValSentinel},
	}
}

// AsProbe tries As with one target type and renders what was assigned.
type AsProbe struct {
	Name string
	Try  func(e error, as func(error, interface{}) bool) (bool, string, error)
}

type timeouter interface{ Timeout() bool }

func render(x interface{}) string { return fmt.Sprintf("%T|%p|%v", x, x, x) }

// AsProbes covers pointer, value, interface, error targets and a type
// with an As method.
func AsProbes() []AsProbe {
	return []AsProbe{
		{"*ut.PtrLeaf", func(e error, as func(error, interface{}) bool) (bool, string, error) {
			var x *ut.PtrLeaf
			ok := as(e, &x)
			if !ok {
				return false, "", nil
			}
			return ok, fmt.Sprintf("%p", x), x
		}},
		{"ut.ValLeaf", func(e error, as func(error, interface{}) bool) (bool, string, error) {
			var x ut.ValLeaf
			ok := as(e, &x)
			if !ok {
				return false, "", nil
			}
			return ok, fmt.Sprintf("%#v", x), x
		}},
		{"*ut.AsTarget", func(e error, as func(error, interface{}) bool) (bool, string, error) {
			var x *ut.AsTarget
			ok := as(e, &x)
			if !ok {
				return false, "", nil
			}
			// the As method builds a fresh target object on every call:
			// only its value is comparable between two calls
			return ok, fmt.Sprintf("%#v", *x), nil
		}},
		{"interface{Timeout()bool}", func(e error, as func(error, interface{}) bool) (bool, string, error) {
			var x timeouter
			ok := as(e, &x)
			if !ok {
				return false, "", nil
			}
			ee, _ := x.(error)
			return ok, fmt.Sprintf("%T|%v", x, x), ee
		}},
		{"error", func(e error, as func(error, interface{}) bool) (bool, string, error) {
			var x error
			ok := as(e, &x)
			if !ok {
				return false, "", nil
			}
			return ok, fmt.Sprintf("%T", x), x
		}},
		{"*os.PathError", func(e error, as func(error, interface{}) bool) (bool, string, error) {
			var x *os.PathError
			ok := as(e, &x)
			if !ok {
				return false, "", nil
			}
			return ok, fmt.Sprintf("%p", x), x
		}},
		{"syscall.Errno", func(e error, as func(error, interface{}) bool) (bool, string, error) {
			var x syscall.Errno
			ok := as(e, &x)
			if !ok {
				return false, "", nil
			}
			return ok, fmt.Sprintf("%d", x), x
		}},
		{"*ut.IsW", func(e error, as func(error, interface{}) bool) (bool, string, error) {
			var x *ut.IsW
			ok := as(e, &x)
			if !ok {
				return false, "", nil
			}
			return ok, fmt.Sprintf("%p", x), x
		}},
		{"*ut.Opt", func(e error, as func(error, interface{}) bool) (bool, string, error) {
			var x *ut.Opt
			ok := as(e, &x)
			if !ok {
				return false, "", nil
			}
			return ok, fmt.Sprintf("%p", x), x
		}},
	}
}
