package tm

import (
	"context"
	"fmt"
	"sort"
	"strings"

	"github.com/cockroachdb/errors"
	"github.com/cockroachdb/errors/errbase"
	"github.com/cockroachdb/errors/errorspb"
	"github.com/cockroachdb/redact"
	"github.com/gogo/protobuf/proto"
	"github.com/gogo/protobuf/types"
)

var bg = context.Background()

func init() {
	// decoding undecodable payloads logs a warning; keep workers quiet
	// (and keep the count, some checks look at it).
	errors.SetWarningFn(func(_ context.Context, format string, args ...interface{}) { Warnings++ })
}

// Warnings counts calls of the library's warning function.
var Warnings int64

// Encode = EncodeError + protobuf Marshal (the bytes on the wire).
func Encode(e error) []byte {
	enc := errors.EncodeError(bg, e)
	b, err := proto.Marshal(&enc)
	if err != nil {
		panic(fmt.Sprintf("marshal: %v", err))
	}
	return b
}

// Unmarshal parses wire bytes.
func Unmarshal(b []byte) *errorspb.EncodedError {
	var enc errorspb.EncodedError
	if err := proto.Unmarshal(b, &enc); err != nil {
		panic(fmt.Sprintf("unmarshal: %v", err))
	}
	return &enc
}

// Marshal serialises an EncodedError.
func Marshal(enc *errorspb.EncodedError) []byte {
	b, err := proto.Marshal(enc)
	if err != nil {
		panic(fmt.Sprintf("marshal: %v", err))
	}
	return b
}

// Decode = Unmarshal + DecodeError at a process that knows every type.
func Decode(b []byte) error {
	return errors.DecodeError(bg, *Unmarshal(b))
}

// HopK transfers e to a process that knows all types.
func HopK(e error) (error, []byte) {
	w := Encode(e)
	return Decode(w), w
}

// DecodeU decodes at a process that does not know the given type keys
// (hook simulation: the registries temporarily lack them).
func DecodeU(b []byte, keys []string) (e error) {
	errbase.VerifWithoutTypes(keys, func() { e = Decode(b) })
	return e
}

// AtU runs fn in the view of a process that does not know keys.
func AtU(keys []string, fn func()) { errbase.VerifWithoutTypes(keys, fn) }

const renamePrefix = "verif.unknown/"

// RenameKeys rewrites the family names in keys on the wire (recursively
// into nested EncodedError payloads): the hook-free simulation of a
// receiver that does not know those types. back=true undoes it.
func RenameKeys(b []byte, keys map[string]bool, back bool) []byte {
	enc := Unmarshal(b)
	renameEnc(enc, keys, back)
	return Marshal(enc)
}

func renameName(n *string, keys map[string]bool, back bool) {
	if back {
		if strings.HasPrefix(*n, renamePrefix) {
			*n = strings.TrimPrefix(*n, renamePrefix)
		}
		return
	}
	if keys[*n] {
		*n = renamePrefix + *n
	}
}

func renameEnc(enc *errorspb.EncodedError, keys map[string]bool, back bool) {
	WalkWire(enc, func(d *errorspb.EncodedErrorDetails, _ *string, _ bool) {
		renameName(&d.ErrorTypeMark.FamilyName, keys, back)
	})
}

const encodedErrorURL = "type.googleapis.com/cockroach.errorspb.EncodedError"

// WalkWire visits the details of every layer of an encoded error,
// including layers inside nested EncodedError payloads (barriers,
// secondary errors); nested payloads are re-marshalled after the visit so
// that edits made by f stick.
func WalkWire(enc *errorspb.EncodedError, f func(d *errorspb.EncodedErrorDetails, msg *string, isWrapper bool)) {
	if enc == nil {
		return
	}
	var d *errorspb.EncodedErrorDetails
	if w := enc.GetWrapper(); w != nil {
		f(&w.Details, &w.Message, true)
		d = &w.Details
		WalkWire(&w.Cause, f)
	} else if l := enc.GetLeaf(); l != nil {
		f(&l.Details, &l.Message, false)
		d = &l.Details
		for _, c := range l.MultierrorCauses {
			WalkWire(c, f)
		}
	}
	if d != nil && d.FullDetails != nil && d.FullDetails.TypeUrl == encodedErrorURL {
		var nested errorspb.EncodedError
		if err := proto.Unmarshal(d.FullDetails.Value, &nested); err == nil {
			WalkWire(&nested, f)
			d.FullDetails.Value = Marshal(&nested)
		}
	}
}

// WireKeys lists the distinct family names occurring in the message.
func WireKeys(b []byte) []string {
	seen := map[string]bool{}
	WalkWire(Unmarshal(b), func(d *errorspb.EncodedErrorDetails, _ *string, _ bool) {
		seen[d.ErrorTypeMark.FamilyName] = true
	})
	var ks []string
	for k := range seen {
		ks = append(ks, k)
	}
	sort.Strings(ks)
	return ks
}

// BarrierKey is the wire family name of barrier leaves.
var BarrierKey = string(errors.GetTypeKey(errors.Handled(errors.New("x"))))

// BlankBarrierPayloads returns the wire with the reportable_payload of
// every barrier leaf removed (recursively). A barrier's safe details embed
// a rendering of the hidden error, which legitimately changes when the
// hidden error's layers change Go type (C11 states this exception).
func BlankBarrierPayloads(b []byte) []byte {
	enc := Unmarshal(b)
	WalkWire(enc, func(d *errorspb.EncodedErrorDetails, _ *string, isWrapper bool) {
		if !isWrapper && d.ErrorTypeMark.FamilyName == BarrierKey {
			d.ReportablePayload = nil
		}
	})
	return Marshal(enc)
}

// HasBarrier tells whether the wire contains a barrier leaf.
func HasBarrier(b []byte) bool {
	has := false
	WalkWire(Unmarshal(b), func(d *errorspb.EncodedErrorDetails, _ *string, isWrapper bool) {
		if !isWrapper && d.ErrorTypeMark.FamilyName == BarrierKey {
			has = true
		}
	})
	return has
}

// BarrierPrevKey is the family name under which previous versions of the
// library sent barrier leaves (barriers.go registers a decoder for it).
const BarrierPrevKey = "github.com/cockroachdb/errors/barriers/*barriers.barrierError"

// AsPreviousSender rewrites the wire into what a sender running the
// previous version of the library would have produced for the same
// error: every barrier leaf (recursively) travels under the previous
// type name and carries its overriding message as plain text instead of
// a redactable string. The second result tells whether anything changed.
func AsPreviousSender(b []byte) ([]byte, bool) {
	enc := Unmarshal(b)
	changed := false
	WalkWire(enc, func(d *errorspb.EncodedErrorDetails, msg *string, isWrapper bool) {
		if !isWrapper && d.ErrorTypeMark.FamilyName == BarrierKey {
			d.ErrorTypeMark.FamilyName = BarrierPrevKey
			d.OriginalTypeName = BarrierPrevKey
			*msg = redact.RedactableString(*msg).StripMarkers()
			changed = true
		}
	})
	return Marshal(enc), changed
}

// HidePayloadTypes rewrites every Any type URL except nested
// EncodedErrors so that the receiver cannot unmarshal the payload: a
// process that lacks the payload's protobuf definition.
func HidePayloadTypes(b []byte) []byte {
	enc := Unmarshal(b)
	WalkWire(enc, func(d *errorspb.EncodedErrorDetails, _ *string, _ bool) {
		if d.FullDetails != nil && d.FullDetails.TypeUrl != encodedErrorURL {
			d.FullDetails = &types.Any{TypeUrl: d.FullDetails.TypeUrl + ".verifunknown", Value: d.FullDetails.Value}
		}
	})
	return Marshal(enc)
}

// Subsets calls f with every subset of keys (2^n), the empty one first.
func Subsets(keys []string, f func(sub []string)) {
	n := len(keys)
	for m := 0; m < 1<<uint(n); m++ {
		var sub []string
		for i := 0; i < n; i++ {
			if m&(1<<uint(i)) != 0 {
				sub = append(sub, keys[i])
			}
		}
		f(sub)
	}
}

// WireDiff compares two wire messages layer by layer and describes the
// first difference as (field, family name of the layer), or "" when the
// messages are byte-identical.
func WireDiff(a, b []byte) (field, family, detail string) {
	if string(a) == string(b) {
		return "", "", ""
	}
	return encDiff(Unmarshal(a), Unmarshal(b))
}

func encDiff(a, b *errorspb.EncodedError) (string, string, string) {
	aw, bw := a.GetWrapper(), b.GetWrapper()
	al, bl := a.GetLeaf(), b.GetLeaf()
	switch {
	case aw != nil && bw != nil:
		if f, d := detailsDiff(&aw.Details, &bw.Details); f != "" {
			return f, aw.Details.ErrorTypeMark.FamilyName, d
		}
		if aw.Message != bw.Message {
			return "message", aw.Details.ErrorTypeMark.FamilyName, fmt.Sprintf("%q vs %q", aw.Message, bw.Message)
		}
		if aw.MessageType != bw.MessageType {
			return "message_type", aw.Details.ErrorTypeMark.FamilyName, fmt.Sprintf("%v vs %v", aw.MessageType, bw.MessageType)
		}
		return encDiff(&aw.Cause, &bw.Cause)
	case al != nil && bl != nil:
		if f, d := detailsDiff(&al.Details, &bl.Details); f != "" {
			return f, al.Details.ErrorTypeMark.FamilyName, d
		}
		if al.Message != bl.Message {
			return "message", al.Details.ErrorTypeMark.FamilyName, fmt.Sprintf("%q vs %q", al.Message, bl.Message)
		}
		if len(al.MultierrorCauses) != len(bl.MultierrorCauses) {
			return "multierror_causes", al.Details.ErrorTypeMark.FamilyName, fmt.Sprintf("%d vs %d", len(al.MultierrorCauses), len(bl.MultierrorCauses))
		}
		for i := range al.MultierrorCauses {
			if f, fam, d := encDiff(al.MultierrorCauses[i], bl.MultierrorCauses[i]); f != "" {
				return f, fam, d
			}
		}
		return "", "", ""
	default:
		return "form", "", fmt.Sprintf("wrapper=%v/leaf=%v vs wrapper=%v/leaf=%v", aw != nil, al != nil, bw != nil, bl != nil)
	}
}

func detailsDiff(a, b *errorspb.EncodedErrorDetails) (string, string) {
	if a.OriginalTypeName != b.OriginalTypeName {
		return "original_type_name", fmt.Sprintf("%q vs %q", a.OriginalTypeName, b.OriginalTypeName)
	}
	if a.ErrorTypeMark != b.ErrorTypeMark {
		return "error_type_mark", fmt.Sprintf("%v vs %v", a.ErrorTypeMark, b.ErrorTypeMark)
	}
	if fmt.Sprintf("%q", a.ReportablePayload) != fmt.Sprintf("%q", b.ReportablePayload) {
		return "reportable_payload", fmt.Sprintf("%q vs %q", a.ReportablePayload, b.ReportablePayload)
	}
	switch {
	case a.FullDetails == nil && b.FullDetails == nil:
	case a.FullDetails == nil || b.FullDetails == nil:
		return "full_details", "one side has no payload"
	case a.FullDetails.TypeUrl != b.FullDetails.TypeUrl:
		return "full_details.type_url", fmt.Sprintf("%q vs %q", a.FullDetails.TypeUrl, b.FullDetails.TypeUrl)
	case string(a.FullDetails.Value) != string(b.FullDetails.Value):
		if a.FullDetails.TypeUrl == encodedErrorURL {
			var na, nb errorspb.EncodedError
			if proto.Unmarshal(a.FullDetails.Value, &na) == nil && proto.Unmarshal(b.FullDetails.Value, &nb) == nil {
				if f, fam, d := encDiff(&na, &nb); f != "" {
					return "nested." + f + "@" + fam, d
				}
			}
		}
		return "full_details.value", fmt.Sprintf("%q vs %q", a.FullDetails.Value, b.FullDetails.Value)
	}
	return "", ""
}

// Bg returns the background context.
func Bg() context.Context { return bg }

// WireLayer is one visible layer of an encoded error.
type WireLayer struct {
	TypeName, Family, Extension string
	Reportable                  []string
	Message                     string
	IsWrapper                   bool
}

// WireLayers lists the visible layers (not those nested inside payloads)
// in the same walk as Nodes: node, its single-cause chain, then branches.
func WireLayers(b []byte) []WireLayer {
	var out []WireLayer
	var rec func(enc *errorspb.EncodedError)
	rec = func(enc *errorspb.EncodedError) {
		if w := enc.GetWrapper(); w != nil {
			out = append(out, WireLayer{w.Details.OriginalTypeName, w.Details.ErrorTypeMark.FamilyName, w.Details.ErrorTypeMark.Extension, w.Details.ReportablePayload, w.Message, true})
			rec(&w.Cause)
		} else if l := enc.GetLeaf(); l != nil {
			out = append(out, WireLayer{l.Details.OriginalTypeName, l.Details.ErrorTypeMark.FamilyName, l.Details.ErrorTypeMark.Extension, l.Details.ReportablePayload, l.Message, false})
			for _, c := range l.MultierrorCauses {
				rec(c)
			}
		}
	}
	rec(Unmarshal(b))
	return out
}

// IsOpaque tells whether e is one of the library's opaque carrier types.
func IsOpaque(e error) bool {
	return strings.HasPrefix(fmt.Sprintf("%T", e), "*errbase.opaque")
}
