package tm

// siblings lists, per op, ops of the same shape (kind, slots, side
// arguments) but another Go type: used to build near-equal copies that
// differ in exactly one type.
var siblings = map[string][]string{
	"GoNew":          {"ut.PtrLeaf", "ut.RegLeaf", "PkgNew", "ut.ValLeaf"},
	"ut.PtrLeaf":     {"GoNew", "ut.RegLeaf"},
	"New":            {"GoNew"},
	"ut.UnwrapW":     {"ut.CauseW", "ut.BothW", "PkgWithMessage", "GoErrorf_w", "ut.RegW", "ut.ValW"},
	"GoErrorf_w":     {"ut.UnwrapW", "PkgWithMessage"},
	"WithMessage":    {"Wrap", "PkgWithMessage"},
	"Wrap":           {"WithMessage"},
	"WithHint":       {"WithDetail"},
	"WithDetail":     {"WithHint"},
	"WithStack":      {"PkgWithStack", "WithAssertionFailure"},
	"Handled":        {"Opaque", "DomainsHandled"},
	"Join2":          {"GoJoin2"},
	"GoJoin2":        {"Join2"},
	"WithTelemetry":  {"WithDomain"},
	"WithDomain":     {"WithTelemetry"},
	"ut.FullW":       {"ut.RegFullW"},
	"ENOENT":         {"EACCES"},
	"os.ErrNotExist": {"os.ErrExist"},
}

var absorbLeaf = map[string]string{"ut.OptW": "ut.OptLeaf"}

// Perturb returns systematically perturbed copies of t: one message
// changed, one type changed, one layer added, one layer removed. (A
// changed domain is a changed message of the domain slot.)
func Perturb(t *Term) []*Term {
	var out []*Term
	// one message changed
	n := t.NumSlots()
	for k := 0; k < n; k++ {
		v := t.Clone()
		v.EachSlot(func(j int, o *Term, i int) {
			if j == k {
				o.S[i] = Token(70 + k)
			}
		})
		out = append(out, v)
	}
	// a type that is sometimes a leaf and sometimes a wrapper: replace
	// the sub-tree at a wrapper of such a type by a leaf of the same type
	// whose message is the sub-tree's whole text (same message, same
	// leading types, shorter chain)
	{
		i := 0
		for c := t; c != nil; c, i = c.Kid, i+1 {
			lf, ok := absorbLeaf[c.Op.Name]
			if !ok || c.Kid == nil {
				continue
			}
			v := t.Clone()
			nl := &Term{Op: OpByName[lf], S: []string{c.Model().Text}}
			if i == 0 {
				out = append(out, nl)
			} else {
				p := v
				for k := 0; k < i-1; k++ {
					p = p.Kid
				}
				p.Kid = nl
				out = append(out, v)
			}
		}
	}
	// one side argument replaced by another tree of the pool
	{
		i := 0
		for c := t; c != nil; c, i = c.Kid, i+1 {
			for si := range c.Side {
				for _, alt := range []int{0, 1, 4} {
					v := t.Clone()
					p := v
					for k := 0; k < i; k++ {
						p = p.Kid
					}
					nt := PoolTerm(alt)
					if nt.String() == "" {
						continue
					}
					nt.FillDefault()
					if skeletonOf(nt) == skeletonOf(p.Side[si]) {
						continue
					}
					p.Side[si] = nt
					out = append(out, v)
				}
			}
		}
	}
	// spine positions
	var spine []*Term
	for c := t; c != nil; c = c.Kid {
		spine = append(spine, c)
	}
	at := func(root *Term, i int) *Term {
		c := root
		for ; i > 0; i-- {
			c = c.Kid
		}
		return c
	}
	for i := range spine {
		// one type changed
		for _, sib := range siblings[spine[i].Op.Name] {
			so := OpByName[sib]
			if so == nil || len(so.Slots) != len(spine[i].Op.Slots) || so.NSide != spine[i].Op.NSide {
				continue
			}
			v := t.Clone()
			at(v, i).Op = so
			out = append(out, v)
		}
		// one layer added above position i
		for _, add := range []string{"WithStack", "ut.EmptyW", "WithHint"} {
			v := t.Clone()
			ao := OpByName[add]
			if i == 0 {
				nv := &Term{Op: ao, Kid: v, S: make([]string, len(ao.Slots))}
				for j := range nv.S {
					nv.S[j] = Token(90 + j)
				}
				out = append(out, nv)
			} else {
				p := at(v, i-1)
				nv := &Term{Op: ao, Kid: p.Kid, S: make([]string, len(ao.Slots))}
				for j := range nv.S {
					nv.S[j] = Token(90 + j)
				}
				p.Kid = nv
				out = append(out, v)
			}
		}
		// one layer removed
		if spine[i].Kid != nil {
			v := t.Clone()
			if i == 0 {
				out = append(out, v.Kid)
			} else {
				p := at(v, i-1)
				p.Kid = p.Kid.Kid
				out = append(out, v)
			}
		}
	}
	return out
}

func skeletonOf(t *Term) string {
	if t == nil {
		return ""
	}
	s := t.Op.Name + "("
	s += skeletonOf(t.Kid)
	for _, x := range t.Side {
		s += "|" + skeletonOf(x)
	}
	return s + ")"
}
