package tm

import (
	"fmt"
	"regexp"
	"sort"

	"github.com/cockroachdb/errors"
	"github.com/cockroachdb/errors/errorspb"
	"github.com/cockroachdb/redact"
	"github.com/getsentry/sentry-go"
)

// Out is one named output string.
type Out struct{ Name, S string }

// RedactedRenderings are the Redact()ed forms of the redactable
// renderings.
func RedactedRenderings(e error) []Out {
	return []Out{
		{"redact.Sprint.Redact", string(redact.Sprint(e).Redact())},
		{"redact%v.Redact", string(redact.Sprintf("%v", e).Redact())},
		{"redact%s.Redact", string(redact.Sprintf("%s", e).Redact())},
		{"redact%+v.Redact", string(redact.Sprintf("%+v", e).Redact())},
	}
}

// SafeDetailOutputs are the strings of GetAllSafeDetails and of
// GetSafeDetails of every visible node.
func SafeDetailOutputs(e error) []Out {
	var out []Out
	for i, p := range errors.GetAllSafeDetails(e) {
		out = append(out, Out{fmt.Sprintf("GetAllSafeDetails[%d].type", i), p.OriginalTypeName + "|" + p.ErrorTypeMark.FamilyName + "|" + p.ErrorTypeMark.Extension})
		for j, s := range p.SafeDetails {
			out = append(out, Out{fmt.Sprintf("GetAllSafeDetails[%d][%d]", i, j), s})
		}
	}
	for i, n := range Nodes(e) {
		p := errors.GetSafeDetails(n)
		out = append(out, Out{fmt.Sprintf("GetSafeDetails(node %d).type", i), p.OriginalTypeName + "|" + p.ErrorTypeMark.FamilyName + "|" + p.ErrorTypeMark.Extension})
		for j, s := range p.SafeDetails {
			out = append(out, Out{fmt.Sprintf("GetSafeDetails(node %d)[%d]", i, j), s})
		}
	}
	return out
}

// WireSafeOutputs are the fields of the wire message the library
// declares PII-free: reportable payloads, type names, extensions,
// recursively into nested payload messages.
func WireSafeOutputs(b []byte) []Out {
	var out []Out
	i := 0
	WalkWire(Unmarshal(b), func(d *errorspb.EncodedErrorDetails, _ *string, _ bool) {
		out = append(out, Out{fmt.Sprintf("wire[%d].type", i), d.OriginalTypeName + "|" + d.ErrorTypeMark.FamilyName + "|" + d.ErrorTypeMark.Extension})
		for j, s := range d.ReportablePayload {
			out = append(out, Out{fmt.Sprintf("wire[%d].reportable_payload[%d]", i, j), s})
		}
		i++
	})
	return out
}

// SentryOutputs flattens every string field of the Sentry event and the
// extras.
func SentryOutputs(e error) []Out {
	ev, extras := errors.BuildSentryReport(e)
	return FlattenEvent(ev, extras)
}

// FlattenEvent lists the string fields of an event.
func FlattenEvent(ev *sentry.Event, extras map[string]interface{}) []Out {
	var out []Out
	if ev == nil {
		return out
	}
	out = append(out, Out{"sentry.Message", ev.Message})
	for i, x := range ev.Exception {
		out = append(out, Out{fmt.Sprintf("sentry.Exception[%d].Type", i), x.Type},
			Out{fmt.Sprintf("sentry.Exception[%d].Value", i), x.Value},
			Out{fmt.Sprintf("sentry.Exception[%d].Module", i), x.Module})
		if x.Stacktrace != nil {
			for j, f := range x.Stacktrace.Frames {
				out = append(out, Out{fmt.Sprintf("sentry.Exception[%d].Frame[%d]", i, j), f.Function + "|" + f.Module + "|" + f.Filename + "|" + f.AbsPath})
			}
		}
	}
	var ks []string
	for k := range extras {
		ks = append(ks, k)
	}
	sort.Strings(ks)
	for _, k := range ks {
		out = append(out, Out{"sentry.extras[" + k + "]", k + "=" + fmt.Sprint(extras[k])})
	}
	for k, v := range ev.Extra {
		out = append(out, Out{"sentry.Extra[" + k + "]", fmt.Sprint(v)})
	}
	for k, v := range ev.Tags {
		out = append(out, Out{"sentry.Tags[" + k + "]", v})
	}
	return out
}

// PIIFreeOutputs is everything the library declares PII-free for e.
func PIIFreeOutputs(e error) []Out {
	out := RedactedRenderings(e)
	out = append(out, SafeDetailOutputs(e)...)
	out = append(out, WireSafeOutputs(Encode(e))...)
	out = append(out, SentryOutputs(e)...)
	return out
}

var tokenRe = regexp.MustCompile(`Q7k\d\dZ`)

// SlotInfo describes one string slot of a term.
type SlotInfo struct {
	K      int
	Op     string
	Name   string
	Safe   bool
	NoRep  bool
	Value  string
	Token  string
	Hidden bool // sits in a side tree (secondary / hidden / reference)
	Fmt    bool // the slot is used as a raw printf format
}

// SlotInfos lists the slots of t with their tokens.
func (t *Term) SlotInfos() []SlotInfo {
	var out []SlotInfo
	k := 0
	var rec func(t *Term, hidden, notRetained bool)
	rec = func(t *Term, hidden, notRetained bool) {
		if t == nil {
			return
		}
		for i, sl := range t.Op.Slots {
			tok := Token(k)
			if m := tokenRe.FindString(t.S[i]); m != "" {
				// the slot may carry another position's token (aliased strings)
				tok = m
			}
			out = append(out, SlotInfo{K: k, Op: t.Op.Name, Name: sl.Name, Safe: sl.Safe, NoRep: sl.NoReport || notRetained, Value: t.S[i], Token: tok, Hidden: hidden, Fmt: sl.Fmt})
			k++
		}
		rec(t.Kid, hidden || t.Op.HidesCause, notRetained)
		for _, s := range t.Side {
			rec(s, hidden || t.Op.Kind != KMulti, notRetained || t.Op.SideIsReference)
		}
	}
	rec(t, false, false)
	return out
}
