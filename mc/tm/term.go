// Package tm is the term language of the explorer: constructor
// expressions over the public API of cockroachdb/errors (and of the error
// types it interoperates with), the real error each term builds, and the
// model record (Node tree) the oracles compute expectations from.
package tm

import (
	"encoding/json"
	"fmt"
	"regexp"
	"strings"
	"unicode/utf8"
)

type Kind int

const (
	KLeaf Kind = iota
	KWrap
	KMulti
)

// Slot describes one string argument of a constructor.
type Slot struct {
	Name string
	// Safe: the library documents this argument as PII-free (constant
	// message / format string, Safe() argument, telemetry key, domain,
	// issue link, tag key …). Unsafe otherwise.
	Safe bool
	// NoReport: a safe slot that is nevertheless not expected in reports
	// (none today; kept for clarity).
	NoReport bool
	// Fmt: the slot is used as a printf format *verbatim* (model text
	// is fmt.Sprintf of it).
	Fmt bool
}

// Op is one constructor of the alphabet.
type Op struct {
	Name  string
	Kind  Kind
	Slots []Slot
	// NSide is the number of error arguments besides the wrapped cause:
	// secondary error, mark reference, hidden error, format argument;
	// for KMulti it is the number of branches.
	NSide int
	// Build runs the real constructor(s).
	Build func(s []string, cause error, side []error) error
	// Model returns the expected node tree (outermost node).
	Model func(s []string, cause *Node, side []*Node) *Node
	// Class is the behaviour class, used for reporting and for A_core.
	Class string
	// Lib: the outermost layer is a library type (C09 applies directly).
	Lib bool
	// Foreign: contains a non-library layer whose text is unsafe.
	Core bool
	// HidesCause: for KWrap ops, the wrapped error becomes hidden
	// (barriers): the result is a leaf as far as cause analysis goes.
	HidesCause bool
	// Unreg: builds a type with no decoder (decodes to an opaque type).
	Unreg bool
	// SideIsReference: the side argument is only consulted (Mark's
	// reference: message and types are recorded), not attached: nothing
	// of it needs to be retained.
	SideIsReference bool
	// QuirkOf, when set, names the sibling op that differs from this one
	// only by avoiding a documented, test-pinned rendering quirk of the
	// library (see DESIGN.md §4). Quirk ops are explored in a separate
	// pass so that one known finding does not flood every composition.
	QuirkOf string
	// QuirkFor restricts a quirk op to the listed properties (empty: all).
	QuirkFor []string
	// QuirkStrings are extra strings for the first slot of a leaf quirk op,
	// with {T} standing for the slot's token.
	QuirkStrings []string
	// QuirkStringsFor restricts QuirkStrings to the listed properties.
	QuirkStringsFor []string
	// ExtraOnly ops are reachable by name (hand-picked Extras terms, sweeps)
	// but are not part of the enumerated spaces.
	ExtraOnly bool
}

// Term is a constructor expression.
type Term struct {
	Op   *Op
	S    []string
	Kid  *Term
	Side []*Term
}

// Link mirrors errors.IssueLink.
type Link struct{ URL, Detail string }

// Node is the model of one layer of the expected error.
type Node struct {
	// Text is the expected Error() text at this layer.
	Text string
	// Cause is the visible single cause; Multi the visible branches.
	Cause *Node
	Multi []*Node
	// Hidden are sub-trees that must not be reachable by cause analysis
	// but are shown in %+v: barrier-masked error, secondary error,
	// error-valued format arguments.
	Hidden []*Node
	// HiddenBarrier is true when Hidden[0] is behind a barrier (vs
	// attached as secondary).
	Barrier bool
	// Own is the text this layer itself contributes (prefix / full
	// message / leaf message); "" for annotations.
	Own string
	// Role: "leaf", "prefix", "full", "annot", "barrier", "multi".
	Role string

	Hint   string
	Detail string
	Links  []Link
	Keys   []string
	Domain string // "" = none at this layer
	Tags   [][2]string
	Assert bool
	Unimpl bool
	HTTP   int // 0 = none
	GRPC   int // -1 = none
	Stack  bool
	// MarkOf, when non-nil, is the model of the reference this layer
	// was marked with.
	MarkOf *Node
	// SafeTok / UnsafeTok: slot strings that entered at this layer.
	Safe   []string
	Unsafe []string
	// Lib: the layer is a library type.
	Lib bool
	// Sentinel names the sentinel this leaf is (identity) or claims to be
	// (Is method), if any.
	Is []string
}

func (n *Node) withCause(c *Node) *Node { n.Cause = c; return n }

// Annot builds a transparent annotation layer over c.
func Annot(c *Node) *Node {
	return &Node{Text: c.Text, Cause: c, Role: "annot", GRPC: -1, Lib: true}
}

// Prefix builds a "p: cause" layer; an empty prefix is transparent.
func Prefix(p string, c *Node) *Node {
	t := c.Text
	if p != "" {
		t = p + ": " + c.Text
	}
	return &Node{Text: t, Own: p, Cause: c, Role: "prefix", GRPC: -1}
}

// Leaf builds a leaf node.
func Leaf(text string) *Node { return &Node{Text: text, Own: text, Role: "leaf", GRPC: -1} }

// Stack builds a stack-trace annotation.
func Stack(c *Node) *Node { n := Annot(c); n.Stack = true; return n }

// Secondary builds a secondary-error attachment.
func Secondary(c, sec *Node) *Node { n := Annot(c); n.Hidden = []*Node{sec}; return n }

// Spine returns the single-cause chain starting at n.
func (n *Node) Spine() []*Node {
	var s []*Node
	for c := n; c != nil; c = c.Cause {
		s = append(s, c)
	}
	return s
}

// CountVisible counts all nodes reachable via Cause/Multi.
func (n *Node) CountVisible() int {
	if n == nil {
		return 0
	}
	k := 1 + n.Cause.CountVisible()
	for _, m := range n.Multi {
		k += m.CountVisible()
	}
	return k
}

// ---------- strings and tokens ----------

// Token returns the unique marker of string slot k of a term.
func Token(k int) string { return fmt.Sprintf("Q7k%02dZ", k) }

// Splice inserts the token after the first rune of s, so that both ends
// and every interior pattern after the first rune of the alphabet string
// are preserved. The empty string stays empty.
func Splice(s, tok string) string {
	if s == "" {
		return ""
	}
	_, w := utf8.DecodeRuneInString(s)
	out := s[:w] + tok
	rest := s[w:]
	// a multi-line string carries the token on its last line too, so that
	// the fate of the text after the newline is observable
	if nl := strings.LastIndexByte(rest, '\n'); nl >= 0 && nl+1 < len(rest) {
		return out + rest[:nl+1] + tok + rest[nl+1:]
	}
	return out + rest
}

// REG is the "regular text" alphabet of the quantifiers: non-empty valid
// UTF-8, no marker runes, newlines interior and isolated.
var REG = []string{"a", "x: y", "p: ", "100% %d %s", "ü \"q\" 'r'", "l1\nl2", "q:", "r ", "s \n\tt"}

// REGE is REG plus the empty string: for the properties whose
// quantifier does not exclude empty messages.
var REGE = append(append([]string{}, REG...), "")

// HOSTILE adds the strings the redaction properties quantify over.
var HOSTILE = append(append([]string{}, REG...),
	"", "‹", "›", "a‹b›c", "›x‹", "‹×›", "x‹", "x›", "\n", "\nx", "x\n", "a\n\nb", "a›\nb", "a‹\nb›c",
	"\x00", "a\xffb", "x\xff", "%!v(PANIC=", "a: b: c", ": ", "x:", " ",
	"a\r\nb", "a\rb", "\r", "\ta", "a\u2028b")

// NumSlots returns the number of string slots in t (preorder).
func (t *Term) NumSlots() int {
	if t == nil {
		return 0
	}
	n := len(t.Op.Slots) + t.Kid.NumSlots()
	for _, s := range t.Side {
		n += s.NumSlots()
	}
	return n
}

// EachSlot visits the string slots of t in preorder: own slots, cause,
// then side trees. path tells whether the slot sits in a hidden/side
// position.
func (t *Term) EachSlot(f func(k int, owner *Term, i int)) {
	k := 0
	var rec func(t *Term)
	rec = func(t *Term) {
		if t == nil {
			return
		}
		for i := range t.Op.Slots {
			f(k, t, i)
			k++
		}
		rec(t.Kid)
		for _, s := range t.Side {
			rec(s)
		}
	}
	rec(t)
}

// FillDefault gives every slot its token as content.
func (t *Term) FillDefault() *Term {
	t.EachSlot(func(k int, o *Term, i int) {
		if len(o.S) != len(o.Op.Slots) {
			o.S = make([]string, len(o.Op.Slots))
		}
		o.S[i] = Token(k)
	})
	return t
}

// SetSlot sets slot k to the alphabet string s spliced with its token.
func (t *Term) SetSlot(k int, s string) {
	t.EachSlot(func(j int, o *Term, i int) {
		if j == k {
			o.S[i] = Splice(s, Token(k))
		}
	})
}

// IsDefault reports whether slot content is exactly its token.
func isDefaultAt(s string, k int) bool { return s == Token(k) }

// ResetSlot sets slot k back to its token; false if it already was.
func (t *Term) ResetSlot(k int) (changed bool) {
	t.EachSlot(func(j int, o *Term, i int) {
		if j == k && o.S[i] != Token(k) {
			o.S[i] = Token(k)
			changed = true
		}
	})
	return
}

// FillTokensKeeping renumbers the tokens after a structural edit: slots
// that held only a token get the token of their new position; slots
// holding an alphabet string keep it, re-spliced with the new token.
func (t *Term) FillTokensKeeping() {
	t.EachSlot(func(k int, o *Term, i int) {
		if len(o.S) != len(o.Op.Slots) {
			ns := make([]string, len(o.Op.Slots))
			copy(ns, o.S)
			o.S = ns
		}
		o.S[i] = retoken(o.S[i], Token(k))
	})
}

var tokenPattern = regexp.MustCompile(`Q7k\d\dZ`)

// retoken replaces the token inside s (if any) by tok; a string without
// token (the empty alphabet string, or an unassigned slot) becomes tok
// only when it was unassigned.
func retoken(s, tok string) string {
	return tokenPattern.ReplaceAllString(s, tok)
}

// Clone deep-copies the term (ops are shared).
func (t *Term) Clone() *Term {
	if t == nil {
		return nil
	}
	c := &Term{Op: t.Op, S: append([]string{}, t.S...), Kid: t.Kid.Clone()}
	for _, s := range t.Side {
		c.Side = append(c.Side, s.Clone())
	}
	return c
}

// Depth is the number of constructor applications on the spine.
func (t *Term) Depth() int {
	d := 0
	for c := t; c != nil; c = c.Kid {
		d++
	}
	return d
}

// Build runs the real constructors. Fresh objects every time.
func (t *Term) Build() error {
	if t == nil {
		return nil
	}
	var cause error
	if t.Kid != nil {
		cause = t.Kid.Build()
	}
	var side []error
	for _, s := range t.Side {
		side = append(side, s.Build())
	}
	return t.Op.Build(t.S, cause, side)
}

// Model computes the expected node tree.
func (t *Term) Model() *Node {
	if t == nil {
		return nil
	}
	var cause *Node
	if t.Kid != nil {
		cause = t.Kid.Model()
	}
	var side []*Node
	for _, s := range t.Side {
		side = append(side, s.Model())
	}
	return t.Op.Model(t.S, cause, side)
}

// String renders the term as a readable constructor expression.
func (t *Term) String() string {
	if t == nil {
		return "nil"
	}
	var b strings.Builder
	b.WriteString(t.Op.Name)
	b.WriteByte('(')
	sep := ""
	if t.Kid != nil {
		b.WriteString(t.Kid.String())
		sep = ", "
	}
	for _, s := range t.S {
		b.WriteString(sep)
		if len(s) > 200 {
			fmt.Fprintf(&b, "%q…(%d bytes)", s[:24], len(s))
		} else {
			fmt.Fprintf(&b, "%q", s)
		}
		sep = ", "
	}
	for _, s := range t.Side {
		b.WriteString(sep)
		b.WriteString("|" + s.String())
		sep = ", "
	}
	b.WriteByte(')')
	return b.String()
}

// jterm is the serialised form used in replay files.
type jterm struct {
	Op   string   `json:"op"`
	S    []string `json:"s,omitempty"`
	SHex []string `json:"s_hex,omitempty"` // when a string is not valid UTF-8
	Kid  *jterm   `json:"kid,omitempty"`
	Side []*jterm `json:"side,omitempty"`
}

func (t *Term) toJ() *jterm {
	if t == nil {
		return nil
	}
	j := &jterm{Op: t.Op.Name, Kid: t.Kid.toJ()}
	valid := true
	for _, s := range t.S {
		if !utf8.ValidString(s) {
			valid = false
		}
	}
	if valid {
		j.S = t.S
	} else {
		for _, s := range t.S {
			j.SHex = append(j.SHex, fmt.Sprintf("%x", s))
		}
	}
	for _, s := range t.Side {
		j.Side = append(j.Side, s.toJ())
	}
	return j
}

func (t *Term) MarshalJSON() ([]byte, error) { return json.Marshal(t.toJ()) }

func fromJ(j *jterm) (*Term, error) {
	if j == nil {
		return nil, nil
	}
	op := OpByName[j.Op]
	if op == nil {
		return nil, fmt.Errorf("unknown op %q", j.Op)
	}
	t := &Term{Op: op, S: j.S}
	if len(j.SHex) > 0 {
		t.S = nil
		for _, h := range j.SHex {
			var b []byte
			fmt.Sscanf(h, "%x", &b)
			t.S = append(t.S, string(b))
		}
	}
	if len(t.S) != len(op.Slots) {
		return nil, fmt.Errorf("op %q wants %d strings, got %d", j.Op, len(op.Slots), len(t.S))
	}
	var err error
	if t.Kid, err = fromJ(j.Kid); err != nil {
		return nil, err
	}
	for _, s := range j.Side {
		st, err := fromJ(s)
		if err != nil {
			return nil, err
		}
		t.Side = append(t.Side, st)
	}
	return t, nil
}

func (t *Term) UnmarshalJSON(b []byte) error {
	var j jterm
	if err := json.Unmarshal(b, &j); err != nil {
		return err
	}
	x, err := fromJ(&j)
	if err != nil {
		return err
	}
	*t = *x
	return nil
}

// OpByName indexes the alphabet.
var OpByName = map[string]*Op{}

// GoExpr renders the term as Go source over the public API where the op
// provides it (used in generated stand-alone tests); falls back to String.
func (t *Term) GoExpr() string { return t.String() }

// BuildDeep builds the term at the bottom of n extra (non-inlinable)
// call frames, so that captured stacks are deeper than the library's
// capture buffer.
func (t *Term) BuildDeep(n int) error { return deepCall(n, t) }

//go:noinline
func deepCall(n int, t *Term) error {
	if n <= 0 {
		return t.Build()
	}
	e := deepCall(n-1, t)
	return e
}
