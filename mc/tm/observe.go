package tm

import (
	"fmt"
	"reflect"
	"sort"
	"strings"

	"github.com/cockroachdb/errors"
	"github.com/cockroachdb/errors/errbase"
	"github.com/cockroachdb/errors/extgrpc"
	"github.com/cockroachdb/errors/exthttp"
	"github.com/cockroachdb/errors/oserror"
)

// Guard runs f and returns the recovered panic value, if any.
func Guard(f func()) (p interface{}) {
	defer func() { p = recover() }()
	f()
	return nil
}

// Same compares two error values without panicking on non-comparable
// dynamic types: identical pointer, or equal comparable value.
func Same(a, b error) bool {
	if a == nil || b == nil {
		return a == nil && b == nil
	}
	ta, tb := reflect.TypeOf(a), reflect.TypeOf(b)
	if ta != tb {
		return false
	}
	if ta.Kind() == reflect.Ptr {
		return reflect.ValueOf(a).Pointer() == reflect.ValueOf(b).Pointer()
	}
	eq := false
	if p := Guard(func() { eq = a == b }); p != nil {
		// non-comparable dynamic value (e.g. a struct with a slice): the
		// best notion of "the same value" is deep equality.
		return reflect.DeepEqual(a, b)
	}
	return eq
}

// Shape is the visible cause tree with the Error() text of every node.
type Shape struct {
	Text  string
	Type  string
	Cause *Shape
	Multi []*Shape
}

// ShapeOf walks UnwrapOnce / UnwrapMulti.
func ShapeOf(e error) *Shape {
	if e == nil {
		return nil
	}
	s := &Shape{Text: e.Error(), Type: fmt.Sprintf("%T", e)}
	if c := errbase.UnwrapOnce(e); c != nil {
		s.Cause = ShapeOf(c)
	}
	for _, m := range errbase.UnwrapMulti(e) {
		s.Multi = append(s.Multi, ShapeOf(m))
	}
	return s
}

// Diff returns "" when the two shapes agree on structure and texts, else
// a description of the first difference.
func (s *Shape) Diff(o *Shape) string { return s.diff(o, "root") }

func (s *Shape) diff(o *Shape, path string) string {
	if s == nil || o == nil {
		if s == nil && o == nil {
			return ""
		}
		return fmt.Sprintf("at %s: one side has no node (%v vs %v)", path, s != nil, o != nil)
	}
	if s.Text != o.Text {
		return fmt.Sprintf("at %s (%s vs %s): text %q vs %q", path, s.Type, o.Type, s.Text, o.Text)
	}
	if d := s.Cause.diff(o.Cause, path+".cause"); d != "" {
		return d
	}
	if len(s.Multi) != len(o.Multi) {
		return fmt.Sprintf("at %s: %d vs %d branches", path, len(s.Multi), len(o.Multi))
	}
	for i := range s.Multi {
		if d := s.Multi[i].diff(o.Multi[i], fmt.Sprintf("%s.branch[%d]", path, i)); d != "" {
			return d
		}
	}
	return ""
}

// Count returns the number of nodes.
func (s *Shape) Count() int {
	if s == nil {
		return 0
	}
	n := 1 + s.Cause.Count()
	for _, m := range s.Multi {
		n += m.Count()
	}
	return n
}

// Types lists the Go types in the library's documented walk (node, its
// single-cause chain, then branches).
func (s *Shape) Types() []string {
	if s == nil {
		return nil
	}
	r := []string{s.Type}
	r = append(r, s.Cause.Types()...)
	for _, m := range s.Multi {
		r = append(r, m.Types()...)
	}
	return r
}

// Nodes lists all visible nodes of e in the same walk.
func Nodes(e error) []error {
	if e == nil {
		return nil
	}
	r := []error{e}
	r = append(r, Nodes(errbase.UnwrapOnce(e))...)
	for _, m := range errbase.UnwrapMulti(e) {
		r = append(r, Nodes(m)...)
	}
	return r
}

// KV is one observation.
type KV struct{ K, V string }

// Vec is an ordered observation vector.
type Vec []KV

func (v *Vec) add(k string, val interface{}) { *v = append(*v, KV{k, fmt.Sprint(val)}) }

// Diff returns the first difference between two vectors, or "".
func (v Vec) Diff(o Vec) string {
	for i := 0; i < len(v) && i < len(o); i++ {
		if v[i] != o[i] {
			return fmt.Sprintf("%s: %q vs %s: %q", v[i].K, v[i].V, o[i].K, o[i].V)
		}
	}
	if len(v) != len(o) {
		return fmt.Sprintf("vector length %d vs %d", len(v), len(o))
	}
	return ""
}

// FirstKey returns the key of the first differing entry.
func (v Vec) FirstKey(o Vec) string {
	for i := 0; i < len(v) && i < len(o); i++ {
		if v[i] != o[i] {
			return v[i].K
		}
	}
	return "len"
}

func isBarrierOrSecondary(e error) bool {
	k := string(errbase.GetTypeKey(e))
	return k == BarrierKey || k == SecondaryKey
}

// SecondaryKey is the wire family name of secondary-error wrappers.
var SecondaryKey = string(errors.GetTypeKey(errors.WithSecondaryError(errors.New("x"), errors.New("y"))))

// Annotations is the accessor vector of C11: everything the public API
// lets a program read from an error besides its text and identity.
func Annotations(e error) Vec {
	var v Vec
	v.add("hints", strings.Join(errors.GetAllHints(e), "\x1f"))
	v.add("flathints", errors.FlattenHints(e))
	v.add("details", strings.Join(errors.GetAllDetails(e), "\x1f"))
	v.add("flatdetails", errors.FlattenDetails(e))
	v.add("links", fmt.Sprintf("%q", errors.GetAllIssueLinks(e)))
	keys := errors.GetTelemetryKeys(e)
	sort.Strings(keys)
	v.add("telemetry", strings.Join(keys, "\x1f"))
	v.add("domain", string(errors.GetDomain(e)))
	var tags []string
	for _, b := range errors.GetContextTags(e) {
		var ts []string
		for _, t := range b.Get() {
			ts = append(ts, t.Key()+"="+t.ValueStr())
		}
		tags = append(tags, strings.Join(ts, ","))
	}
	v.add("tags", strings.Join(tags, "\x1f"))
	v.add("hasAssertion", errors.HasAssertionFailure(e))
	v.add("isAssertion", errors.IsAssertionFailure(e))
	v.add("hasUnimplemented", errors.HasUnimplementedError(e))
	v.add("isUnimplemented", errors.IsUnimplementedError(e))
	v.add("hasIssueLink", errors.HasIssueLink(e))
	v.add("isIssueLink", errors.IsIssueLink(e))
	v.add("http", exthttp.GetHTTPCode(e, -1))
	v.add("grpc", extgrpc.GetGrpcCode(e))
	v.add("os.IsPermission", oserror.IsPermission(e))
	v.add("os.IsExist", oserror.IsExist(e))
	v.add("os.IsNotExist", oserror.IsNotExist(e))
	v.add("os.IsTimeout", oserror.IsTimeout(e))
	f, l, fn, ok := errors.GetOneLineSource(e)
	v.add("oneline", fmt.Sprintf("%s:%d:%s:%v", f, l, fn, ok))
	for i, n := range Nodes(e) {
		if !isBarrierOrSecondary(n) {
			v.add(fmt.Sprintf("safedetails[%d]", i), fmt.Sprintf("%q", errors.GetSafeDetails(n).SafeDetails))
		}
		st := errors.GetReportableStackTrace(n)
		if st != nil {
			var fr []string
			for _, f := range st.Frames {
				fr = append(fr, fmt.Sprintf("%s|%s|%s|%d", f.Module, f.Function, f.Filename, f.Lineno))
			}
			v.add(fmt.Sprintf("frames[%d]", i), strings.Join(fr, "\x1f"))
		} else {
			v.add(fmt.Sprintf("frames[%d]", i), "<nil>")
		}
	}
	return v
}

// FirstDiffStr shows where two strings start to differ.
func FirstDiffStr(a, b string) string {
	i := 0
	for i < len(a) && i < len(b) && a[i] == b[i] {
		i++
	}
	lo := i - 40
	if lo < 0 {
		lo = 0
	}
	ea, eb := i+80, i+80
	if ea > len(a) {
		ea = len(a)
	}
	if eb > len(b) {
		eb = len(b)
	}
	return fmt.Sprintf("at byte %d: %q vs %q", i, a[lo:ea], b[lo:eb])
}

// IsG is errors.Is with panics reported instead of propagated.
func IsG(e, r error) (res bool, panicked bool) {
	if p := Guard(func() { res = errors.Is(e, r) }); p != nil {
		return false, true
	}
	return res, false
}
