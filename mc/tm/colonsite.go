package tm

import "github.com/cockroachdb/errors"

// The constructor below presents itself to the runtime under a source path
// with colons (see also callmc/p2): stack frames are printed as file:line
// and parsed back by the one-line-source and Sentry-frame code.
//
//line /verif-virtual/vol:2/tm/colon:site.go:40

//go:noinline
func newAtColonSite(msg string) error { return errors.New(msg) }
