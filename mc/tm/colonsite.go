package tm

import "github.com/cockroachdb/errors"

// Construction sites of special kinds: inside an instantiated generic
// function, inside the method of a generic type, inside a function that is
// called "unknown" (the placeholder the stack printer uses for frames it
// cannot resolve).

//go:noinline
func newAtGeneric[T any](msg string, _ T) error { return errors.New(msg) }

type genericSite[T any] struct{ v T }

//go:noinline
func (g *genericSite[T]) make(msg string) error { return errors.New(msg) }

//go:noinline
func unknown(msg string) error { return errors.New(msg) }

// The constructor below presents itself to the runtime under a source path
// with colons (see also callmc/p2): stack frames are printed as file:line
// and parsed back by the one-line-source and Sentry-frame code.
//
//line /verif-virtual/vol:2/tm/colon:site.go:40

//go:noinline
func newAtColonSite(msg string) error { return errors.New(msg) }
