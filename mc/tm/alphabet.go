package tm

import (
	"fmt"
	"strings"
)

// Entry is an alphabet entry: a constructor with its side arguments bound
// to trees of the side pool.
type Entry struct {
	Op   *Op
	Side []*Term
	Name string
}

// T builds a term from op names, innermost first: T("GoNew","Wrap").
// Ops with side arguments take them from the pool, rotating.
func T(names ...string) *Term {
	var t *Term
	for i, n := range names {
		op := OpByName[n]
		if op == nil {
			panic("unknown op " + n)
		}
		nt := &Term{Op: op, Kid: t}
		for k := 0; k < op.NSide; k++ {
			nt.Side = append(nt.Side, PoolTerm((i+k)%PoolSize()))
		}
		t = nt
	}
	return t.FillDefault()
}

// Mk builds one term node by op name (children not filled in).
func Mk(op string, kid *Term, side ...*Term) *Term { return mk(op, kid, side...) }

func mk(op string, kid *Term, side ...*Term) *Term {
	o := OpByName[op]
	if o == nil {
		panic("unknown op " + op)
	}
	return &Term{Op: o, Kid: kid, Side: side}
}

var poolMakers = []func() *Term{
	func() *Term { return mk("GoNew", nil) },
	func() *Term { return mk("WithHint", mk("New", nil)) },
	func() *Term { return mk("WithDomain", mk("WithTelemetry", mk("GoNew", nil))) },
	func() *Term { return mk("WrapWithHTTPCode", mk("WithAssertionFailure", mk("New", nil))) },
	func() *Term { return mk("Wrap", mk("context.Canceled", nil)) },
	func() *Term { return mk("Join2", mk("GoNew", nil), mk("ENOENT", nil)) },
	func() *Term { return mk("WithIssueLink", mk("ut.PtrLeaf", nil)) },
	func() *Term { return mk("WrapWithGrpcCode", mk("WithDetail", mk("Unimplemented", nil))) },
	func() *Term { return mk("ut.IsW", mk("WithSafeDetails_s", mk("ut.RegLeaf", nil))) },
	func() *Term { return mk("WithContextTags", mk("ut.AsLeaf", nil)) },
	func() *Term { return mk("os.ErrNotExist", nil) },
	func() *Term { return mk("ut.PtrLeaf", nil) },
}

// PoolSize is the number of side trees.
func PoolSize() int { return len(poolMakers) }

// PoolTerm returns a fresh copy of side tree i (strings not yet assigned).
func PoolTerm(i int) *Term { return poolMakers[i%len(poolMakers)]() }

// Entries instantiates ops into alphabet entries; ops with side arguments
// get `variants` entries with different pool trees.
func Entries(ops []*Op, variants int) []Entry {
	var es []Entry
	for k, op := range ops {
		if op.NSide == 0 {
			es = append(es, Entry{Op: op, Name: op.Name})
			continue
		}
		for v := 0; v < variants; v++ {
			e := Entry{Op: op, Name: fmt.Sprintf("%s#%d", op.Name, v)}
			for j := 0; j < op.NSide; j++ {
				e.Side = append(e.Side, PoolTerm((k*3+v*5+j*7)%PoolSize()))
			}
			es = append(es, e)
		}
	}
	return es
}

// CoreOps filters the A_core subset.
func CoreOps(ops []*Op) []*Op {
	var r []*Op
	for _, o := range ops {
		if o.Core {
			r = append(r, o)
		}
	}
	return r
}

// Space is an enumerable set of terms: one leaf entry and depth-1 wrapper
// entries, addressed by a mixed-radix index (leaf least significant).
type Space struct {
	Leaves []Entry
	Wraps  []Entry
	Depth  int // exact depth: 1 leaf + Depth-1 wrappers
}

// Size is the number of terms in the space.
func (sp Space) Size() int64 {
	n := int64(len(sp.Leaves))
	for i := 1; i < sp.Depth; i++ {
		n *= int64(len(sp.Wraps))
	}
	return n
}

// At builds term number i with default (token) strings.
func (sp Space) At(i int64) *Term {
	l := sp.Leaves[i%int64(len(sp.Leaves))]
	i /= int64(len(sp.Leaves))
	t := instantiate(l, nil)
	for d := 1; d < sp.Depth; d++ {
		w := sp.Wraps[i%int64(len(sp.Wraps))]
		i /= int64(len(sp.Wraps))
		t = instantiate(w, t)
	}
	return t.FillDefault()
}

func instantiate(e Entry, kid *Term) *Term {
	t := &Term{Op: e.Op, Kid: kid}
	for _, s := range e.Side {
		t.Side = append(t.Side, s.Clone())
	}
	return t
}

// Full returns the A_full space of exact depth d.
func Full(d int) Space {
	return Space{Leaves: Entries(Leaves, 2), Wraps: Entries(Wrappers, 2), Depth: d}
}

// Core returns the A_core space of exact depth d.
func Core(d int) Space {
	return Space{Leaves: Entries(CoreOps(Leaves), 1), Wraps: Entries(CoreOps(Wrappers), 1), Depth: d}
}

// ForEach enumerates the terms of the space that belong to the shard
// decided by mine; stop() is polled to honour the soft deadline. It
// returns the number of terms visited and whether it completed.
func (sp Space) ForEach(mine func(i int64) bool, stop func() bool, f func(i int64, t *Term)) (int64, bool) {
	n := sp.Size()
	var visited int64
	for i := int64(0); i < n; i++ {
		if !mine(i) {
			continue
		}
		if visited&0x3f == 0 && stop() {
			return visited, false
		}
		f(i, sp.At(i))
		visited++
	}
	return visited, true
}

// StringVariants calls f for the term with, in turn, every slot set to
// every string of the alphabet (other slots keep their token).
func StringVariants(t *Term, alphabet []string, f func(slot int, s string, v *Term)) {
	n := t.NumSlots()
	for k := 0; k < n; k++ {
		for _, s := range alphabet {
			v := t.Clone()
			v.SetSlot(k, s)
			f(k, s, v)
		}
	}
}

// StringPairs calls f with every pair of distinct slots set to every pair
// of alphabet strings.
func StringPairs(t *Term, alphabet []string, f func(v *Term)) {
	n := t.NumSlots()
	for a := 0; a < n; a++ {
		for b := a + 1; b < n; b++ {
			for _, sa := range alphabet {
				for _, sb := range alphabet {
					v := t.Clone()
					v.SetSlot(a, sa)
					v.SetSlot(b, sb)
					f(v)
				}
			}
		}
	}
}

// QuirkTerms enumerates the quirk pass: every quirk op over every core
// leaf, bare and under every wrapper entry of the full alphabet.
func QuirkTerms() []*Term { return QuirkTermsFor("") }

// QuirkTermsFor is QuirkTerms restricted to the quirk ops meant for
// property id (Op.QuirkFor) and, for their extra strings, to the
// properties listed in Op.QuirkStringsFor ("" = no restriction).
func QuirkTermsFor(id string) []*Term {
	has := func(l []string) bool {
		if id == "" || len(l) == 0 {
			return true
		}
		for _, x := range l {
			if x == id {
				return true
			}
		}
		return false
	}
	var ts []*Term
	for _, q := range Quirks {
		if !has(q.QuirkFor) {
			continue
		}
		if q.Kind == KLeaf {
			base := instantiate(Entry{Op: q}, nil)
			ts = append(ts, base.Clone().FillDefault())
			for _, tmpl := range q.QuirkStrings {
				if !has(q.QuirkStringsFor) {
					break
				}
				withTmpl := func(t *Term) *Term {
					t.FillDefault()
					t.EachSlot(func(k int, o *Term, i int) {
						if o.Op == q && i == 0 {
							o.S[i] = strings.ReplaceAll(tmpl, "{T}", Token(k))
						}
					})
					return t
				}
				ts = append(ts, withTmpl(base.Clone()))
				for _, w := range Entries(Wrappers, 1) {
					ts = append(ts, withTmpl(instantiate(w, base.Clone())))
				}
			}
			for _, w := range Entries(Wrappers, 1) {
				w1 := instantiate(w, base.Clone())
				ts = append(ts, w1.Clone().FillDefault())
				for _, w2 := range Entries(CoreOps(Wrappers), 1) {
					ts = append(ts, instantiate(w2, w1.Clone()).FillDefault())
				}
			}
			continue
		}
		for _, l := range Entries(CoreOps(Leaves), 1) {
			base := instantiate(Entry{Op: q}, instantiate(l, nil))
			ts = append(ts, base.Clone().FillDefault())
			for _, w := range Entries(Wrappers, 1) {
				ts = append(ts, instantiate(w, base.Clone()).FillDefault())
			}
		}
	}
	return ts
}

// FindQuirk returns the first quirk op occurring on the spine or in a
// side tree of t.
func FindQuirk(t *Term) *Op {
	if t == nil {
		return nil
	}
	if t.Op.QuirkOf != "" {
		return t.Op
	}
	if q := FindQuirk(t.Kid); q != nil {
		return q
	}
	for _, s := range t.Side {
		if q := FindQuirk(s); q != nil {
			return q
		}
	}
	return nil
}

// WithoutQuirks returns a copy of t where every quirk op is replaced by
// its sibling (slots matched by name).
func WithoutQuirks(t *Term) *Term {
	if t == nil {
		return nil
	}
	c := &Term{Op: t.Op, S: append([]string{}, t.S...), Kid: WithoutQuirks(t.Kid)}
	for _, s := range t.Side {
		c.Side = append(c.Side, WithoutQuirks(s))
	}
	if t.Op.QuirkOf != "" {
		sib := OpByName[t.Op.QuirkOf]
		c.Op = sib
		c.S = make([]string, len(sib.Slots))
		for i, sl := range sib.Slots {
			for j, ql := range t.Op.Slots {
				if ql.Name == sl.Name {
					c.S[i] = t.S[j]
				}
			}
		}
	}
	return c
}

// withStr fills t with tokens and then sets the named slot of the first
// op called opName (searching the spine, then side trees) to str (raw).
func withStr(t *Term, slot, str string) *Term { return setStr(t.FillDefault(), t.Op.Name, slot, str) }

// chain applies the wrapper op n times to t.
func chain(n int, op string, t *Term) *Term {
	for i := 0; i < n; i++ {
		t = mk(op, t)
	}
	return t
}

// LongString is 64 KiB of plain ASCII.
var LongString = "L" + strings.Repeat("y", 65535)

func codeSweepExtras() []*Term {
	var out []*Term
	for _, k := range GrpcCodeSweep {
		n := fmt.Sprintf("WrapWithGrpcCode#%d", k)
		out = append(out,
			mk(n, mk("New", nil)).FillDefault(),
			mk("Wrap", mk(n, mk("GoNew", nil))).FillDefault(),
			mk(n, mk("WrapWithGrpcCode", mk("New", nil))).FillDefault(),
			mk("WrapWithGrpcCode", mk(n, mk("New", nil))).FillDefault(),
			mk("HopThenWrap", mk(n, mk("New", nil))).FillDefault(),
		)
	}
	return out
}

// DupVariant returns a copy of t in which every string slot holds s, or
// nil when t has fewer than two slots.
func DupVariant(t *Term, s string) *Term {
	v := t.Clone()
	n := 0
	v.EachSlot(func(k int, o *Term, i int) {
		o.S[i] = s
		n++
	})
	if n < 2 {
		return nil
	}
	return v
}

// setTok is setStr with the slot's token spliced into the string.
func setTok(t *Term, opName, slot, str string) *Term {
	done := false
	t.EachSlot(func(k int, o *Term, i int) {
		if !done && o.Op.Name == opName && o.Op.Slots[i].Name == slot {
			o.S[i] = Splice(str, Token(k))
			done = true
		}
	})
	return t
}

func setStr(t *Term, opName, slot, str string) *Term {
	done := false
	t.EachSlot(func(k int, o *Term, i int) {
		if !done && o.Op.Name == opName && o.Op.Slots[i].Name == slot {
			o.S[i] = str
			done = true
		}
	})
	return t
}

// Extras are hand-picked corner compositions added to every term space:
// one input per shortcut visible in the code (a reference that the marked
// error already matches through an Is method, two As candidates in
// different branches with the earlier one buried, empty replacement
// messages, empty link components, the cause printed twice, …).
func Extras() []*Term {
	ts := []*Term{
		mk("Mark", mk("ENOENT", nil), mk("os.ErrNotExist", nil)).FillDefault(),
		mk("Mark", mk("EACCES", nil), mk("os.ErrPermission", nil)).FillDefault(),
		mk("Mark", mk("ut.IsLeaf", nil), mk("ut.Sentinel", nil)).FillDefault(),
		mk("WithStack", mk("Mark", mk("GoNew", nil), mk("Wrap", mk("Wrap", mk("New", nil))))).FillDefault(),
		mk("Mark", mk("GoNew", nil), mk("GoErrorf_w", mk("GoErrorf_w", mk("GoNew", nil)))).FillDefault(),
		mk("Join2", mk("Wrap", mk("ut.PtrLeaf", nil)), mk("ut.PtrLeaf", nil)).FillDefault(),
		mk("Join2", mk("Join2", mk("ut.PtrLeaf", nil), mk("GoNew", nil)), mk("ut.PtrLeaf", nil)).FillDefault(),
		mk("GoJoin2", mk("ut.UnwrapW", mk("ENOENT", nil)), mk("EACCES", nil)).FillDefault(),
		mk("join.Join1", mk("Wrap", mk("GoNew", nil))).FillDefault(),
		mk("Join2", mk("WrapWithGrpcCode", mk("GoNew", nil)), mk("GoNew", nil)).FillDefault(),
		mk("Wrap", mk("Join2", mk("WrapWithHTTPCode", mk("GoNew", nil)), mk("WithHint", mk("GoNew", nil)))).FillDefault(),
		withStr(mk("HandledWithMessage", mk("GoNew", nil)), "msg", ""),
		setStr(mk("Wrap", mk("HandledWithMessage", mk("WithHint", mk("New", nil)))).FillDefault(), "HandledWithMessage", "msg", ""),
		withStr(mk("HandledInDomainWithMessage", mk("GoNew", nil)), "msg", ""),
		withStr(mk("ut.FullW", mk("GoNew", nil)), "msg", ""),
		setStr(mk("WithStack", mk("ut.FullW", mk("GoNew", nil))).FillDefault(), "ut.FullW", "msg", ""),
		withStr(mk("ut.RegFullW", mk("GoNew", nil)), "msg", ""),
		withStr(mk("WithIssueLink", mk("GoNew", nil)), "url", ""),
		withStr(mk("WithIssueLink", mk("GoNew", nil)), "detail", ""),
		withStr(mk("Unimplemented", nil), "url", ""),
		mk("WithTelemetry2", mk("WithDomain", mk("WithStack", mk("WithDomain", mk("WithStack", mk("GoNew", nil)))))).FillDefault(),
		mk("Join2", mk("WithStack", mk("WithDomain", mk("GoNew", nil))), mk("New", nil)).FillDefault(),
		mk("Newf_vw", mk("GoNew", nil), mk("WithDomain", mk("WithTelemetry", mk("GoNew", nil)))).FillDefault(),
		mk("HandleAsAssertionFailure", mk("WithAssertionFailure", mk("WithHint", mk("New", nil)))).FillDefault(),
		mk("HandleAsAssertionFailure", mk("AssertionFailedf", nil)).FillDefault(),
		mk("Wrap", mk("WithContextTags_safe", mk("WithContextTags_int2", mk("New", nil)))).FillDefault(),
		// a detail-only issue link below a multi-cause node, also hidden
		mk("Join2", mk("WithIssueLink_detailonly", mk("GoNew", nil)), mk("GoNew", nil)).FillDefault(),
		mk("Handled", mk("Join2", mk("WithIssueLink_detailonly", mk("New", nil)), mk("GoNew", nil))).FillDefault(),
		mk("GoJoin2", mk("Wrap", mk("WithIssueLink_urlonly", mk("New", nil))), mk("GoNew", nil)).FillDefault(),
		// deep chains below a multi-cause node (verbose indentation by depth)
		mk("Join2", mk("Wrap", mk("Wrap", mk("Wrap", mk("Wrap", mk("Wrap", mk("Wrap", mk("GoNew", nil))))))), mk("Wrap", mk("GoNew", nil))).FillDefault(),
		mk("WithHint", mk("GoJoin2", mk("Wrap", mk("Wrap", mk("Wrap", mk("Wrap", mk("Wrap", mk("Join2", mk("New", nil), mk("GoNew", nil))))))), mk("GoNew", nil))).FillDefault(),
		mk("Wrap", mk("GoJoin1", mk("GoNew", nil))).FillDefault(),
		mk("Join2", mk("GoJoin1", mk("GoNew", nil)), mk("GoNew", nil)).FillDefault(),
		mk("ut.UnwrapW", mk("GoJoin1", mk("Wrap", mk("GoNew", nil)))).FillDefault(),
		// one very long unsafe string: any size-dependent path (truncation,
		// buffering) whose threshold lies inside it is exercised
		setTok(mk("Newf_u", nil).FillDefault(), "Newf_u", "arg", LongString),
		setTok(mk("Wrapf_u", mk("New", nil)).FillDefault(), "Wrapf_u", "arg", LongString),
		setTok(mk("Wrap", mk("WithHint", mk("GoNew", nil))).FillDefault(), "WithHint", "hint", LongString),
		setTok(mk("WithDetail", mk("Wrap", mk("New", nil))).FillDefault(), "WithDetail", "detail", LongString),
		setTok(mk("Wrap", mk("GoNew", nil)).FillDefault(), "GoNew", "msg", LongString),
		// unsorted telemetry keys, repeated keys
		setStr(setStr(mk("WithTelemetry2", mk("GoNew", nil)).FillDefault(), "WithTelemetry2", "key1", "zeta"), "WithTelemetry2", "key2", "alpha"),
		setStr(setStr(mk("WithTelemetry2", mk("GoNew", nil)).FillDefault(), "WithTelemetry2", "key1", "dup"), "WithTelemetry2", "key2", "dup"),
	}
	ts = append(ts, codeSweepExtras()...)
	// two errors of the same non-comparable dynamic type side by side
	ts = append(ts,
		mk("CombineErrors", mk("ut.NCLeaf", nil), mk("ut.NCLeaf", nil)).FillDefault(),
		mk("WithSecondaryError", mk("ut.NCLeaf", nil), mk("ut.NCLeaf", nil)).FillDefault(),
		mk("Wrapf_e", mk("ut.NCLeaf", nil), mk("ut.NCLeaf", nil)).FillDefault(),
		mk("Join2", mk("ut.NCLeaf", nil), mk("ut.NCLeaf", nil)).FillDefault(),
		mk("Handled", mk("CombineErrors", mk("ut.NCLeaf", nil), mk("ut.NCLeaf", nil))).FillDefault(),
	)
	// every annotation below a multi-cause node that is hidden behind a
	// barrier / attached as a secondary error (depth 4: beyond the full
	// spaces of the quick tier)
	for _, w := range Wrappers {
		if w.Class != "annotation" || w.NSide > 0 || w.ExtraOnly {
			continue
		}
		ts = append(ts,
			mk("Handled", mk("Join2", mk(w.Name, mk("GoNew", nil)), mk("GoNew", nil))).FillDefault(),
			mk("WithSecondaryError", mk("GoNew", nil), mk("Join2", mk(w.Name, mk("New", nil)), mk("GoNew", nil))).FillDefault(),
			mk("Wrap", mk("GoJoin2", mk("Handled", mk(w.Name, mk("GoNew", nil))), mk("GoNew", nil))).FillDefault(),
		)
	}
	// a mark whose reference is itself marked with a foreign error
	ts = append(ts,
		mk("Mark", mk("GoNew", nil), mk("Mark", mk("New", nil), mk("GoNew", nil))).FillDefault(),
		mk("Wrap", mk("Mark", mk("New", nil), mk("Mark", mk("New", nil), mk("ut.PtrLeaf", nil)))).FillDefault(),
		mk("Mark", mk("Mark", mk("GoNew", nil), mk("io.EOF", nil)), mk("os.ErrNotExist", nil)).FillDefault(),
	)
	// stdlib leaves that merely have the TEXT of a well-known sentinel
	for _, st := range []string{"context deadline exceeded", "context canceled", "EOF", "unexpected EOF", "file does not exist", "permission denied", "i/o timeout"} {
		ts = append(ts,
			setStr(mk("GoNew", nil).FillDefault(), "GoNew", "msg", st),
			setStr(mk("Wrap", mk("GoNew", nil)).FillDefault(), "GoNew", "msg", st),
			setStr(mk("GoErrorf_w", mk("GoNew", nil)).FillDefault(), "GoNew", "msg", st),
		)
	}
	// long chains (more than 32 and more than 64 layers)
	ts = append(ts,
		chain(17, "Wrap", mk("New", nil)).FillDefault(),
		mk("WithHint", chain(34, "WithMessage", mk("GoNew", nil))).FillDefault(),
		chain(34, "WithHint", mk("Unimplemented", nil)).FillDefault(),
		mk("WithDetail", chain(70, "WithTelemetry", mk("ut.PtrLeaf", nil))).FillDefault(),
		mk("Handled", chain(40, "WithMessage", mk("GoNew", nil))).FillDefault(),
		mk("Join2", chain(34, "WithMessage", mk("GoNew", nil)), mk("GoNew", nil)).FillDefault(),
	)
	return ts
}

// annotationSlots are slot names whose content is an annotation rather
// than part of the error message.
var annotationSlots = map[string]bool{"key": true, "key1": true, "key2": true, "domain": true, "url": true, "detail": true, "hint": true, "value": true}

// AliasSide returns a copy of t whose first side argument is a copy of
// its wrapped error with the SAME message strings (so that both have the
// same Error() text and type chain, i.e. the same mark) but different
// annotation strings: two distinct errors that only differ in their safe
// payloads. nil when t has no such shape.
func AliasSide(t *Term) *Term {
	if t.Kid == nil || len(t.Side) == 0 || t.Op.Kind == KMulti || t.Op.SideIsReference {
		return nil
	}
	v := t.Clone()
	side := v.Kid.Clone()
	j := 0
	side.EachSlot(func(k int, o *Term, i int) {
		if annotationSlots[o.Op.Slots[i].Name] {
			o.S[i] = Token(60 + j)
			j++
		}
	})
	v.Side[0] = side
	return v
}
