//go:build verifsched

package worker

// First-use ("cold") executions.
//
// The exhaustive exploration runs in a WARM process: the solo baselines and
// every earlier schedule have already filled whatever lazily-initialised
// package-level state a change may have introduced (type-keyed caches,
// once-only globals). A wrong result that can only arise while such state is
// being filled concurrently for the first time is invisible there. This file
// adds a SAMPLED complement (it is not an enumeration):
//
//   - before anything else in the worker process — no solo baseline, no
//     other library use beyond package initialisation — one two-thread
//     execution per never-seen generic type (driver.FreshTypes) is run under
//     the scheduler with a blind round-robin schedule ("switch threads every
//     q decisions", q ∈ {1,2,3,5,8,13}), so that the first thread's first-use
//     path is interleaved with the second thread's at several granularities.
//     The first of them is also the process's first use of everything else;
//   - only afterwards the solo results for those types are computed and
//     compared;
//   - a failing cold execution cannot be replayed in this (now warm) process:
//     it is confirmed by replaying its exact schedule in fresh processes and
//     only reported if it fails there every time.

import (
	"encoding/json"
	"fmt"
	"os"
	"os/exec"
	"strconv"
	"strings"
	"time"

	"github.com/cockroachdb/errors/verifsched"

	"verif/mc/core"
	"verif/mc/schedmc"
	"verif/mc/schedmc/driver"
)

var coldQ = []int{1, 2, 3, 5, 8, 13}

// coldConfirmations is the number of fresh-process replays of a failing
// cold execution.
const coldConfirmations = 3

type coldRun struct {
	sc      *scenario
	q       int
	res     []string
	steps   []int
	panics  []string
	dead    bool
	blocked []int
	devs    []verifsched.Dev
	descr   string
	preempt int
	n       int
}

// roundRobin is the blind schedule "take alternative 1 every q decisions".
func roundRobin(q int) []verifsched.Dev {
	var d []verifsched.Dev
	for at := q; at < 40000; at += q {
		d = append(d, verifsched.Dev{At: at, Choice: 1})
	}
	return d
}

// strictSchedule reads the schedule actually taken back from an execution.
func strictSchedule(x *verifsched.Exec) []verifsched.Dev {
	var d []verifsched.Dev
	for _, s := range x.Switches {
		if s.From < 0 && s.To != 0 {
			d = append(d, verifsched.Dev{At: 0, Choice: s.To})
		}
		if s.Preempt {
			d = append(d, verifsched.Dev{At: s.At, Choice: s.Choice})
		}
	}
	return d
}

// runCold executes sc once with the given schedule; the caller guarantees
// that nothing has used sc's types before.
func (e *Explorer) runCold(sc *scenario, devs []verifsched.Dev, lenient bool) *coldRun {
	e.sc = sc
	n := len(sc.obs)
	e.res = make([]string, n)
	e.bodies = make([]func(), n)
	for i := range sc.obs {
		i, o := i, sc.obs[i]
		e.bodies[i] = func() { e.res[i] = o.Run(e.shared) }
	}
	x := &verifsched.Exec{}
	verifsched.Lenient = lenient
	e.run(devs, x)
	verifsched.Lenient = false
	cr := &coldRun{sc: sc, res: append([]string{}, e.res...), steps: append([]int{}, x.Steps...), panics: append([]string{}, x.Panics...),
		dead: x.Deadlock, blocked: append([]int{}, x.Blocked...), devs: strictSchedule(x), descr: e.describe(x), preempt: x.Preemptions, n: x.N}
	if x.Err != "" {
		e.r.HarnessError("cold execution of %s: scheduler error: %s", sc.name, x.Err)
		return nil
	}
	return cr
}

// judge compares a cold execution with the solo results (computed now).
func (e *Explorer) judge(cr *coldRun) (clause, msg string) {
	sc := cr.sc
	if cr.dead {
		return "deadlock", fmt.Sprintf("threads %v blocked with no enabled thread", cr.blocked)
	}
	for i, p := range cr.panics {
		if p != "" {
			return "panic", fmt.Sprintf("T%d(%s) panicked: %s", i, sc.obs[i].Name, driver.Short(p, 1500))
		}
	}
	for i := range sc.obs {
		s := e.soloOf(sc.shape, sc.oidx[i])
		if !s.ok {
			return "", ""
		}
		if cr.res[i] != s.res {
			return "result-differs", fmt.Sprintf("T%d(%s) returned\n    %s\n  alone it returns\n    %s\n  %s", i, sc.obs[i].Name,
				driver.Short(cr.res[i], 500), driver.Short(s.res, 500), driver.FirstDiff(cr.res[i], s.res))
		}
	}
	return "", ""
}

func (e *Explorer) coldMessage(cr *coldRun, msg string) string {
	sc := cr.sc
	names := []string{}
	for _, o := range sc.obs {
		names = append(names, o.Name)
	}
	return fmt.Sprintf("FIRST USE in a fresh process (no solo baseline, nothing warmed): shape %s = %s; threads %v; %d preemption(s); schedule %v:\n%s  %s",
		sc.shape.Name, sc.shape.Desc, names, cr.preempt, cr.devs, cr.descr, msg)
}

// coldPass must be the first thing a worker does.
func (e *Explorer) coldPass() {
	r := e.r
	var pairs [][2]int
	for a := range driver.Observers {
		for b := a; b < len(driver.Observers); b++ {
			pairs = append(pairs, [2]int{a, b})
		}
	}
	var runs []*coldRun
	nf := len(driver.FreshTypes)
	for k, f := range driver.FreshTypes {
		g := e.c.Shard*nf + k + int(e.c.Seed%1000)
		pr := pairs[g%len(pairs)]
		q := coldQ[(g/len(pairs)+k)%len(coldQ)]
		// fresh-hop shapes are touched by their own construction: only the
		// two shapes that reach the observers cold are used here.
		sh := f.Shapes[(k+e.c.Shard)%2]
		oa, ob := driver.Observers[pr[0]], driver.Observers[pr[1]]
		sc := &scenario{shape: sh, obs: []*driver.Observer{oa, ob}, oidx: []int{pr[0], pr[1]},
			name: fmt.Sprintf("%s|%s+%s", sh.Name, oa.Name, ob.Name)}
		cr := e.runCold(sc, roundRobin(q), true)
		if cr == nil {
			continue
		}
		cr.q = q
		runs = append(runs, cr)
	}
	// only now: solo results, comparison.
	for _, cr := range runs {
		r.States++
		r.Evaluations++
		r.Transitions += int64(cr.n)
		if cr.preempt > 0 {
			r.Nontrivial++
		}
		r.Count("cold_first_use_executions", 1)
		r.Outcomes["cold|"+schedmc.ShapeFamily(cr.sc.name)]++
		clause, msg := e.judge(cr)
		if clause == "" {
			continue
		}
		key := clause + "|" + schedmc.ShapeFamily(cr.sc.name)
		payload := Replay{Cold: true, Shape: cr.sc.shape.Name, Observers: e.obsNames2(cr.sc), Schedule: cr.devs}
		if !r.HasViolationKey(key) {
			if ok, why := confirmCold(e.c, payload, key); !ok {
				r.HarnessError("%s: failing first-use execution is not confirmed by fresh-process replays (%s): NOT reported as violation", cr.sc.name, why)
				continue
			}
		}
		r.Violate(key, e.coldMessage(cr, msg), payload)
	}
}

func (e *Explorer) obsNames2(sc *scenario) []string {
	var s []string
	for _, o := range sc.obs {
		s = append(s, o.Name)
	}
	return s
}

// confirmCold replays a cold execution in fresh worker processes.
func confirmCold(c *core.Ctx, p Replay, key string) (bool, string) {
	self, err := os.Executable()
	if err != nil {
		return false, err.Error()
	}
	f, err := os.CreateTemp("", "c18-cold-*.json")
	if err != nil {
		return false, err.Error()
	}
	defer os.Remove(f.Name())
	json.NewEncoder(f).Encode(map[string]interface{}{"replay": p})
	f.Close()
	for i := 0; i < coldConfirmations; i++ {
		cmd := exec.Command(self, "worker", c.ID, c.Tier, "0", "1", strconv.FormatInt(c.Seed, 10),
			strconv.FormatInt(time.Now().Add(time.Minute).Unix(), 10))
		cmd.Env = append(os.Environ(), "VERIF_REPLAY_FILE="+f.Name())
		out, err := cmd.Output()
		if err != nil {
			return false, fmt.Sprintf("replay process: %v", err)
		}
		s := string(out)
		k := strings.LastIndex(s, "@@RESULT@@\n")
		if k < 0 {
			return false, "replay process: no result"
		}
		var res struct {
			Violations []struct {
				Key string `json:"key"`
			} `json:"violations"`
			HarnessErrors []string `json:"harness_errors"`
		}
		if err := json.Unmarshal([]byte(s[k+len("@@RESULT@@\n"):]), &res); err != nil {
			return false, err.Error()
		}
		found := false
		for _, v := range res.Violations {
			if v.Key == key {
				found = true
			}
		}
		if !found {
			return false, fmt.Sprintf("replay %d of %d passes (harness errors there: %v)", i+1, coldConfirmations, res.HarnessErrors)
		}
	}
	return true, ""
}

// replayCold re-runs one reported cold execution; the replay worker is a
// fresh process and this is the first thing it does.
func replayCold(e *Explorer, p Replay) {
	r := e.r
	sh := driver.FreshShapeByName(p.Shape)
	if sh == nil {
		sh = driver.ShapeByName(p.Shape)
	}
	if sh == nil {
		r.HarnessError("replay: unknown shape %q", p.Shape)
		return
	}
	sc := &scenario{shape: sh, name: sh.Name + "|" + strings.Join(p.Observers, "+")}
	for _, n := range p.Observers {
		found := false
		for i, o := range driver.Observers {
			if o.Name == n {
				sc.obs, sc.oidx, found = append(sc.obs, o), append(sc.oidx, i), true
			}
		}
		if !found {
			r.HarnessError("replay: unknown observer %q", n)
			return
		}
	}
	cr := e.runCold(sc, p.Schedule, false)
	if cr == nil {
		return
	}
	r.States, r.Evaluations, r.Transitions = 1, 1, int64(cr.n)
	r.Outcomes["cold|"+schedmc.ShapeFamily(sc.name)]++
	r.Bounds = fmt.Sprintf("replay of one first-use schedule of %s: %v", sc.name, p.Schedule)
	if clause, msg := e.judge(cr); clause != "" {
		r.Violate(clause+"|"+schedmc.ShapeFamily(sc.name), e.coldMessage(cr, msg), p)
	}
}
