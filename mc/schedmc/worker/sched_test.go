//go:build verifsched

package worker

// Self-tests of the scheduler and of the sync shim, independent of the
// library: run with
//
//	go test -vet=off -tags verif,verifsched -overlay /verif/build/overlay-sched.json ./schedmc/worker

import (
	"fmt"
	"testing"

	"github.com/cockroachdb/errors/verifsched"
	vsync "github.com/cockroachdb/errors/verifsched/vsync"
	vatomic "github.com/cockroachdb/errors/verifsched/vsync/atomic"
)

// enumerate is the textbook iterative-preemption-bounding loop.
func enumerate(mk func() []func(), bound int, visit func(x *verifsched.Exec, devs []verifsched.Dev)) (n int) {
	var rec func(devs []verifsched.Dev, cost int)
	rec = func(devs []verifsched.Dev, cost int) {
		x := &verifsched.Exec{}
		verifsched.Run(mk(), devs, x)
		n++
		visit(x, devs)
		if x.Err != "" {
			return
		}
		start := 0
		if len(devs) > 0 {
			start = devs[len(devs)-1].At + 1
		}
		for i := start; i < x.N; i++ {
			c := cost + int(x.Info[i]&1)
			if c > bound {
				continue
			}
			for alt := 1; alt < int(x.Info[i]>>1); alt++ {
				rec(append(append([]verifsched.Dev{}, devs...), verifsched.Dev{At: i, Choice: alt}), c)
			}
		}
	}
	rec(nil, 0)
	return n
}

func TestLostUpdate(t *testing.T) {
	var counter int
	mk := func() []func() {
		counter = 0
		inc := func() {
			verifsched.Point()
			v := counter
			verifsched.Point()
			counter = v + 1
		}
		return []func(){inc, inc}
	}
	for bound, wantBad := range []bool{false, true} {
		bad := 0
		n := enumerate(mk, bound, func(x *verifsched.Exec, devs []verifsched.Dev) {
			if x.Err != "" || x.Deadlock {
				t.Fatalf("unexpected %q deadlock=%v", x.Err, x.Deadlock)
			}
			if counter != 2 {
				bad++
			}
		})
		t.Logf("bound %d: %d executions, %d lost updates", bound, n, bad)
		if (bad > 0) != wantBad {
			t.Fatalf("bound %d: lost updates %d", bound, bad)
		}
	}
}

func TestMutexProtects(t *testing.T) {
	var counter int
	var mu *vsync.Mutex
	var cnt *vatomic.Int64
	mk := func() []func() {
		counter, mu, cnt = 0, &vsync.Mutex{}, &vatomic.Int64{}
		inc := func() {
			mu.Lock()
			v := counter
			verifsched.Point()
			counter = v + 1
			mu.Unlock()
			cnt.Add(1)
		}
		return []func(){inc, inc, inc}
	}
	blocked := 0
	n := enumerate(mk, 2, func(x *verifsched.Exec, devs []verifsched.Dev) {
		if x.Err != "" || x.Deadlock || counter != 3 || cnt.Load() != 3 {
			t.Fatalf("schedule %v: err=%q deadlock=%v counter=%d", devs, x.Err, x.Deadlock, counter)
		}
		for _, p := range x.Panics {
			if p != "" {
				t.Fatalf("panic %s", p)
			}
		}
		if len(x.Free) > 3 {
			blocked++
		}
	})
	t.Logf("%d executions, %d with a thread blocking on the mutex", n, blocked)
	if blocked == 0 {
		t.Fatal("no execution ever blocked on the mutex")
	}
}

func TestDeadlockFound(t *testing.T) {
	var a, b *vsync.Mutex
	mk := func() []func() {
		a, b = &vsync.Mutex{}, &vsync.Mutex{}
		return []func(){
			func() { a.Lock(); b.Lock(); b.Unlock(); a.Unlock() },
			func() { b.Lock(); a.Lock(); a.Unlock(); b.Unlock() },
		}
	}
	dead := 0
	var failing []verifsched.Dev
	n := enumerate(mk, 1, func(x *verifsched.Exec, devs []verifsched.Dev) {
		if x.Deadlock {
			dead++
			failing = append([]verifsched.Dev{}, devs...)
			if len(x.Blocked) != 2 {
				t.Fatalf("blocked %v", x.Blocked)
			}
		} else if x.Err != "" {
			t.Fatalf("err %q", x.Err)
		}
	})
	t.Logf("%d executions, %d deadlocks, e.g. %v", n, dead, failing)
	if dead == 0 {
		t.Fatal("lock-order inversion not found with one preemption")
	}
	// the failing schedule replays, and the scheduler recovers from aborts.
	for i := 0; i < 3; i++ {
		x := &verifsched.Exec{}
		verifsched.Run(mk(), failing, x)
		if !x.Deadlock {
			t.Fatal("deadlock does not replay")
		}
	}
}

func TestOnceAndRW(t *testing.T) {
	var once *vsync.Once
	var rw *vsync.RWMutex
	var calls, val int
	var got [2]int
	mk := func() []func() {
		once, rw, calls, val = &vsync.Once{}, &vsync.RWMutex{}, 0, 0
		body := func(i int) func() {
			return func() {
				once.Do(func() {
					verifsched.Point()
					calls++
					verifsched.Point()
					rw.Lock()
					val = 42
					rw.Unlock()
				})
				rw.RLock()
				got[i] = val
				rw.RUnlock()
			}
		}
		return []func(){body(0), body(1)}
	}
	n := enumerate(mk, 2, func(x *verifsched.Exec, devs []verifsched.Dev) {
		if x.Err != "" || x.Deadlock || calls != 1 || got != [2]int{42, 42} {
			t.Fatalf("schedule %v: err=%q deadlock=%v calls=%d got=%v", devs, x.Err, x.Deadlock, calls, got)
		}
	})
	t.Logf("%d executions", n)
}

func TestBadScheduleAndPanic(t *testing.T) {
	mk := func() []func() {
		return []func(){
			func() { verifsched.Point(); verifsched.Point() },
			func() { verifsched.Point(); panic("boom") },
		}
	}
	x := &verifsched.Exec{}
	verifsched.Run(mk(), []verifsched.Dev{{At: 1, Choice: 2}}, x)
	if x.Err == "" {
		t.Fatal("inapplicable choice accepted")
	}
	verifsched.Run(mk(), []verifsched.Dev{{At: 0, Choice: 5}}, x)
	if x.Err == "" {
		t.Fatal("inapplicable initial choice accepted")
	}
	verifsched.Run(mk(), []verifsched.Dev{{At: 99, Choice: 1}}, x)
	if x.Err == "" {
		t.Fatal("unconsumed schedule accepted")
	}
	verifsched.Run(mk(), []verifsched.Dev{{At: 1, Choice: 1}}, x)
	if x.Err != "" || x.Panics[1] == "" || x.Panics[0] != "" || fmt.Sprint(x.Steps) != "[2 1]" || x.Preemptions != 1 {
		t.Fatalf("err=%q panics=%q steps=%v", x.Err, x.Panics, x.Steps)
	}
	// Point() outside an exploration is a no-op.
	verifsched.Point()
}
