//go:build verifsched

// Package worker is the exploration side of check C18. It only builds
// under /verif/build/overlay-sched.json (which provides the virtual package
// github.com/cockroachdb/errors/verifsched and the instrumented library),
// hence the build tag; it is imported only by cmd/mc-sched.
//
// A scenario is (shape of the shared error) × (multiset of observers, one
// per thread). An execution builds a FRESH shared error outside scheduling,
// then runs the threads under verifsched.Run with a schedule; nothing is
// stored between executions (stateless model checking), every schedule is
// replayed from the start.
package worker

import (
	"crypto/sha256"
	"encoding/hex"
	"encoding/json"
	"fmt"
	"os"
	"runtime"
	"runtime/pprof"
	"sort"
	"strings"

	"github.com/cockroachdb/errors/verifsched"

	"verif/mc/core"
	"verif/mc/schedmc"
	"verif/mc/schedmc/driver"
)

func init() { core.Register(schedmc.New(Run)) }

// Tunables of the bounds (stated in the evidence).
const (
	// sentryPartnerMax: at bound 2 BuildSentryReport (≈5k points) is paired
	// only with observers of at most this many points on that shape.
	sentryPartnerMax = 300
	// pairProductMax: a pair is explored at bound 2 only if the product of
	// the two point counts is at most this (≈ 2·product executions); the
	// few larger pairs stay at bound 1. Cheapest scenarios run first.
	pairProductMax = 3_000_000
	// tripleMax: thorough also runs three threads for observers of at
	// most this many points on that shape.
	tripleMax = 120
	// replays of a failing schedule before it is reported.
	failReplays = 5
)

// Replay is the replay payload of a violation.
type Replay struct {
	Shape     string           `json:"shape"`
	Observers []string         `json:"observers"`
	Schedule  []verifsched.Dev `json:"schedule"`
	// Cold: a first-use execution (see cold.go): replay it before anything
	// else in a fresh process.
	Cold     bool   `json:"cold,omitempty"`
	RacePass bool   `json:"race_pass,omitempty"`
	Tier     string `json:"tier,omitempty"`
}

type soloKey struct {
	shape *driver.Shape
	obs   int
}

type soloInfo struct {
	res   string
	steps int
	ok    bool
}

// scenario is one (shape, observers) combination.
type scenario struct {
	shape *driver.Shape
	obs   []*driver.Observer
	oidx  []int
	name  string // shape|a+b
	bound int
	cost  int64 // estimated executions at bound 2
	// symmetric: every thread runs the same observer, so the choice of the
	// thread that starts is immaterial (symmetry reduction at decision 0).
	symmetric bool
}

// Explorer runs scenarios.
type Explorer struct {
	c *core.Ctx
	r *core.Result

	solo map[soloKey]*soloInfo

	// current scenario
	sc        *scenario
	bound     int
	minNew    int // executions with fewer preemptions were counted by an earlier pass
	want      []string
	wantSteps []int
	shared    error
	res       []string
	bodies    []func()
	execs     []*verifsched.Exec
	tuples    map[string]int64
	sampled   bool
	// wantSample: record one sample execution of the current scenario.
	wantSample bool

	rootIdx  int64
	shardIdx int64
	stopped  bool

	execsRun int64
}

func (e *Explorer) stop() bool {
	if e.stopped {
		return true
	}
	if e.c.Expired() {
		e.stopped = true
		e.r.Cap("soft deadline reached: exploration stopped, completed part reported")
	}
	return e.stopped
}

// setScenario prepares bodies and expectations.
func (e *Explorer) setScenario(sc *scenario) bool {
	e.sc = sc
	n := len(sc.obs)
	e.res = make([]string, n)
	e.want = make([]string, n)
	e.wantSteps = make([]int, n)
	e.bodies = make([]func(), n)
	e.tuples = map[string]int64{}
	e.sampled = false
	for i := range sc.obs {
		s := e.soloOf(sc.shape, sc.oidx[i])
		if !s.ok {
			return false
		}
		e.want[i], e.wantSteps[i] = s.res, s.steps
		i, o := i, sc.obs[i]
		e.bodies[i] = func() { e.res[i] = o.Run(e.shared) }
	}
	return true
}

const unset = "\x00<observer did not finish>"

// run executes one schedule on a brand-new shared error. Nothing observes
// that object before the threads do: reference results (soloOf) come from
// twins built the same way, so per-object lazy initialisation is cold in
// every execution.
func (e *Explorer) run(devs []verifsched.Dev, x *verifsched.Exec) {
	e.shared = e.sc.shape.Build()
	for i := range e.res {
		e.res[i] = unset
	}
	verifsched.Run(e.bodies, devs, x)
	e.execsRun++
}

func (e *Explorer) exec(depth int) *verifsched.Exec {
	for len(e.execs) <= depth {
		e.execs = append(e.execs, &verifsched.Exec{})
	}
	return e.execs[depth]
}

// soloOf computes (once) what an observer returns when it runs alone on a
// fresh error of the shape: under the scheduler (twice: self-check of
// determinism, and its point count) and free.
func (e *Explorer) soloOf(sh *driver.Shape, oi int) *soloInfo {
	k := soloKey{sh, oi}
	if s := e.solo[k]; s != nil {
		return s
	}
	s := &soloInfo{}
	e.solo[k] = s
	o := driver.Observers[oi]
	var shared error
	var res string
	body := []func(){func() { res = o.Run(shared) }}
	var x verifsched.Exec
	var first string
	var steps [3]int
	// Run 0 may be the first use of a type in this process: a (correct)
	// lazily-filled cache makes it longer than later runs. The result must
	// be the same every time; the step count must be stable from run 1 on.
	for rep := 0; rep < 3; rep++ {
		shared, res = sh.Build(), unset
		verifsched.Run(body, nil, &x)
		e.r.Count("solo_runs", 1)
		if x.Err != "" || x.Deadlock {
			e.r.HarnessError("solo run of %s on %s: scheduler error %q deadlock=%v", o.Name, sh.Name, x.Err, x.Deadlock)
			return s
		}
		if x.Panics[0] != "" {
			// a panic without any concurrency is not C18's business, but
			// nothing can be compared against it.
			e.r.Violate(fmt.Sprintf("panic|%s|%s", schedmc.ShapeFamily(sh.Name), o.Name),
				fmt.Sprintf("observer %s panics on shape %s (%s) even when run alone: %s", o.Name, sh.Name, sh.Desc, driver.Short(x.Panics[0], 1500)),
				Replay{Shape: sh.Name, Observers: []string{o.Name}})
			return s
		}
		steps[rep] = x.Steps[0]
		if rep == 0 {
			first = res
		} else if res != first {
			e.r.HarnessError("solo run of %s on %s is not deterministic: %s", o.Name, sh.Name, driver.FirstDiff(res, first))
			return s
		}
		if rep == 1 && steps[1] == steps[0] {
			steps[2] = steps[1]
			break
		}
	}
	if steps[2] != steps[1] {
		e.r.HarnessError("solo run of %s on %s: step count not stable after warm-up: %v", o.Name, sh.Name, steps)
		return s
	}
	if steps[0] != steps[1] {
		e.r.Count("solo_first_run_step_count_differs", 1)
	}
	// free run (scheduler inactive): the instrumentation must not change
	// the result.
	if free, p := driver.Guard(o, sh.Build()); p || free != first {
		e.r.HarnessError("observer %s on %s: result under the scheduler differs from the free run: %s", o.Name, sh.Name, driver.FirstDiff(first, free))
		return s
	}
	s.res, s.steps, s.ok = first, steps[2], true
	if e.c.Shard == 0 && driver.ShapeByName(sh.Name) != nil {
		e.r.Count("points_"+o.Name, int64(s.steps))
		if os.Getenv("VERIF_VERBOSE") != "" {
			fmt.Fprintf(os.Stderr, "solo %-14s %-12s %5d points\n", sh.Name, o.Name, s.steps)
		}
	}
	return s
}

// describe renders a schedule through the switches of its execution.
func (e *Explorer) describe(x *verifsched.Exec) string {
	var b strings.Builder
	for _, s := range x.Switches {
		if s.From < 0 {
			fmt.Fprintf(&b, "  start with T%d(%s)\n", s.To, e.sc.obs[s.To].Name)
			continue
		}
		kind := "finished"
		if s.Preempt {
			kind = "PREEMPTED"
		}
		fmt.Fprintf(&b, "  decision %d: T%d(%s) %s after its step %d → T%d(%s)\n", s.At, s.From, e.sc.obs[s.From].Name, kind, s.FromSteps, s.To, e.sc.obs[s.To].Name)
	}
	return b.String()
}

// failure classifies one execution; clause "" = passes.
func (e *Explorer) failure(x *verifsched.Exec) (clause, msg string) {
	if x.Deadlock {
		return "deadlock", fmt.Sprintf("threads %v blocked with no enabled thread", x.Blocked)
	}
	for i, p := range x.Panics {
		if p != "" {
			return "panic", fmt.Sprintf("T%d(%s) panicked: %s", i, e.sc.obs[i].Name, driver.Short(p, 1500))
		}
	}
	for i := range e.res {
		if e.res[i] != e.want[i] {
			return "result-differs", fmt.Sprintf("T%d(%s) returned\n    %s\n  alone it returns\n    %s\n  %s", i, e.sc.obs[i].Name,
				driver.Short(e.res[i], 500), driver.Short(e.want[i], 500), driver.FirstDiff(e.res[i], e.want[i]))
		}
	}
	return "", ""
}

// check applies the oracle to the execution just run with devs.
func (e *Explorer) check(x *verifsched.Exec, devs []verifsched.Dev) {
	r := e.r
	if x.Err != "" {
		r.HarnessError("%s schedule %v: scheduler error: %s", e.sc.name, devs, x.Err)
		return
	}
	clause, msg := e.failure(x)
	if clause == "" {
		e.tuples[""]++
		// not an error (a correct cache makes the second caller shorter),
		// but worth knowing: today every thread takes exactly its solo path.
		for i := range x.Steps {
			if e.wantSteps[i] != x.Steps[i] {
				r.Count("executions_with_step_count_unlike_solo", 1)
				break
			}
		}
		return
	}
	h := sha256.Sum256([]byte(strings.Join(e.res, "\x01")))
	e.tuples[hex.EncodeToString(h[:4])]++
	key := fmt.Sprintf("%s|%s", clause, schedmc.ShapeFamily(e.sc.name))
	sched := append([]verifsched.Dev{}, devs...)
	payload := Replay{Shape: e.sc.shape.Name, Observers: e.obsNames(), Schedule: sched}
	full := fmt.Sprintf("shape %s = %s; threads %v; %d preemption(s); schedule (deviations from run-to-completion) %v:\n%s  %s",
		e.sc.shape.Name, e.sc.shape.Desc, e.obsNames(), x.Preemptions, sched, e.describe(x), msg)
	if r.HasViolationKey(key) {
		r.Violate(key, full, payload)
		return
	}
	// self-check: the failing schedule must fail the same way every time.
	steps := append([]int{}, x.Steps...)
	res := append([]string{}, e.res...)
	var y verifsched.Exec
	for rep := 0; rep < failReplays; rep++ {
		e.run(sched, &y)
		r.Count("failure_replays", 1)
		c2, _ := e.failure(&y)
		same := c2 == clause && y.Err == "" && fmt.Sprint(y.Steps) == fmt.Sprint(steps)
		for i := range res {
			// panic texts embed goroutine ids and addresses: compare
			// observations only where the observer finished.
			if clause != "panic" && e.res[i] != res[i] {
				same = false
			}
		}
		if !same {
			r.HarnessError("%s: failing schedule %v does not replay identically (replay %d: clause %q vs %q, steps %v vs %v, err %q): NOT reported as violation",
				e.sc.name, sched, rep+1, c2, clause, y.Steps, steps, y.Err)
			return
		}
	}
	r.Violate(key, full, payload)
}

func (e *Explorer) obsNames() []string {
	var s []string
	for _, o := range e.sc.obs {
		s = append(s, o.Name)
	}
	return s
}

// account adds one execution to the evidence.
func (e *Explorer) account(x *verifsched.Exec, devs []verifsched.Dev) {
	r := e.r
	r.States++
	r.Evaluations++
	r.Transitions += int64(x.N)
	if x.Preemptions > 0 {
		r.Nontrivial++
	}
	r.Outcomes[e.sc.name]++
	r.Count(fmt.Sprintf("executions_with_%d_preemptions", x.Preemptions), 1)
	if !e.sampled && x.Preemptions == e.bound && x.Preemptions > 0 {
		e.sampled = true
		if e.wantSample {
			e.wantSample = false
			r.Sample(map[string]interface{}{"scenario": e.sc.name, "schedule": append([]verifsched.Dev{}, devs...),
				"switches": strings.TrimSpace(e.describe(x)), "decisions": x.N, "steps_per_thread": append([]int{}, x.Steps...)})
		}
	}
}

// explore is iterative preemption bounding (CHESS): run the schedule given
// by its deviations, then branch at every later decision whose deviation is
// affordable. cost = preemptions among devs. Deviating where the running
// thread cannot continue (start, thread completion, blocking) is free.
func (e *Explorer) explore(devs []verifsched.Dev, cost, depth int) {
	if e.stop() {
		return
	}
	isRoot := len(devs) == 0 || (len(devs) == 1 && devs[0].At == 0)
	x := e.exec(depth)
	e.run(devs, x)
	counted := true
	if isRoot {
		// roots are executed by every worker (their decisions are needed
		// to enumerate the level-1 alternatives) but belong to one.
		counted = e.c.Mine(e.rootIdx)
		e.rootIdx++
	}
	if counted {
		if x.Preemptions >= e.minNew || x.Err != "" {
			e.account(x, devs)
			e.check(x, devs)
		} else {
			e.r.Count("parents_reexecuted_for_deeper_bound", 1)
		}
	}
	if x.Err != "" {
		return
	}
	start := 0
	if len(devs) > 0 {
		start = devs[len(devs)-1].At + 1
	}
	branch := func(i int) {
		info := x.Info[i]
		n := int(info >> 1)
		c := cost + int(info&1)
		if c > e.bound {
			return
		}
		if i == 0 && e.sc.symmetric {
			return
		}
		for alt := 1; alt < n; alt++ {
			if isRoot && i > 0 {
				// level-1 alternatives are sharded across the workers.
				idx := e.shardIdx
				e.shardIdx++
				if !e.c.Mine(idx) {
					continue
				}
			}
			e.explore(append(append(make([]verifsched.Dev, 0, len(devs)+1), devs...), verifsched.Dev{At: i, Choice: alt}), c, depth+1)
			if e.stopped {
				return
			}
		}
	}
	if cost >= e.bound {
		// only free decisions are affordable.
		for _, i := range x.Free {
			if i >= start {
				branch(i)
			}
		}
		return
	}
	for i := start; i < x.N && !e.stopped; i++ {
		branch(i)
	}
}

// runScenario explores one scenario up to bound; executions with fewer
// than minNew preemptions were reported by an earlier pass.
func (e *Explorer) runScenario(sc *scenario, bound, minNew int) {
	if !e.setScenario(sc) {
		return
	}
	e.bound, e.minNew = bound, minNew
	e.explore(nil, 0, 0)
	for t, n := range e.tuples {
		if t == "" {
			t = "as-alone"
		}
		e.r.Outcomes["tuple|"+sc.name+"|"+t] += n
	}
}

func scenarios(e *Explorer, thorough bool) (pairs, triples []*scenario) {
	for _, sh := range driver.Shapes {
		for a := range driver.Observers {
			for b := a; b < len(driver.Observers); b++ {
				oa, ob := driver.Observers[a], driver.Observers[b]
				sc := &scenario{shape: sh, obs: []*driver.Observer{oa, ob}, oidx: []int{a, b},
					name: fmt.Sprintf("%s|%s+%s", sh.Name, oa.Name, ob.Name), bound: 1, symmetric: a == b}
				if thorough {
					sc.bound = 2
					pa, pb := e.soloOf(sh, a).steps, e.soloOf(sh, b).steps
					sc.cost = 2 * int64(pa) * int64(pb)
					if (oa.Name == "Sentry" && pb > sentryPartnerMax) || (ob.Name == "Sentry" && pa > sentryPartnerMax) ||
						int64(pa)*int64(pb) > pairProductMax {
						sc.bound = 1
					}
				}
				pairs = append(pairs, sc)
			}
		}
		if !thorough {
			continue
		}
		var small []int
		for a := range driver.Observers {
			if s := e.soloOf(sh, a); s.ok && s.steps <= tripleMax {
				small = append(small, a)
			}
		}
		for i := 0; i < len(small); i++ {
			for j := i; j < len(small); j++ {
				for k := j; k < len(small); k++ {
					ix := []int{small[i], small[j], small[k]}
					sc := &scenario{shape: sh, oidx: ix, bound: 2, symmetric: i == j && j == k}
					var names []string
					for _, a := range ix {
						sc.obs = append(sc.obs, driver.Observers[a])
						names = append(names, driver.Observers[a].Name)
					}
					sc.name = sh.Name + "|" + strings.Join(names, "+")
					triples = append(triples, sc)
				}
			}
		}
	}
	return
}

// Run is the C18 worker body.
func Run(c *core.Ctx, r *core.Result) {
	// one P: hand-offs between managed threads become direct goroutine
	// switches instead of cross-thread wake-ups.
	runtime.GOMAXPROCS(1)
	// VERIF_C18_PROF=<file>: CPU profile of this worker (tuning aid only).
	if f := os.Getenv("VERIF_C18_PROF"); f != "" {
		if w, err := os.Create(f); err == nil {
			pprof.StartCPUProfile(w)
			defer pprof.StopCPUProfile()
		}
	}
	e := &Explorer{c: c, r: r, solo: map[soloKey]*soloInfo{}}
	r.Rule = "for every explored schedule of N threads each running one read-only observer on one shared error: every observer returns " +
		"exactly what it returns when run alone on a fresh identical error; no thread panics; no deadlock"
	r.Assumptions = append(r.Assumptions,
		"scheduling points are statement boundaries of library code (instrumented copy of /repo's working tree); code of fmt, redact, protobuf and sentry-go runs atomically between them",
		"interleavings finer than a statement (n++ on shared state, torn multi-word writes) are invisible to the cooperative scheduler; they are the job of the auxiliary -race pass",
		"observer results are rendered pointer-free; the shared error is built at one call site on one goroutine so that its captured stack is identical in every execution")

	r.Assumptions = append(r.Assumptions,
		"the exhaustive exploration runs in a warm process (solo baselines and earlier schedules have filled any lazily-initialised package-level state); "+
			"first-use behaviour is only SAMPLED: per worker process "+fmt.Sprint(len(driver.FreshTypes))+" two-thread round-robin executions on never-seen generic types, run before any baseline "+
			"(a failure there is confirmed in fresh processes), plus the cold phase of the race pass")
	if c.Replay != nil {
		replay(e, c, r)
		return
	}
	// first-use executions: before anything else touches the library.
	e.coldPass()
	thorough := c.Thorough()
	pairs, triples := scenarios(e, thorough)

	done1, done2, done3 := 0, 0, 0
	// pass 1: every pair at bound 1 (includes bound 0).
	for i, sc := range pairs {
		if e.stop() {
			break
		}
		// each worker contributes a sample from a different scenario.
		e.wantSample = i == (c.Shard*83+7)%len(pairs)
		e.runScenario(sc, 1, 0)
		if !e.stopped {
			done1++
		}
	}
	n2 := 0
	if thorough {
		// pass 2: pairs at bound 2, cheapest first; only executions with 2
		// preemptions are new.
		var p2 []*scenario
		for _, sc := range pairs {
			if sc.bound >= 2 {
				p2 = append(p2, sc)
			}
		}
		sort.SliceStable(p2, func(i, j int) bool { return p2[i].cost < p2[j].cost })
		for _, sc := range p2 {
			n2++
			if e.stop() {
				continue
			}
			e.runScenario(sc, 2, 2)
			if !e.stopped {
				done2++
			}
		}
		// pass 3: triples of small observers at bound 2.
		for _, sc := range triples {
			if e.stop() {
				break
			}
			e.runScenario(sc, 2, 0)
			if !e.stopped {
				done3++
			}
		}
	}
	r.Count("worker_shards_pairs_bound1_completed", int64(done1))
	r.Count("worker_shards_pairs_bound2_completed", int64(done2))
	r.Count("worker_shards_triples_bound2_completed", int64(done3))
	r.Count("executions_including_solo_and_replays", e.execsRun)
	var ps []string
	for k, s := range e.solo {
		if k.shape == driver.Shapes[0] {
			ps = append(ps, fmt.Sprintf("%s=%d", driver.Observers[k.obs].Name, s.steps))
		}
	}
	sort.Strings(ps)
	status := func(done, total int) string {
		if done == total {
			return fmt.Sprintf("all %d complete", total)
		}
		return fmt.Sprintf("%d of %d complete in the slowest reporting worker", done, total)
	}
	b := fmt.Sprintf("%d shapes × %d observers; 2 threads: every unordered pair incl. self (%d scenarios) at preemption bound 1: %s",
		len(driver.Shapes), len(driver.Observers), len(pairs), status(done1, len(pairs)))
	if thorough {
		b += fmt.Sprintf("; preemption bound 2 for %d pair scenarios (Sentry only with partners of ≤%d points; product of point counts ≤%d): %s; 3 threads at bound 2 for observers of ≤%d points (%d scenarios): %s",
			n2, sentryPartnerMax, pairProductMax, status(done2, n2), tripleMax, len(triples), status(done3, len(triples)))
	}
	b += "; level-1 alternatives sharded over " + fmt.Sprint(c.NShards) + " workers; points per observer on shape leaf: " + strings.Join(ps, " ")
	r.Bounds = b
}

// replay re-runs exactly one reported schedule.
func replay(e *Explorer, c *core.Ctx, r *core.Result) {
	var p Replay
	if err := json.Unmarshal(c.Replay, &p); err != nil {
		r.HarnessError("bad replay payload: %v", err)
		return
	}
	if p.RacePass {
		tier := p.Tier
		if tier == "" {
			tier = c.Tier
		}
		schedmc.RacePass(tier, r)
		r.States, r.Evaluations = 1, 1
		return
	}
	if p.Cold {
		replayCold(e, p)
		return
	}
	sh := driver.ShapeByName(p.Shape)
	if sh == nil {
		sh = driver.FreshShapeByName(p.Shape)
	}
	if sh == nil {
		r.HarnessError("replay: unknown shape %q", p.Shape)
		return
	}
	sc := &scenario{shape: sh}
	for _, n := range p.Observers {
		o := driver.ObserverByName(n)
		if o == nil {
			r.HarnessError("replay: unknown observer %q", n)
			return
		}
		sc.obs = append(sc.obs, o)
		for i, oo := range driver.Observers {
			if oo == o {
				sc.oidx = append(sc.oidx, i)
			}
		}
	}
	sc.name = sh.Name + "|" + strings.Join(p.Observers, "+")
	if !e.setScenario(sc) {
		return
	}
	x := e.exec(0)
	e.run(p.Schedule, x)
	e.bound = x.Preemptions
	e.account(x, p.Schedule)
	e.check(x, p.Schedule)
	r.Bounds = fmt.Sprintf("replay of one schedule of %s: %v", sc.name, p.Schedule)
}
