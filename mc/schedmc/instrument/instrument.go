// Package instrument generates, from /repo's CURRENT working tree, the
// instrumented copy of the library that the C18 scheduler pass runs:
//
//   - every non-test, non-generated Go file of the library packages gets a
//     call verifsched.Point() before every statement of every function body
//     (nested blocks, case/comm clauses and function literals included;
//     `init` functions and package-level initialisers excluded; nothing is
//     inserted between `switch`/`select` and its first clause);
//   - imports of "sync" and "sync/atomic" are redirected to the cooperative
//     shims verifsched/vsync and verifsched/vsync/atomic;
//   - the result is written under <Out>/<relpath> and wired into the build
//     with overlay files: overlay-sched.json (base hooks + instrumented
//     files + the virtual scheduler packages) and overlay-race.json (base
//     hooks + mutant files, no instrumentation) for the -race binary.
//
// Instrumentation is done by splicing text at statement offsets taken from
// go/parser positions, not by re-printing the AST: every statement keeps
// its line, so stack traces and `%+v` renderings show the same file:line as
// the uninstrumented library, and comments/directives cannot be displaced.
// The spliced file is re-parsed as a sanity check.
//
// Nothing in /repo is written.
//
// VERIF_MUTANT_DIR (demo only): a directory tree mirroring /repo; a file
// found there replaces the file of the same relative path before
// instrumentation (and in overlay-race.json). It exists so that detection
// can be demonstrated without editing /repo; normal runs leave it unset.
package instrument

import (
	"bytes"
	"encoding/json"
	"fmt"
	"go/ast"
	"go/build"
	"go/parser"
	"go/token"
	"os"
	"path/filepath"
	"regexp"
	"sort"
	"strings"
)

const (
	schedPkg  = "github.com/cockroachdb/errors/verifsched"
	vsyncPkg  = schedPkg + "/vsync"
	atomicPkg = vsyncPkg + "/atomic"
)

// Config says where things are.
type Config struct {
	Repo         string // library working tree (read-only)
	Out          string // directory for the instrumented copies
	BaseOverlay  string // overlay with the errbase hooks (input)
	SchedOverlay string // output: overlay for the scheduler binary
	RaceOverlay  string // output: overlay for the -race binary
	SrcDir       string // directory holding sched.go.src, vsync.go.src, vatomic.go.src
	MutantDir    string // optional, see package comment
}

// Default is the layout used by /verif/check.
func Default() Config {
	v := os.Getenv("VERIF_DIR")
	if v == "" {
		v = "/verif"
	}
	return Config{
		Repo:         "/repo",
		Out:          filepath.Join(v, "build", "instr"),
		BaseOverlay:  filepath.Join(v, "build", "overlay.json"),
		SchedOverlay: filepath.Join(v, "build", "overlay-sched.json"),
		RaceOverlay:  filepath.Join(v, "build", "overlay-race.json"),
		SrcDir:       filepath.Join(v, "mc", "schedmc", "verifsched_src"),
		MutantDir:    os.Getenv("VERIF_MUTANT_DIR"),
	}
}

// Stats describes one instrumentation run.
type Stats struct {
	Packages     int
	Files        int
	Points       int
	SyncRewrites int
	Mutants      []string
}

// skipDir reports whether a directory of the repository is not library
// code to be instrumented.
func skipDir(name string) bool {
	switch name {
	case "testutils", "fmttests", "internal", "testdata", "vendor", "verifsched":
		return true
	}
	return strings.HasPrefix(name, ".") || strings.HasPrefix(name, "_")
}

var generatedRE = regexp.MustCompile(`(?m)^// Code generated .* DO NOT EDIT\.$`)

// Run regenerates the instrumented tree and the overlays.
func Run(cfg Config) (*Stats, error) {
	st := &Stats{}
	overlay := map[string]string{}
	raceOverlay := map[string]string{}
	if b, err := os.ReadFile(cfg.BaseOverlay); err == nil {
		var o struct{ Replace map[string]string }
		if err := json.Unmarshal(b, &o); err != nil {
			return nil, fmt.Errorf("%s: %v", cfg.BaseOverlay, err)
		}
		for k, v := range o.Replace {
			overlay[k] = v
			raceOverlay[k] = v
		}
	} else {
		return nil, fmt.Errorf("base overlay: %v (run mkoverlay.sh first)", err)
	}
	ctxt := build.Default
	ctxt.BuildTags = append(ctxt.BuildTags, "verif")
	ctxt.CgoEnabled = false

	// the set of candidate files: repository files plus mutant-only files.
	type cand struct{ rel, src string }
	var cands []cand
	seen := map[string]bool{}
	walk := func(root string, mutant bool) error {
		return filepath.WalkDir(root, func(p string, d os.DirEntry, err error) error {
			if err != nil {
				return err
			}
			rel, _ := filepath.Rel(root, p)
			if d.IsDir() {
				if rel != "." {
					if skipDir(d.Name()) {
						return filepath.SkipDir
					}
					if _, err := os.Stat(filepath.Join(p, "go.mod")); err == nil {
						return filepath.SkipDir // nested module
					}
				}
				return nil
			}
			n := d.Name()
			if !strings.HasSuffix(n, ".go") || strings.HasSuffix(n, "_test.go") || strings.HasSuffix(n, ".pb.go") {
				return nil
			}
			if seen[rel] {
				return nil
			}
			seen[rel] = true
			cands = append(cands, cand{rel, p})
			return nil
		})
	}
	if cfg.MutantDir != "" {
		if fi, err := os.Stat(cfg.MutantDir); err != nil || !fi.IsDir() {
			return nil, fmt.Errorf("VERIF_MUTANT_DIR=%s is not a directory", cfg.MutantDir)
		}
		if err := walk(cfg.MutantDir, true); err != nil {
			return nil, err
		}
		for _, c := range cands {
			st.Mutants = append(st.Mutants, c.rel)
			raceOverlay[filepath.Join(cfg.Repo, c.rel)] = c.src
		}
	}
	if err := walk(cfg.Repo, false); err != nil {
		return nil, err
	}
	sort.Slice(cands, func(i, j int) bool { return cands[i].rel < cands[j].rel })

	pkgs := map[string]bool{}
	keep := map[string]bool{}
	for _, c := range cands {
		dir, name := filepath.Split(c.src)
		if ok, err := ctxt.MatchFile(dir, name); err != nil || !ok {
			continue // excluded by build constraints on this toolchain
		}
		src, err := os.ReadFile(c.src)
		if err != nil {
			return nil, err
		}
		if generatedRE.Match(src[:min(len(src), 2048)]) {
			continue
		}
		out, np, ns, err := File(c.rel, src)
		if err != nil {
			return nil, fmt.Errorf("instrumenting %s: %v", c.src, err)
		}
		target := filepath.Join(cfg.Repo, c.rel)
		if np == 0 && ns == 0 {
			// nothing to instrument; a mutant file must still replace
			// the original.
			if c.src != target {
				overlay[target] = c.src
			}
			continue
		}
		dst := filepath.Join(cfg.Out, c.rel)
		if err := writeIfChanged(dst, out); err != nil {
			return nil, err
		}
		keep[dst] = true
		overlay[target] = dst
		st.Files++
		st.Points += np
		st.SyncRewrites += ns
		pkgs[filepath.Dir(c.rel)] = true
	}
	st.Packages = len(pkgs)
	// stale instrumented copies are harmless (not referenced) but
	// confusing: remove them.
	filepath.WalkDir(cfg.Out, func(p string, d os.DirEntry, err error) error {
		if err == nil && !d.IsDir() && !keep[p] {
			os.Remove(p)
		}
		return nil
	})

	overlay[filepath.Join(cfg.Repo, "verifsched", "sched.go")] = filepath.Join(cfg.SrcDir, "sched.go.src")
	overlay[filepath.Join(cfg.Repo, "verifsched", "vsync", "vsync.go")] = filepath.Join(cfg.SrcDir, "vsync.go.src")
	overlay[filepath.Join(cfg.Repo, "verifsched", "vsync", "atomic", "atomic.go")] = filepath.Join(cfg.SrcDir, "vatomic.go.src")
	for _, f := range []string{"sched.go.src", "vsync.go.src", "vatomic.go.src"} {
		if _, err := os.Stat(filepath.Join(cfg.SrcDir, f)); err != nil {
			return nil, err
		}
	}
	if err := writeOverlay(cfg.SchedOverlay, overlay); err != nil {
		return nil, err
	}
	if err := writeOverlay(cfg.RaceOverlay, raceOverlay); err != nil {
		return nil, err
	}
	return st, nil
}

func min(a, b int) int {
	if a < b {
		return a
	}
	return b
}

func writeOverlay(path string, m map[string]string) error {
	b, err := json.MarshalIndent(map[string]interface{}{"Replace": m}, "", " ")
	if err != nil {
		return err
	}
	return writeIfChanged(path, append(b, '\n'))
}

func writeIfChanged(path string, b []byte) error {
	if old, err := os.ReadFile(path); err == nil && bytes.Equal(old, b) {
		return nil
	}
	if err := os.MkdirAll(filepath.Dir(path), 0o755); err != nil {
		return err
	}
	return os.WriteFile(path, b, 0o644)
}

// splice is one text insertion/replacement.
type splice struct {
	off, end int // replace src[off:end] (off == end: insertion)
	text     string
	seq      int
}

const pointCall = "verifsched.Point(); "

// File instruments one source file. It returns the new text, the number of
// scheduling points inserted and the number of sync imports redirected.
func File(name string, src []byte) (out []byte, points, syncs int, err error) {
	fset := token.NewFileSet()
	f, err := parser.ParseFile(fset, name, src, parser.ParseComments|parser.SkipObjectResolution)
	if err != nil {
		return nil, 0, 0, err
	}
	tf := fset.File(f.Pos())
	off := func(p token.Pos) int { return tf.Offset(p) }
	var sp []splice
	add := func(o, e int, text string) { sp = append(sp, splice{o, e, text, len(sp)}) }

	// Bodies of switch/select statements hold clauses, not statements:
	// nothing may be inserted directly inside them.
	clauseBlocks := map[*ast.BlockStmt]bool{}
	list := func(l []ast.Stmt) {
		for _, s := range l {
			if _, empty := s.(*ast.EmptyStmt); empty {
				continue
			}
			// A labeled statement is treated as a unit: the point goes
			// before the label, so goto/break/continue targets are
			// untouched.
			add(off(s.Pos()), off(s.Pos()), pointCall)
			points++
		}
	}
	for _, d := range f.Decls {
		fd, ok := d.(*ast.FuncDecl)
		if !ok || fd.Body == nil {
			continue // package-level initialisers are left alone
		}
		if fd.Recv == nil && fd.Name.Name == "init" {
			continue
		}
		ast.Inspect(fd.Body, func(n ast.Node) bool {
			switch v := n.(type) {
			case *ast.SwitchStmt:
				clauseBlocks[v.Body] = true
			case *ast.TypeSwitchStmt:
				clauseBlocks[v.Body] = true
			case *ast.SelectStmt:
				clauseBlocks[v.Body] = true
			case *ast.BlockStmt:
				if !clauseBlocks[v] {
					list(v.List)
				}
			case *ast.CaseClause:
				list(v.Body)
			case *ast.CommClause:
				list(v.Body)
			}
			return true
		})
	}
	for _, im := range f.Imports {
		var local, repl string
		switch im.Path.Value {
		case `"sync"`:
			local, repl = "sync", vsyncPkg
		case `"sync/atomic"`:
			local, repl = "atomic", atomicPkg
		default:
			continue
		}
		text := fmt.Sprintf("%q", repl)
		if im.Name == nil {
			text = local + " " + text
		}
		add(off(im.Path.Pos()), off(im.Path.End()), text)
		syncs++
	}
	if points == 0 && syncs == 0 {
		return src, 0, 0, nil
	}
	if points > 0 {
		// on the line of the package clause, so that no line moves.
		add(off(f.Name.End()), off(f.Name.End()), fmt.Sprintf("; import verifsched %q", schedPkg))
	}
	sort.Slice(sp, func(i, j int) bool {
		if sp[i].off != sp[j].off {
			return sp[i].off < sp[j].off
		}
		return sp[i].seq < sp[j].seq
	})
	var b bytes.Buffer
	b.Grow(len(src) + len(sp)*len(pointCall))
	at := 0
	for _, s := range sp {
		if s.off < at {
			return nil, 0, 0, fmt.Errorf("overlapping splices at offset %d", s.off)
		}
		b.Write(src[at:s.off])
		b.WriteString(s.text)
		at = s.end
	}
	b.Write(src[at:])
	out = b.Bytes()
	if _, err := parser.ParseFile(token.NewFileSet(), name, out, parser.SkipObjectResolution); err != nil {
		return nil, 0, 0, fmt.Errorf("instrumented text does not parse: %v", err)
	}
	return out, points, syncs, nil
}
