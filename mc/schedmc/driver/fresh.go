package driver

import (
	"fmt"
	"strings"

	"github.com/cockroachdb/errors"
)

// This file provides many error types that no code has ever looked at
// before: the library's own types are touched during package initialisation
// (registration computes their type keys), so lazily-filled, type-keyed
// package-level state — should a change introduce any — is already warm for
// them. First-use behaviour under concurrency can only be exercised with
// types that are COLD, and every type is cold only once per process; hence
// a family of generic types instantiated with many distinct arguments.

// GLeaf is a user-defined generic leaf error.
type GLeaf[T any] struct{ Msg string }

func (e *GLeaf[T]) Error() string { return e.Msg }

// GWrap is a user-defined generic wrapper error.
type GWrap[T any] struct {
	Msg   string
	Cause error
}

func (e *GWrap[T]) Error() string { return e.Msg + ": " + e.Cause.Error() }
func (e *GWrap[T]) Unwrap() error { return e.Cause }

// Fresh is one type argument's worth of cold shapes. Each shape uses its own
// instantiation, so that touching one does not warm another.
type Fresh struct {
	Arg    string
	Shapes []*Shape
}

func fresh[T any]() *Fresh {
	arg := strings.ReplaceAll(fmt.Sprintf("%T", *new(T)), " ", "_") // no spaces: names end up in violation keys
	return &Fresh{Arg: arg, Shapes: []*Shape{
		{"fresh-bare[" + arg + "]", "&GLeaf[T]", func() error {
			return &GLeaf[T]{Msg: "g ‹x›"}
		}},
		{"fresh-wrap[" + arg + "]", "Wrap(&GWrap[T]{New})", func() error {
			return errors.Wrap(&GWrap[T]{Msg: "gw", Cause: errors.New("in")}, "ctx")
		}},
		// the transfer itself looks at GLeaf[*T] (at construction, on the
		// builder goroutine); the observers then see opaque layers.
		{"fresh-hop[" + arg + "]", "HopK(Wrap(&GLeaf[*T]))", func() error {
			return hop(errors.Wrap(&GLeaf[*T]{Msg: "gh"}, "h"))
		}},
	}}
}

type (
	tagA struct{}
	tagB struct{ _ int }
)

// FreshTypes lists the cold type families (32 arguments × 3 shapes, 2 of
// which reach the observers cold).
var FreshTypes = []*Fresh{
	fresh[int8](), fresh[int16](), fresh[int32](), fresh[int64](),
	fresh[uint8](), fresh[uint16](), fresh[uint32](), fresh[uint64](),
	fresh[float32](), fresh[float64](), fresh[complex64](), fresh[complex128](),
	fresh[bool](), fresh[uintptr](), fresh[tagA](), fresh[tagB](),
	fresh[[1]int](), fresh[[2]int](), fresh[[3]int](), fresh[[4]int](),
	fresh[[5]int](), fresh[[6]int](), fresh[[7]int](), fresh[[8]int](),
	fresh[[]int8](), fresh[[]int16](), fresh[[]int32](), fresh[[]int64](),
	fresh[map[int]int](), fresh[chan int](), fresh[func()](), fresh[*int](),
}

// FreshShapeByName finds a cold shape.
func FreshShapeByName(n string) *Shape {
	for _, f := range FreshTypes {
		for _, s := range f.Shapes {
			if s.Name == n {
				return s
			}
		}
	}
	return nil
}
