// Package driver holds what the two C18 passes share: the shared error
// shapes, the read-only observers and their pointer-free renderings.
//
// It imports only the public API of the library (plus verif/mc/ut for a
// foreign error type); it does not know about the scheduler, so the same
// bodies run under the controlled scheduler (cmd/mc-sched, instrumented
// build) and free under the race detector (cmd/mc-race, plain build).
package driver

import (
	"context"
	"encoding/hex"
	goerrors "errors"
	"fmt"
	"io"
	"sort"
	"strings"

	"github.com/cockroachdb/errors"
	"github.com/cockroachdb/errors/errbase"
	"github.com/cockroachdb/errors/join"
	"github.com/cockroachdb/errors/errorspb"
	"github.com/cockroachdb/logtags"
	"github.com/cockroachdb/redact"
	"github.com/gogo/protobuf/proto"

	"verif/mc/ut"
)

func init() {
	// decoding a payload without decoder logs a warning: keep workers quiet.
	errors.SetWarningFn(func(context.Context, string, ...interface{}) {})
}

var bg = context.Background()

// Shape is one way to build the shared error. Every call of Build returns a
// brand-new object graph: the object the concurrent observers share is never
// looked at by anything else, and reference ("alone") results always come
// from a twin built the same way — a warm-up call on the same VALUE would
// hide per-object lazy initialisation.
type Shape struct {
	Name string
	Desc string
	// build constructs the error. It is only ever called through Build so
	// that the captured stack trace is the same in every execution.
	build func() error
}

// hop = EncodeError + Marshal + Unmarshal + DecodeError (a process that
// knows every registered type).
func hop(e error) error {
	enc := errors.EncodeError(bg, e)
	b, err := proto.Marshal(&enc)
	if err != nil {
		panic(fmt.Sprintf("marshal: %v", err))
	}
	var dec errorspb.EncodedError
	if err := proto.Unmarshal(b, &dec); err != nil {
		panic(fmt.Sprintf("unmarshal: %v", err))
	}
	return errors.DecodeError(bg, dec)
}

// Shapes is the list of shared error shapes (DESIGN.md C18).
var Shapes = []*Shape{
	{"leaf", "errors.New", func() error {
		return errors.New("leaf ‹m›")
	}},
	{"wrap", "Wrap(New)", func() error {
		return errors.Wrap(errors.New("inner"), "outer")
	}},
	{"hintwrapf", "WithHint(Wrapf(Wrap(New)))", func() error {
		e := errors.Wrap(errors.New("inner"), "mid")
		e = errors.Wrapf(e, "outer %d %s", 42, "arg")
		return errors.WithHint(e, "try again")
	}},
	{"barrier", "Handled(Wrap(GoNew))", func() error {
		return errors.Handled(errors.Wrap(goerrors.New("hidden"), "ctx"))
	}},
	{"join", "Join(New, GoNew)", func() error {
		return errors.Join(errors.New("a"), goerrors.New("b"))
	}},
	{"secondary", "WithSecondaryError(New, Wrap(GoNew))", func() error {
		return errors.WithSecondaryError(errors.New("primary"), errors.Wrap(goerrors.New("second"), "w"))
	}},
	{"decoded-wrapf", "HopK(Wrapf(Wrapf(ut.UnwrapW(GoNew)))): opaque wrapper and leaf layers", func() error {
		var e error = &ut.UnwrapW{Msg: "foreign", Cause: goerrors.New("std")}
		e = errors.Wrapf(e, "l1 %s", "x")
		e = errors.Wrapf(e, "l2 %d", 7)
		return hop(e)
	}},
	{"decoded-annot", "HopK(WithDomain(WithTelemetry(WithContextTags(New))))", func() error {
		ctx := logtags.AddTag(logtags.AddTag(bg, "n", 1), "k", "v")
		e := errors.WithContextTags(errors.New("base"), ctx)
		e = errors.WithTelemetry(e, "key.b", "key.a")
		e = errors.WithDetail(e, "a detail")
		e = errors.WithDomain(e, errors.NamedDomain("dom"))
		return hop(e)
	}},
	// LOCAL (never transferred) annotation layers: a decoded layer carries its
	// safe details ready-made, a local one computes them from its payload on
	// demand — exactly where a change might start to memoize.
	{"local-tags", "WithContextTags{plain string, errors.Safe, nil}(Wrap(New))", func() error {
		ctx := logtags.AddTag(bg, "user", "secret")
		ctx = logtags.AddTag(ctx, "node", errors.Safe(7))
		ctx = logtags.AddTag(ctx, "flag", nil)
		return errors.WithContextTags(errors.Wrap(errors.New("base"), "ctx"), ctx)
	}},
	{"local-annot", "WithSafeDetails(WithDomain(WithTelemetry(New, zeta, alpha, mid)))", func() error {
		e := errors.WithTelemetry(errors.New("base"), "zeta", "alpha", "mid")
		e = errors.WithDomain(e, errors.NamedDomain("dom"))
		return errors.WithSafeDetails(e, "a\nb %d", errors.Safe(1))
	}},
	{"local-links", "WithDetail(WithHint(WithIssueLink(New)))", func() error {
		e := errors.WithIssueLink(errors.New("base"), errors.IssueLink{IssueURL: "https://issues/123", Detail: "sub-issue"})
		e = errors.WithHint(e, "a hint")
		return errors.WithDetail(e, "a detail")
	}},
	{"marked", "WithStack(Mark(Wrap(New), io.EOF)): a layer that stores a ready-made identity mark", func() error {
		return errors.WithStack(errors.Mark(errors.Wrap(errors.New("inner"), "ctx"), io.EOF))
	}},
	{"badutf8", "HopU(WithSafeDetails(WithTelemetry(ut.UnwrapW(GoNew), k\\xff), fmt \\xff)): safe strings that are not valid UTF-8, local and in opaque layers", func() error {
		var e error = &ut.UnwrapW{Msg: "foreign \xff", Cause: goerrors.New("std")}
		e = errors.WithTelemetry(e, "key\xff", "key.ok")
		e = errors.WithSafeDetails(e, "d\xfe %s", errors.Safe("v\xff"))
		return errors.WithTelemetry(hop(e), "outer\xff")
	}},
	{"sparecap", "join.Join(fmt.Errorf(%w %w %w), GoNew): a multi-cause node whose cause slice has spare capacity, nested as a non-last branch", func() error {
		m1 := fmt.Errorf("m1 %w %w %w", goerrors.New("a"), goerrors.New("b"), goerrors.New("c"))
		return join.Join(m1, goerrors.New("last"))
	}},
	{"gleaf", "Wrap(&driver.GLeaf[string]): a user-defined generic leaf type", func() error {
		return errors.Wrap(&GLeaf[string]{Msg: "generic"}, "ctx")
	}},
}

// ShapeByName finds a shape.
func ShapeByName(n string) *Shape {
	for _, s := range Shapes {
		if s.Name == n {
			return s
		}
	}
	return nil
}

type buildReq struct {
	s  *Shape
	re chan error
}

var buildCh = func() chan buildReq {
	ch := make(chan buildReq)
	go builder(ch)
	return ch
}()

// builder is the one goroutine (and call site) where shared errors are
// constructed: the stack trace captured by the constructors is therefore
// identical for every execution of every scenario in this process.
func builder(ch chan buildReq) {
	for r := range ch {
		r.re <- r.s.build()
	}
}

var buildRe = make(chan error)

// Build constructs a fresh instance of the shape. Not concurrency-safe
// (callers are the single exploration loop / the race pass's main).
func (s *Shape) Build() error {
	buildCh <- buildReq{s, buildRe}
	return <-buildRe
}

// Observer is one read-only use of the shared error; Run returns a
// pointer-free rendering of everything the call returned.
type Observer struct {
	Name string
	Run  func(e error) string
}

// Observers is the list of read-only observers (DESIGN.md C18).
var Observers = []*Observer{
	{"Error", func(e error) string { return e.Error() }},
	{"v", func(e error) string { return fmt.Sprintf("%v", e) }},
	{"plusv", func(e error) string { return fmt.Sprintf("%+v", e) }},
	{"redact", func(e error) string { return string(redact.Sprintf("%+v", e)) }},
	{"Encode", func(e error) string {
		enc := errors.EncodeError(bg, e)
		b, err := proto.Marshal(&enc)
		if err != nil {
			return "marshal error: " + err.Error()
		}
		return hex.EncodeToString(b)
	}},
	{"Is", func(e error) string {
		return fmt.Sprintf("canceled=%v eof=%v any=%v self=%v", errors.Is(e, context.Canceled), errors.Is(e, io.EOF),
			errors.IsAny(e, context.DeadlineExceeded, io.ErrUnexpectedEOF, io.EOF), errors.Is(e, e))
	}},
	{"As", func(e error) string {
		var p *ut.PtrLeaf
		ok1 := errors.As(e, &p)
		msg := ""
		if p != nil {
			msg = p.Msg
		}
		var sd errbase.SafeDetailer
		ok2 := errors.As(e, &sd)
		return fmt.Sprintf("ptrleaf=%v %q safedetailer=%v %T", ok1, msg, ok2, sd)
	}},
	{"SafeDetails", func(e error) string {
		var b strings.Builder
		for _, p := range errors.GetAllSafeDetails(e) {
			fmt.Fprintf(&b, "%s|%s|%s|%q\n", p.OriginalTypeName, p.ErrorTypeMark.FamilyName, p.ErrorTypeMark.Extension, p.SafeDetails)
		}
		return b.String()
	}},
	{"Hints", func(e error) string {
		keys := errors.GetTelemetryKeys(e)
		sort.Strings(keys) // documented unordered
		return fmt.Sprintf("hints=%q details=%q keys=%q", errors.GetAllHints(e), errors.GetAllDetails(e), keys)
	}},
	{"Sentry", func(e error) string {
		ev, extra := errors.BuildSentryReport(e)
		var b strings.Builder
		fmt.Fprintf(&b, "message=%q\nexceptions=%d\n", ev.Message, len(ev.Exception))
		for _, x := range ev.Exception {
			nf := 0
			if x.Stacktrace != nil {
				nf = len(x.Stacktrace.Frames)
			}
			fmt.Fprintf(&b, "exc type=%q value=%q module=%q frames=%d\n", x.Type, x.Value, x.Module, nf)
		}
		var tk []string
		for k, v := range ev.Tags {
			tk = append(tk, k+"="+v)
		}
		sort.Strings(tk)
		fmt.Fprintf(&b, "tags=%q\n", tk)
		var ks []string
		for k := range extra {
			ks = append(ks, k)
		}
		sort.Strings(ks)
		for _, k := range ks {
			fmt.Fprintf(&b, "extra %s=%v\n", k, extra[k])
		}
		return b.String()
	}},
}

// ObserverByName finds an observer.
func ObserverByName(n string) *Observer {
	for _, o := range Observers {
		if o.Name == n {
			return o
		}
	}
	return nil
}

// Guard runs an observer and turns a panic into a rendering (used by the
// free-running race pass; the scheduler pass recovers per thread itself).
func Guard(o *Observer, e error) (res string, panicked bool) {
	defer func() {
		if p := recover(); p != nil {
			res, panicked = fmt.Sprintf("PANIC: %v", p), true
		}
	}()
	return o.Run(e), false
}

// Short abbreviates a rendering for messages.
func Short(s string, n int) string {
	if len(s) <= n {
		return s
	}
	return s[:n/2] + " … " + s[len(s)-n/2:]
}

// FirstDiff describes where two renderings first differ.
func FirstDiff(got, want string) string {
	i := 0
	for i < len(got) && i < len(want) && got[i] == want[i] {
		i++
	}
	lo := i - 40
	if lo < 0 {
		lo = 0
	}
	cut := func(s string) string {
		hi := i + 80
		if hi > len(s) {
			hi = len(s)
		}
		return s[lo:hi]
	}
	return fmt.Sprintf("first difference at byte %d (lengths %d vs %d): observed …%q… vs alone …%q…", i, len(got), len(want), cut(got), cut(want))
}
