// Package schedmc is the parent-process side of check C18 ("read-only use
// of a shared error is concurrency-safe and deterministic"). It is linked
// into the ordinary `mc` binary, where it registers C18 with
//
//   - Pre: regenerate the instrumented copy of /repo's working tree
//     (verif/mc/schedmc/instrument), build /verif/build/mc-sched (the
//     instrumented explorer, `-tags verif,verifsched -overlay
//     overlay-sched.json`) and /verif/build/mc-race (the same driver bodies,
//     uninstrumented, `-race -overlay overlay-race.json`), and make the
//     framework launch mc-sched's workers;
//   - Post: run mc-race once and fold its findings into the merged result.
//
// The exploration itself (verif/mc/schedmc/worker) only builds under the
// overlay, which is why it carries the build tag `verifsched` and is only
// imported by cmd/mc-sched.
package schedmc

import (
	"bytes"
	"encoding/json"
	"fmt"
	"os"
	"os/exec"
	"path/filepath"
	"regexp"
	"strings"
	"sync"
	"syscall"
	"time"

	"verif/mc/core"
	"verif/mc/schedmc/instrument"
)

const Technique = "stateless model checking of the real library code under a controlled cooperative scheduler " +
	"(scheduling point before every library statement, CHESS-style iterative preemption bounding, " +
	"every schedule replayed from a fresh error), plus an auxiliary -race pass of the same bodies running free"

// New builds the C18 check around a worker body.
func New(run func(c *core.Ctx, r *core.Result)) *core.Check {
	return &core.Check{ID: "C18", Technique: Technique, Run: run, Pre: Pre, Post: Post}
}

func init() {
	// In the plain mc binary the worker body is never used: Pre redirects
	// the workers to mc-sched, which re-registers C18 with the real one.
	core.Register(New(func(c *core.Ctx, r *core.Result) {
		r.HarnessError("C18 workers must run in /verif/build/mc-sched (instrumented build), not in mc")
	}))
}

func buildDir() string { return filepath.Join(core.VerifDir, "build") }

// SchedBin and RaceBin are the two auxiliary binaries.
func SchedBin() string { return filepath.Join(buildDir(), "mc-sched") }
func RaceBin() string  { return filepath.Join(buildDir(), "mc-race") }

func goEnv(cgo string) []string {
	env := os.Environ()
	set := func(k, v string, force bool) {
		for i, e := range env {
			if strings.HasPrefix(e, k+"=") {
				if force {
					env[i] = k + "=" + v
				}
				return
			}
		}
		env = append(env, k+"="+v)
	}
	set("GOFLAGS", "-mod=mod", false)
	set("GOPROXY", "off", false)
	set("GOSUMDB", "off", false)
	set("GOTOOLCHAIN", "local", false)
	set("CGO_ENABLED", cgo, true)
	return env
}

func goBuild(cgo string, args ...string) error {
	cmd := exec.Command("go", append([]string{"build"}, args...)...)
	cmd.Dir = filepath.Join(core.VerifDir, "mc")
	cmd.Env = goEnv(cgo)
	out, err := cmd.CombinedOutput()
	if err != nil {
		s := string(out)
		if len(s) > 3000 {
			s = s[:3000] + "\n…"
		}
		return fmt.Errorf("go build %s: %v\n%s", strings.Join(args, " "), err, s)
	}
	return nil
}

// Build instruments /repo's working tree and builds both binaries. Checks
// C18 and C16 (schedule dimension) both call it, possibly at the same time
// from two `check` processes: an exclusive lock on build/.sched-build.lock
// serialises them (the second one finds everything up to date).
func Build() (*instrument.Stats, error) {
	if lk, err := os.OpenFile(filepath.Join(buildDir(), ".sched-build.lock"), os.O_CREATE|os.O_RDWR, 0o644); err == nil {
		if syscall.Flock(int(lk.Fd()), syscall.LOCK_EX) == nil {
			defer syscall.Flock(int(lk.Fd()), syscall.LOCK_UN)
		}
		defer lk.Close()
	}
	cfg := instrument.Default()
	st, err := instrument.Run(cfg)
	if err != nil {
		return nil, fmt.Errorf("instrumenter: %v", err)
	}
	if len(st.Mutants) > 0 {
		fmt.Printf("instrumented build: VERIF_MUTANT_DIR=%s replaces %v (demo mode: NOT the tree in /repo)\n", cfg.MutantDir, st.Mutants)
	}
	var wg sync.WaitGroup
	var e1, e2 error
	wg.Add(2)
	go func() {
		defer wg.Done()
		e1 = goBuild("0", "-tags", "verif,verifsched", "-overlay", cfg.SchedOverlay, "-o", SchedBin(), "./cmd/mc-sched")
	}()
	go func() {
		defer wg.Done()
		e2 = goBuild("1", "-race", "-tags", "verif", "-overlay", cfg.RaceOverlay, "-o", RaceBin(), "./cmd/mc-race")
	}()
	wg.Wait()
	if e1 != nil {
		return st, fmt.Errorf("instrumented build of the library failed: %v", e1)
	}
	if e2 != nil {
		return st, fmt.Errorf("-race build failed: %v", e2)
	}
	return st, nil
}

// Pre is core.Check.Pre.
func Pre(tier string) ([]string, error) {
	t0 := time.Now()
	st, err := Build()
	if err != nil {
		return nil, err
	}
	fmt.Printf("C18: instrumented %d files / %d packages with %d scheduling points; binaries built in %.1fs\n",
		st.Files, st.Packages, st.Points, time.Since(t0).Seconds())
	if !replaying() {
		// the race pass runs beside the exploration workers; Post collects it.
		pending = startRace(tier)
	}
	return []string{SchedBin()}, nil
}

func replaying() bool {
	for _, a := range os.Args {
		if a == "--replay" {
			return true
		}
	}
	return false
}

// Post is core.Check.Post: the race pass (skipped when replaying one
// schedule; a race finding is replayed by the worker instead).
func Post(tier string, merged *core.Result) {
	if replaying() {
		return
	}
	run := pending
	if run == nil {
		run = startRace(tier)
	}
	pending = nil
	run.collect(merged)
}

// RacePass runs the race pass to completion and records its findings in r.
func RacePass(tier string, r *core.Result) { startRace(tier).collect(r) }

// ColdProcesses is the number of fresh mc-race processes per check run:
// lazily-filled package-level state is cold exactly once per process, so
// the cold phase (see cmd/mc-race) is repeated in several of them.
func ColdProcesses(tier string) int {
	if tier == "thorough" {
		return 16
	}
	return 4
}

// raceProc is one mc-race process; raceRun is all of them.
type raceProc struct {
	logBase        string
	stdout, stderr bytes.Buffer
	err            error
}

type raceRun struct {
	tier  string
	procs []*raceProc
	done  chan struct{}
}

var pending *raceRun

// startRace launches the mc-race processes (at most 4 at a time, 16 Ps each)
// in the background.
func startRace(tier string) *raceRun {
	run := &raceRun{tier: tier, done: make(chan struct{})}
	old, _ := filepath.Glob(filepath.Join(buildDir(), "race.log*"))
	for _, f := range old {
		os.Remove(f)
	}
	for i := 0; i < ColdProcesses(tier); i++ {
		run.procs = append(run.procs, &raceProc{logBase: filepath.Join(buildDir(), fmt.Sprintf("race.log.%d", i))})
	}
	go func() {
		defer close(run.done)
		sem := make(chan struct{}, 4)
		var wg sync.WaitGroup
		for _, p := range run.procs {
			wg.Add(1)
			sem <- struct{}{}
			go func(p *raceProc) {
				defer func() { <-sem; wg.Done() }()
				cmd := exec.Command(RaceBin(), tier)
				cmd.Env = append(os.Environ(), "GORACE=halt_on_error=0 exitcode=66 log_path="+p.logBase, "GOMAXPROCS=16")
				cmd.Stdout, cmd.Stderr = &p.stdout, &p.stderr
				p.err = cmd.Run()
			}(p)
		}
		wg.Wait()
	}()
	return run
}

// RaceSummary is what one mc-race process prints on stdout.
type RaceSummary struct {
	Goroutines int   `json:"goroutines"`
	Rounds     int   `json:"rounds"`
	Iterations int   `json:"iterations"`  // per goroutine and round
	Calls      int64 `json:"calls"`       // observer calls of the rounds
	ColdShapes int   `json:"cold_shapes"` // shapes of the cold phase
	ColdCalls  int64 `json:"cold_calls"`  // observer calls of the cold phase
	Shapes     int   `json:"shapes"`
	Observers  int   `json:"observers"`
	// stampede phase: goroutines per observer, observer calls.
	StampedeGoroutines int            `json:"stampede_goroutines"`
	StampedeCalls      int64          `json:"stampede_calls"`
	Mismatches         []RaceMismatch `json:"mismatches"`
	WallS              float64        `json:"wall_s"`
}

// RaceMismatch is a result that differs from the solo result (or a panic)
// in the free-running pass.
type RaceMismatch struct {
	Shape    string `json:"shape"`
	Observer string `json:"observer"`
	Panic    bool   `json:"panic"`
	Got      string `json:"got"`
	Want     string `json:"want"`
	Count    int64  `json:"count"`
}

var (
	raceFuncRE  = regexp.MustCompile(`(?m)^  (\S+)\(\)$`)
	fatalFuncRE = regexp.MustCompile(`(?m)^(github\.com/cockroachdb/errors[^\s(]*(?:\([^)]*\))?[^\s(]*)\(`)
	typeArgRE   = regexp.MustCompile(`\[.*\]`)
)

// ShapeFamily strips the type argument of a cold shape name, so that one
// defect gives one violation key rather than one per instantiation.
func ShapeFamily(shape string) string {
	if strings.HasPrefix(shape, "fresh-") {
		return typeArgRE.ReplaceAllString(shape, "")
	}
	return shape
}

// collect waits for the mc-race processes and records data races, runtime
// fatal errors and result mismatches.
func (run *raceRun) collect(r *core.Result) {
	<-run.done
	tier := run.tier
	replay := map[string]interface{}{"race_pass": true, "tier": tier}
	var total RaceSummary
	var nrep, nfatal, nok int64
	for i, p := range run.procs {
		stderr := p.stderr.String()
		logs, _ := filepath.Glob(p.logBase + ".*")
		var text strings.Builder
		for _, f := range logs {
			b, _ := os.ReadFile(f)
			text.Write(b)
		}
		// a report written to stderr (log_path not honoured) counts too.
		text.WriteString(stderr)
		for _, blk := range strings.Split(text.String(), "==================") {
			if !strings.Contains(blk, "WARNING: DATA RACE") {
				continue
			}
			nrep++
			fn, first := "", ""
			for _, m := range raceFuncRE.FindAllStringSubmatch(blk, -1) {
				if first == "" {
					first = m[1]
				}
				if strings.HasPrefix(m[1], "github.com/cockroachdb/errors") && !strings.Contains(m[1], "/verifsched") {
					fn = m[1]
					break
				}
			}
			if fn == "" {
				fn = "outside-library:" + first
			}
			r.Violate("data-race|"+fn, "the Go race detector reports, with the C18 observers running concurrently on one shared error:\n"+
				tailStr(strings.TrimSpace(blk), 2400), replay)
		}
		// the runtime's own detection ("concurrent map read and map write",
		// "concurrent map writes", …) kills the process: same defect class.
		if k := strings.Index(stderr, "fatal error: "); k >= 0 {
			nfatal++
			fn := "unknown"
			if m := fatalFuncRE.FindStringSubmatch(stderr[k:]); m != nil {
				fn = m[1]
			}
			line := stderr[k:]
			if nl := strings.IndexByte(line, '\n'); nl > 0 {
				line = line[:nl]
			}
			r.Violate("data-race|"+fn, "the Go runtime aborted the free-running C18 observers: "+line+"\n"+tailStr(stderr[k:], 2400), replay)
			continue
		}
		if p.err != nil {
			if ee, ok := p.err.(*exec.ExitError); !ok || ee.ExitCode() != 66 {
				r.HarnessError("race pass process %d: %v\n%s", i, p.err, tailStr(stderr, 2000))
				continue
			}
		}
		var sum RaceSummary
		out := p.stdout.String()
		k := strings.LastIndex(out, "@@RACE-SUMMARY@@\n")
		if k < 0 || json.Unmarshal([]byte(out[k+len("@@RACE-SUMMARY@@\n"):]), &sum) != nil {
			r.HarnessError("race pass process %d: no summary\n%s", i, tailStr(stderr, 2000))
			continue
		}
		nok++
		total.Goroutines, total.Observers, total.Shapes, total.ColdShapes = sum.Goroutines, sum.Observers, sum.Shapes, sum.ColdShapes
		total.Rounds += sum.Rounds
		total.Iterations = sum.Iterations
		total.Calls += sum.Calls
		total.ColdCalls += sum.ColdCalls
		total.StampedeCalls += sum.StampedeCalls
		total.StampedeGoroutines = sum.StampedeGoroutines
		for _, m := range sum.Mismatches {
			clause := "result-differs"
			if m.Panic {
				clause = "panic"
			}
			key := fmt.Sprintf("%s|%s|%s+free-running", clause, ShapeFamily(m.Shape), m.Observer)
			r.Violate(key, fmt.Sprintf("race pass (free-running goroutines, no scheduler): observer %s on shape %s returned (%d times)\n  %s\nalone it returns\n  %s",
				m.Observer, m.Shape, m.Count, tailStr(m.Got, 600), tailStr(m.Want, 600)), replay)
		}
	}
	r.Count("race_cold_processes", int64(len(run.procs)))
	r.Count("race_cold_processes_completed", nok)
	r.Count("race_cold_shapes_per_process", int64(total.ColdShapes))
	r.Count("race_cold_observer_calls", total.ColdCalls)
	r.Count("race_pass_goroutines", int64(total.Goroutines))
	r.Count("race_pass_iterations", int64(total.Rounds*total.Iterations))
	r.Count("race_fresh_object_rounds", int64(total.Rounds))
	r.Count("race_pass_observer_calls", total.Calls)
	r.Count("race_stampede_goroutines", int64(total.StampedeGoroutines))
	r.Count("race_stampede_observer_calls", total.StampedeCalls)
	r.Count("race_reports", nrep)
	r.Count("race_runtime_fatal_errors", nfatal)
	r.Assumptions = append(r.Assumptions, fmt.Sprintf(
		"data races: auxiliary dynamic analysis, NOT an enumeration — the C18 driver bodies run free under the Go race detector in %d fresh processes. "+
			"Each process starts with a COLD phase (before any solo baseline or other library use: %d goroutines released together, every observer on each of %d shapes, "+
			"most of them over generic user types never looked at before, each goroutine in its own rotation), so that lazily-filled package-level state is first touched concurrently; "+
			"then rounds, each on brand-new shared objects of every shape, all goroutines released at once, reference results from twin objects (%d rounds × %d iterations × %d observers on each of %d shapes in total): state lazily initialised per error VALUE is cold in every round; finally a stampede per formatting/encoding observer (48 goroutines released together, all inside that one observer on shapes with nested formatting) for process-global state that only misbehaves under many calls in flight — results are compared with twin references throughout, which is the only thing that can see a defect that is no data race. The detector is happens-before based: it does not need the racy "+
			"interleaving to occur, but it only sees code paths that execute — first-use paths are seen once per type and process, which is why types and processes are multiplied",
		len(run.procs), total.Goroutines, total.ColdShapes, total.Rounds, total.Iterations, total.Observers, total.Shapes))
}

func tailStr(s string, n int) string {
	if len(s) <= n {
		return s
	}
	return s[:n/2] + "\n…\n" + s[len(s)-n/2:]
}
