// Package schedmc is the parent-process side of check C18 ("read-only use
// of a shared error is concurrency-safe and deterministic"). It is linked
// into the ordinary `mc` binary, where it registers C18 with
//
//   - Pre: regenerate the instrumented copy of /repo's working tree
//     (verif/mc/schedmc/instrument), build /verif/build/mc-sched (the
//     instrumented explorer, `-tags verif,verifsched -overlay
//     overlay-sched.json`) and /verif/build/mc-race (the same driver bodies,
//     uninstrumented, `-race -overlay overlay-race.json`), and make the
//     framework launch mc-sched's workers;
//   - Post: run mc-race once and fold its findings into the merged result.
//
// The exploration itself (verif/mc/schedmc/worker) only builds under the
// overlay, which is why it carries the build tag `verifsched` and is only
// imported by cmd/mc-sched.
package schedmc

import (
	"bytes"
	"encoding/json"
	"fmt"
	"os"
	"os/exec"
	"path/filepath"
	"regexp"
	"strings"
	"sync"
	"time"

	"verif/mc/core"
	"verif/mc/schedmc/instrument"
)

const Technique = "stateless model checking of the real library code under a controlled cooperative scheduler " +
	"(scheduling point before every library statement, CHESS-style iterative preemption bounding, " +
	"every schedule replayed from a fresh error), plus an auxiliary -race pass of the same bodies running free"

// New builds the C18 check around a worker body.
func New(run func(c *core.Ctx, r *core.Result)) *core.Check {
	return &core.Check{ID: "C18", Technique: Technique, Run: run, Pre: Pre, Post: Post}
}

func init() {
	// In the plain mc binary the worker body is never used: Pre redirects
	// the workers to mc-sched, which re-registers C18 with the real one.
	core.Register(New(func(c *core.Ctx, r *core.Result) {
		r.HarnessError("C18 workers must run in /verif/build/mc-sched (instrumented build), not in mc")
	}))
}

func buildDir() string { return filepath.Join(core.VerifDir, "build") }

// SchedBin and RaceBin are the two auxiliary binaries.
func SchedBin() string { return filepath.Join(buildDir(), "mc-sched") }
func RaceBin() string  { return filepath.Join(buildDir(), "mc-race") }

func goEnv(cgo string) []string {
	env := os.Environ()
	set := func(k, v string, force bool) {
		for i, e := range env {
			if strings.HasPrefix(e, k+"=") {
				if force {
					env[i] = k + "=" + v
				}
				return
			}
		}
		env = append(env, k+"="+v)
	}
	set("GOFLAGS", "-mod=mod", false)
	set("GOPROXY", "off", false)
	set("GOSUMDB", "off", false)
	set("GOTOOLCHAIN", "local", false)
	set("CGO_ENABLED", cgo, true)
	return env
}

func goBuild(cgo string, args ...string) error {
	cmd := exec.Command("go", append([]string{"build"}, args...)...)
	cmd.Dir = filepath.Join(core.VerifDir, "mc")
	cmd.Env = goEnv(cgo)
	out, err := cmd.CombinedOutput()
	if err != nil {
		s := string(out)
		if len(s) > 3000 {
			s = s[:3000] + "\n…"
		}
		return fmt.Errorf("go build %s: %v\n%s", strings.Join(args, " "), err, s)
	}
	return nil
}

// Build instruments /repo's working tree and builds both binaries.
func Build() (*instrument.Stats, error) {
	cfg := instrument.Default()
	st, err := instrument.Run(cfg)
	if err != nil {
		return nil, fmt.Errorf("instrumenter: %v", err)
	}
	if len(st.Mutants) > 0 {
		fmt.Printf("C18: VERIF_MUTANT_DIR=%s replaces %v (demo mode: NOT the tree in /repo)\n", cfg.MutantDir, st.Mutants)
	}
	var wg sync.WaitGroup
	var e1, e2 error
	wg.Add(2)
	go func() {
		defer wg.Done()
		e1 = goBuild("0", "-tags", "verif,verifsched", "-overlay", cfg.SchedOverlay, "-o", SchedBin(), "./cmd/mc-sched")
	}()
	go func() {
		defer wg.Done()
		e2 = goBuild("1", "-race", "-tags", "verif", "-overlay", cfg.RaceOverlay, "-o", RaceBin(), "./cmd/mc-race")
	}()
	wg.Wait()
	if e1 != nil {
		return st, fmt.Errorf("instrumented build of the library failed: %v", e1)
	}
	if e2 != nil {
		return st, fmt.Errorf("-race build failed: %v", e2)
	}
	return st, nil
}

// Pre is core.Check.Pre.
func Pre(tier string) ([]string, error) {
	t0 := time.Now()
	st, err := Build()
	if err != nil {
		return nil, err
	}
	fmt.Printf("C18: instrumented %d files / %d packages with %d scheduling points; binaries built in %.1fs\n",
		st.Files, st.Packages, st.Points, time.Since(t0).Seconds())
	if !replaying() {
		// the race pass runs beside the exploration workers; Post collects it.
		pending = startRace(tier)
	}
	return []string{SchedBin()}, nil
}

func replaying() bool {
	for _, a := range os.Args {
		if a == "--replay" {
			return true
		}
	}
	return false
}

// Post is core.Check.Post: the race pass (skipped when replaying one
// schedule; a race finding is replayed by the worker instead).
func Post(tier string, merged *core.Result) {
	if replaying() {
		return
	}
	p := pending
	if p == nil {
		p = startRace(tier)
	}
	pending = nil
	p.collect(merged)
}

// RacePass runs mc-race to completion and records its findings in r.
func RacePass(tier string, r *core.Result) { startRace(tier).collect(r) }

// raceProc is one run of mc-race.
type raceProc struct {
	tier           string
	logBase        string
	stdout, stderr bytes.Buffer
	done           chan error
}

var pending *raceProc

func startRace(tier string) *raceProc {
	p := &raceProc{tier: tier, logBase: filepath.Join(buildDir(), "race.log"), done: make(chan error, 1)}
	old, _ := filepath.Glob(p.logBase + ".*")
	for _, f := range old {
		os.Remove(f)
	}
	cmd := exec.Command(RaceBin(), tier)
	cmd.Env = append(os.Environ(), "GORACE=halt_on_error=0 exitcode=66 log_path="+p.logBase, "GOMAXPROCS=16")
	cmd.Stdout, cmd.Stderr = &p.stdout, &p.stderr
	go func() { p.done <- cmd.Run() }()
	return p
}

// RaceSummary is what mc-race prints on stdout.
type RaceSummary struct {
	Goroutines int            `json:"goroutines"`
	Rounds     int            `json:"rounds"`
	Iterations int            `json:"iterations"` // per goroutine and round
	Calls      int64          `json:"calls"`      // observer calls in total
	Shapes     int            `json:"shapes"`
	Observers  int            `json:"observers"`
	Mismatches []RaceMismatch `json:"mismatches"`
	WallS      float64        `json:"wall_s"`
}

// RaceMismatch is a result that differs from the solo result (or a panic)
// in the free-running pass.
type RaceMismatch struct {
	Shape    string `json:"shape"`
	Observer string `json:"observer"`
	Panic    bool   `json:"panic"`
	Got      string `json:"got"`
	Want     string `json:"want"`
	Count    int64  `json:"count"`
}

var raceFuncRE = regexp.MustCompile(`(?m)^  (\S+)\(\)$`)

// collect waits for mc-race and records data races and result mismatches.
func (p *raceProc) collect(r *core.Result) {
	tier, logBase, stdout, stderr := p.tier, p.logBase, &p.stdout, &p.stderr
	if err := <-p.done; err != nil {
		if ee, ok := err.(*exec.ExitError); !ok || ee.ExitCode() != 66 {
			r.HarnessError("race pass: %v\n%s", err, tailStr(stderr.String(), 2000))
			return
		}
	}
	var sum RaceSummary
	out := stdout.String()
	k := strings.LastIndex(out, "@@RACE-SUMMARY@@\n")
	if k < 0 || json.Unmarshal([]byte(out[k+len("@@RACE-SUMMARY@@\n"):]), &sum) != nil {
		r.HarnessError("race pass: no summary\n%s", tailStr(stderr.String(), 2000))
		return
	}
	r.Count("race_pass_goroutines", int64(sum.Goroutines))
	r.Count("race_pass_iterations", int64(sum.Rounds*sum.Iterations))
	r.Count("race_pass_observer_calls", sum.Calls)
	r.Assumptions = append(r.Assumptions, fmt.Sprintf(
		"data races: auxiliary dynamic analysis, NOT an enumeration — the C18 driver bodies run free under the Go race detector "+
			"(%d goroutines × %d rounds × %d iterations × %d observers on each of %d shared shapes); the library has no synchronisation, so "+
			"conflicting accesses of two goroutines are unordered in every schedule and the detector does not depend on the schedule it happens to see",
		sum.Goroutines, sum.Rounds, sum.Iterations, sum.Observers, sum.Shapes))
	for _, m := range sum.Mismatches {
		clause := "result-differs"
		if m.Panic {
			clause = "panic"
		}
		key := fmt.Sprintf("%s|%s|%s+free-running", clause, m.Shape, m.Observer)
		r.Violate(key, fmt.Sprintf("race pass (free-running goroutines, no scheduler): observer %s on shape %s returned (%d times)\n  %s\nalone it returns\n  %s",
			m.Observer, m.Shape, m.Count, tailStr(m.Got, 600), tailStr(m.Want, 600)),
			map[string]interface{}{"race_pass": true, "tier": tier})
	}
	logs, _ := filepath.Glob(logBase + ".*")
	var text strings.Builder
	for _, f := range logs {
		b, _ := os.ReadFile(f)
		text.Write(b)
	}
	// a report written to stderr (log_path not honoured) counts too.
	text.WriteString(stderr.String())
	nrep := int64(0)
	for _, blk := range strings.Split(text.String(), "==================") {
		if !strings.Contains(blk, "WARNING: DATA RACE") {
			continue
		}
		nrep++
		fn, first := "", ""
		for _, m := range raceFuncRE.FindAllStringSubmatch(blk, -1) {
			if first == "" {
				first = m[1]
			}
			if strings.HasPrefix(m[1], "github.com/cockroachdb/errors") && !strings.Contains(m[1], "/verifsched") {
				fn = m[1]
				break
			}
		}
		if fn == "" {
			fn = "outside-library:" + first
		}
		r.Violate("data-race|"+fn, "the Go race detector reports, with the C18 observers running concurrently on one shared error:\n"+
			tailStr(strings.TrimSpace(blk), 2400), map[string]interface{}{"race_pass": true, "tier": tier})
	}
	r.Count("race_reports", nrep)
}

func tailStr(s string, n int) string {
	if len(s) <= n {
		return s
	}
	return s[:n/2] + "\n…\n" + s[len(s)-n/2:]
}
