// Package core is the property-independent part of the model checker:
// sharded worker processes, result merging, evidence files, replay
// artefacts and the known-findings protocol.
package core

import (
	"bufio"
	"bytes"
	"crypto/sha256"
	"encoding/hex"
	"encoding/json"
	"fmt"
	"os"
	"os/exec"
	"path/filepath"
	"runtime"
	"runtime/debug"
	"runtime/pprof"
	"sort"
	"strconv"
	"strings"
	"sync"
	"time"
)

// VerifDir is where MANIFEST.json, evidence/ and replays/ live.
var VerifDir = func() string {
	if d := os.Getenv("VERIF_DIR"); d != "" {
		return d
	}
	return "/verif"
}()

// Ctx is what a check sees when it runs in one worker process.
type Ctx struct {
	ID      string
	Tier    string // quick | thorough
	Seed    int64
	Shard   int
	NShards int
	// Deadline is a soft deadline: enumerations stop there and report
	// exhaustive=false. It is generous; no verdict depends on timing.
	Deadline time.Time
	// Replay, when non-nil, is the replay payload of one violation: the
	// check must re-run exactly that state.
	Replay json.RawMessage
	// Arg is an optional engine-specific worker argument.
	Arg string
}

func (c *Ctx) Thorough() bool { return c.Tier == "thorough" }

// Mine reports whether enumeration index i belongs to this shard.
func (c *Ctx) Mine(i int64) bool {
	if c.NShards <= 1 {
		return true
	}
	// rotate the assignment with the seed: no verdict depends on it.
	return int((i+c.Seed)%int64(c.NShards)+int64(c.NShards))%c.NShards == c.Shard
}

// Expired reports whether the soft deadline has passed.
func (c *Ctx) Expired() bool { return time.Now().After(c.Deadline) }

// Violation is one failing state.
type Violation struct {
	// Key is the signature used to match known findings: oracle clause,
	// the type family / call site where observation and expectation first
	// diverge, and the stage. A different defect gets a different key.
	Key string `json:"key"`
	// Msg says what failed, with observed and expected values.
	Msg string `json:"msg"`
	// Replay is the state (term, history, schedule, …) to re-run.
	Replay interface{} `json:"replay"`
	// GoTest is an optional stand-alone Go test reproducing the failure
	// through the public API only.
	GoTest string `json:"go_test,omitempty"`
	Count  int64  `json:"count"`
}

// Result is what one worker reports.
type Result struct {
	States      int64 `json:"states"`
	Transitions int64 `json:"transitions"`
	Evaluations int64 `json:"evaluations"`
	Nontrivial  int64 `json:"nontrivial"`
	// Outcomes counts distinct outcome classes (read them: one class from
	// many executions means nothing collided).
	Outcomes map[string]int64 `json:"outcomes"`
	Counters map[string]int64 `json:"counters"`
	Samples  []interface{}    `json:"samples"`
	// Violations are de-duplicated by Key inside a worker.
	Violations []*Violation `json:"violations"`
	Exhaustive bool         `json:"exhaustive"`
	Caps       []string     `json:"caps"`
	// Uncovered lists things the property names but the harness has no
	// driver for (reported, never a violation).
	Uncovered []string `json:"uncovered"`
	// HarnessErrors are internal inconsistencies (non-reproducible
	// failures, replay divergence, simulation disagreement).
	HarnessErrors []string `json:"harness_errors"`
	Bounds        string   `json:"bounds"`
	Rule          string   `json:"rule"`
	Assumptions   []string `json:"assumptions"`

	vkeys map[string]*Violation
}

func NewResult() *Result {
	return &Result{Outcomes: map[string]int64{}, Counters: map[string]int64{}, Exhaustive: true, vkeys: map[string]*Violation{}}
}

const maxSamples = 6

// Sample records an example state (kept small).
func (r *Result) Sample(s interface{}) {
	if len(r.Samples) < maxSamples {
		r.Samples = append(r.Samples, s)
	}
}

func (r *Result) Outcome(class string) { r.Outcomes[class]++ }
func (r *Result) Count(name string, n int64) {
	r.Counters[name] += n
}

// Violate records a violation; only the first one per key keeps its
// replay payload, later ones increment the count.
func (r *Result) Violate(key, msg string, replay interface{}) {
	if v, ok := r.vkeys[key]; ok {
		v.Count++
		return
	}
	v := &Violation{Key: key, Msg: msg, Replay: replay, Count: 1}
	r.vkeys[key] = v
	r.Violations = append(r.Violations, v)
}

// HasViolationKey tells whether key was already reported in this worker.
func (r *Result) HasViolationKey(key string) bool { _, ok := r.vkeys[key]; return ok }

func (r *Result) HarnessError(format string, args ...interface{}) {
	if len(r.HarnessErrors) < 20 {
		r.HarnessErrors = append(r.HarnessErrors, fmt.Sprintf(format, args...))
	}
}

func (r *Result) Cap(s string) {
	r.Exhaustive = false
	for _, c := range r.Caps {
		if c == s {
			return
		}
	}
	r.Caps = append(r.Caps, s)
}

// outDir is where evidence and replay files are written: VerifDir, unless
// VERIF_OUT_DIR redirects them (used when checks are run against a
// deliberately broken tree, so that the committed evidence is not
// overwritten).
func outDir() string {
	if d := os.Getenv("VERIF_OUT_DIR"); d != "" {
		return d
	}
	return VerifDir
}

// Check is one property's decision procedure.
type Check struct {
	ID        string
	Level     string // evidence level: model_checking | fault_enumeration
	Technique string
	// Run explores this worker's shard.
	Run func(c *Ctx, r *Result)
	// Shards overrides the number of worker processes (0 = one per core).
	Shards func(tier string) int
	// Pre, when set, runs once in the parent before the workers (e.g. to
	// build an instrumented binary); it returns the worker argv prefix to
	// use instead of the parent's own executable.
	Pre func(tier string) (argv []string, err error)
	// Post, when set, runs in the parent after merging.
	Post func(tier string, merged *Result)
}

var registry = map[string]*Check{}

func Register(c *Check) { registry[c.ID] = c }

func ids() []string {
	var s []string
	for k := range registry {
		s = append(s, k)
	}
	sort.Strings(s)
	return s
}

func seed() int64 {
	if s := os.Getenv("VERIF_SEED"); s != "" {
		if v, err := strconv.ParseInt(s, 10, 64); err == nil {
			return v
		}
	}
	return 1
}

func softBudget(tier string) time.Duration {
	if s := os.Getenv("VERIF_BUDGET_S"); s != "" {
		if v, err := strconv.Atoi(s); err == nil {
			return time.Duration(v) * time.Second
		}
	}
	if tier == "thorough" {
		return 40 * time.Minute
	}
	return 4 * time.Minute
}

// Main is the entry point of every checker binary.
func Main() {
	if len(os.Args) < 2 {
		usage()
	}
	switch os.Args[1] {
	case "list":
		for _, id := range ids() {
			fmt.Println(id)
		}
	case "worker":
		workerMain(os.Args[2:])
	case "run":
		os.Exit(runMain(os.Args[2:]))
	default:
		usage()
	}
}

func usage() {
	fmt.Fprintf(os.Stderr, "usage: mc run <ID> <quick|thorough> [--replay file] | mc worker … | mc list\nchecks: %v\n", ids())
	os.Exit(2)
}

func workerMain(args []string) {
	// worker <ID> <tier> <shard> <nshards> <seed> <deadline-unix> [arg]
	if len(args) < 6 {
		usage()
	}
	ck := registry[args[0]]
	if ck == nil {
		fmt.Fprintf(os.Stderr, "unknown check %q\n", args[0])
		os.Exit(2)
	}
	if pf := os.Getenv("VERIF_CPUPROFILE"); pf != "" {
		// development aid: CPU profile of one worker
		if f, err := os.Create(pf); err == nil {
			pprof.StartCPUProfile(f)
			defer pprof.StopCPUProfile()
		}
	}
	sh, _ := strconv.Atoi(args[2])
	n, _ := strconv.Atoi(args[3])
	sd, _ := strconv.ParseInt(args[4], 10, 64)
	dl, _ := strconv.ParseInt(args[5], 10, 64)
	c := &Ctx{ID: args[0], Tier: args[1], Shard: sh, NShards: n, Seed: sd, Deadline: time.Unix(dl, 0)}
	if len(args) > 6 {
		c.Arg = args[6]
	}
	if rp := os.Getenv("VERIF_REPLAY_FILE"); rp != "" {
		b, err := os.ReadFile(rp)
		if err != nil {
			fmt.Fprintln(os.Stderr, err)
			os.Exit(2)
		}
		var f struct {
			Replay json.RawMessage `json:"replay"`
		}
		if err := json.Unmarshal(b, &f); err != nil {
			fmt.Fprintln(os.Stderr, err)
			os.Exit(2)
		}
		c.Replay = f.Replay
	}
	memWatchdog()
	r := NewResult()
	func() {
		defer func() {
			if p := recover(); p != nil {
				r.HarnessError("worker panic outside a guarded observation: %v\n%s", p, debug.Stack())
			}
		}()
		ck.Run(c, r)
	}()
	out := bufio.NewWriter(os.Stdout)
	enc := json.NewEncoder(out)
	fmt.Fprintln(out, "@@RESULT@@")
	if err := enc.Encode(r); err != nil {
		fmt.Fprintln(os.Stderr, "encode:", err)
		os.Exit(2)
	}
	out.Flush()
}

// memWatchdog makes an allocation runaway a contained harness failure
// instead of taking the sandbox down.
func memWatchdog() {
	limit := uint64(6) << 30
	if s := os.Getenv("VERIF_WORKER_MEM_GB"); s != "" {
		if v, err := strconv.Atoi(s); err == nil {
			limit = uint64(v) << 30
		}
	}
	debug.SetMemoryLimit(int64(limit * 3 / 4))
	go func() {
		var ms runtime.MemStats
		for {
			time.Sleep(500 * time.Millisecond)
			runtime.ReadMemStats(&ms)
			if ms.Sys > limit {
				fmt.Fprintf(os.Stderr, "worker exceeded memory bound (%d MiB)\n", ms.Sys>>20)
				os.Exit(97)
			}
		}
	}()
}

func runMain(args []string) int {
	if len(args) < 2 {
		usage()
	}
	id, tier := args[0], args[1]
	if tier != "quick" && tier != "thorough" {
		usage()
	}
	replay := ""
	for i := 2; i < len(args); i++ {
		if args[i] == "--replay" && i+1 < len(args) {
			replay = args[i+1]
			i++
		}
	}
	ck := registry[id]
	if ck == nil {
		fmt.Fprintf(os.Stderr, "unknown check %q (have %v)\n", id, ids())
		return 2
	}
	start := time.Now()
	self, _ := os.Executable()
	argv := []string{self}
	if ck.Pre != nil {
		a, err := ck.Pre(tier)
		if err != nil {
			fmt.Fprintf(os.Stderr, "HARNESS-ERROR property=%s pre-step failed: %v\n", id, err)
			return 3
		}
		if a != nil {
			argv = a
		}
	}
	n := runtime.NumCPU()
	if n > 16 {
		n = 16
	}
	if s := os.Getenv("VERIF_WORKERS"); s != "" {
		if v, err := strconv.Atoi(s); err == nil && v > 0 {
			n = v
		}
	}
	if ck.Shards != nil {
		if k := ck.Shards(tier); k > 0 {
			n = k
		}
	}
	if replay != "" {
		n = 1
	}
	sd := seed()
	budget := softBudget(tier)
	deadline := time.Now().Add(budget)
	results, errs := RunWorkers(argv, id, tier, n, sd, deadline, budget, replay, "")

	merged := NewResult()
	harness := []string{}
	for i, r := range results {
		if errs[i] != "" {
			harness = append(harness, errs[i])
		}
		if r == nil {
			merged.Exhaustive = false
			continue
		}
		mergeInto(merged, r)
	}
	if ck.Post != nil {
		ck.Post(tier, merged)
	}
	harness = append(harness, merged.HarnessErrors...)

	known, fixed := loadKnownFindings(id)
	exit := 0
	nviol := 0
	sort.Slice(merged.Violations, func(i, j int) bool { return merged.Violations[i].Key < merged.Violations[j].Key })
	var knownSeen []string
	for _, v := range merged.Violations {
		if what, ok := known[v.Key]; ok {
			fmt.Printf("KNOWN-FINDING: property=%s key=%s %s (%d states)\n", id, v.Key, what, v.Count)
			knownSeen = append(knownSeen, v.Key)
			continue
		}
		nviol++
		path := writeReplay(id, v)
		if _, was := fixed[v.Key]; was {
			fmt.Printf("REGRESSION of a fixed finding: key=%s\n", v.Key)
		}
		fmt.Printf("VIOLATION property=%s replay=%s\n", id, path)
		fmt.Printf("  key=%s count=%d\n  %s\n", v.Key, v.Count, strings.ReplaceAll(tail(v.Msg, 3000), "\n", "\n  "))
		exit = 1
	}
	if replay == "" {
		writeEvidence(ck, tier, sd, merged, nviol, knownSeen, time.Since(start).Seconds())
	}
	if len(harness) > 0 {
		for _, h := range harness {
			fmt.Printf("HARNESS-ERROR property=%s %s\n", id, h)
		}
		if exit == 0 {
			exit = 3
		}
	}
	fmt.Printf("%s %s: states=%d transitions=%d evaluations=%d nontrivial=%d outcomes=%d exhaustive=%v violations=%d known=%d wall=%.1fs\n",
		id, tier, merged.States, merged.Transitions, merged.Evaluations, merged.Nontrivial, len(merged.Outcomes),
		merged.Exhaustive, nviol, len(knownSeen), time.Since(start).Seconds())
	if len(merged.Caps) > 0 {
		fmt.Printf("  caps hit: %v\n", merged.Caps)
	}
	if len(merged.Uncovered) > 0 {
		fmt.Printf("  uncovered (reported, not violations): %v\n", merged.Uncovered)
	}
	return exit
}

// SoftBudget is the soft time budget of a tier; Seed is the run's seed.
func SoftBudget(tier string) time.Duration { return softBudget(tier) }
func Seed() int64                          { return seed() }

// Merge folds one worker result into m (counters add up, violations are
// de-duplicated by key, Bounds/Rule are taken from r when it has them).
func Merge(m, r *Result) { mergeInto(m, r) }

// RunWorkers launches n worker processes `argv… worker id tier i n seed
// deadline [arg]` and collects their results (nil where a worker failed; errs
// says why). It is what `run` does for every check; a check whose Pre/Post
// runs an additional exploration in another binary calls it as well.
func RunWorkers(argv []string, id, tier string, n int, sd int64, deadline time.Time, budget time.Duration, replay, arg string) ([]*Result, []string) {
	results := make([]*Result, n)
	errs := make([]string, n)
	var wg sync.WaitGroup
	for i := 0; i < n; i++ {
		wg.Add(1)
		go func(i int) {
			defer wg.Done()
			a := append(append([]string{}, argv[1:]...), "worker", id, tier, strconv.Itoa(i), strconv.Itoa(n),
				strconv.FormatInt(sd, 10), strconv.FormatInt(deadline.Unix(), 10))
			if arg != "" {
				a = append(a, arg)
			}
			cmd := exec.Command(argv[0], a...)
			cmd.Env = append(os.Environ(), "GOMAXPROCS=2")
			if replay != "" {
				cmd.Env = append(cmd.Env, "VERIF_REPLAY_FILE="+replay)
			}
			var stdout, stderr bytes.Buffer
			cmd.Stdout = &stdout
			cmd.Stderr = &stderr
			if err := cmd.Start(); err != nil {
				errs[i] = err.Error()
				return
			}
			done := make(chan error, 1)
			go func() { done <- cmd.Wait() }()
			hard := time.Until(deadline) + budget/2 + 2*time.Minute
			select {
			case err := <-done:
				if err != nil {
					errs[i] = fmt.Sprintf("worker %d: %v\n%s", i, err, tail(stderr.String(), 4000))
					return
				}
			case <-time.After(hard):
				cmd.Process.Kill()
				errs[i] = fmt.Sprintf("worker %d killed at hard deadline\n%s", i, tail(stderr.String(), 2000))
				return
			}
			s := stdout.String()
			k := strings.LastIndex(s, "@@RESULT@@\n")
			if k < 0 {
				errs[i] = fmt.Sprintf("worker %d: no result\n%s", i, tail(stderr.String(), 2000))
				return
			}
			r := NewResult()
			if err := json.Unmarshal([]byte(s[k+len("@@RESULT@@\n"):]), r); err != nil {
				errs[i] = fmt.Sprintf("worker %d: bad result: %v", i, err)
				return
			}
			results[i] = r
			if os.Getenv("VERIF_VERBOSE") != "" && stderr.Len() > 0 {
				fmt.Fprintf(os.Stderr, "[worker %d stderr]\n%s\n", i, tail(stderr.String(), 4000))
			}
		}(i)
	}
	wg.Wait()
	return results, errs
}

func tail(s string, n int) string {
	if len(s) <= n {
		return s
	}
	return s[:n/2] + "\n…\n" + s[len(s)-n/2:]
}

func mergeInto(m, r *Result) {
	m.States += r.States
	m.Transitions += r.Transitions
	m.Evaluations += r.Evaluations
	m.Nontrivial += r.Nontrivial
	for k, v := range r.Outcomes {
		m.Outcomes[k] += v
	}
	for k, v := range r.Counters {
		m.Counters[k] += v
	}
	for _, s := range r.Samples {
		m.Sample(s)
	}
	for _, v := range r.Violations {
		if o, ok := m.vkeys[v.Key]; ok {
			o.Count += v.Count
		} else {
			m.vkeys[v.Key] = v
			m.Violations = append(m.Violations, v)
		}
	}
	if !r.Exhaustive {
		m.Exhaustive = false
	}
	for _, c := range r.Caps {
		m.Cap(c)
	}
	for _, u := range r.Uncovered {
		dup := false
		for _, x := range m.Uncovered {
			if x == u {
				dup = true
			}
		}
		if !dup {
			m.Uncovered = append(m.Uncovered, u)
		}
	}
	m.HarnessErrors = append(m.HarnessErrors, r.HarnessErrors...)
	if r.Bounds != "" {
		m.Bounds = r.Bounds
	}
	if r.Rule != "" {
		m.Rule = r.Rule
	}
	for _, a := range r.Assumptions {
		dup := false
		for _, x := range m.Assumptions {
			if x == a {
				dup = true
			}
		}
		if !dup {
			m.Assumptions = append(m.Assumptions, a)
		}
	}
}

// loadKnownFindings reads /verif/KNOWN_FINDINGS.txt. It is only ever read.
//
//	known: property=C04 key=<signature> <what fails>
//	fixed: property=C03 <commit> key=<signature> <what failed>
func loadKnownFindings(id string) (known, fixed map[string]string) {
	known, fixed = map[string]string{}, map[string]string{}
	b, err := os.ReadFile(filepath.Join(VerifDir, "KNOWN_FINDINGS.txt"))
	if err != nil {
		return
	}
	for _, line := range strings.Split(string(b), "\n") {
		line = strings.TrimSpace(line)
		if line == "" || strings.HasPrefix(line, "#") {
			continue
		}
		var into map[string]string
		switch {
		case strings.HasPrefix(line, "known:"):
			into = known
			line = strings.TrimSpace(line[len("known:"):])
		case strings.HasPrefix(line, "fixed:"):
			into = fixed
			line = strings.TrimSpace(line[len("fixed:"):])
		default:
			continue
		}
		if !strings.HasPrefix(line, "property="+id+" ") {
			continue
		}
		k := strings.Index(line, "key=")
		if k < 0 {
			continue
		}
		rest := line[k+4:]
		key, what := rest, ""
		if sp := strings.IndexByte(rest, ' '); sp >= 0 {
			key, what = rest[:sp], strings.TrimSpace(rest[sp+1:])
		}
		into[key] = what
	}
	return
}

func writeReplay(id string, v *Violation) string {
	dir := filepath.Join(outDir(), "replays")
	os.MkdirAll(dir, 0o755)
	h := sha256.Sum256([]byte(v.Key))
	path := filepath.Join(dir, fmt.Sprintf("%s-%s.json", id, hex.EncodeToString(h[:6])))
	b, _ := json.MarshalIndent(map[string]interface{}{
		"property_id": id, "key": v.Key, "msg": v.Msg, "replay": v.Replay, "count": v.Count,
		"how_to_replay": fmt.Sprintf("cd /verif && ./check %s quick --replay %s", id, path),
	}, "", " ")
	os.WriteFile(path, b, 0o644)
	if v.GoTest != "" {
		os.WriteFile(strings.TrimSuffix(path, ".json")+"_test.go.txt", []byte(v.GoTest), 0o644)
	}
	return path
}

func writeEvidence(ck *Check, tier string, sd int64, m *Result, nviol int, knownSeen []string, wall float64) {
	dir := filepath.Join(outDir(), "evidence")
	os.MkdirAll(dir, 0o755)
	level := ck.Level
	if level == "" {
		level = "model_checking"
	}
	samples := m.Samples
	if len(samples) == 0 {
		samples = []interface{}{"(no state was reached: see harness errors)"}
	}
	outcomes := map[string]int64{}
	for k, v := range m.Outcomes {
		outcomes[k] = v
	}
	cov := map[string]interface{}{
		"states":                        max64(m.States, 0),
		"transitions":                   max64(m.Transitions, 0),
		"traces_validated_against_impl": m.States,
		"evaluations":                   m.Evaluations,
		"distinct_nontrivial":           m.Nontrivial,
		"rule":                          m.Rule,
		"samples":                       samples,
		"exhaustive":                    m.Exhaustive,
		"bounds_completed":              m.Bounds,
		"caps_hit":                      m.Caps,
		"distinct_outcome_classes":      len(outcomes),
		"outcome_classes":               outcomes,
		"counters":                      m.Counters,
		"uncovered":                     m.Uncovered,
		"known_findings_observed":       knownSeen,
		"technique":                     ck.Technique,
		"explanation":                   "every state is produced by running the real cockroachdb/errors code (no separate model of the library); the oracle is a reference model over the term that built the state",
	}
	assumptions := m.Assumptions
	if assumptions == nil {
		assumptions = []string{}
	}
	ev := map[string]interface{}{
		"property_id": ck.ID,
		"tier":        tier,
		"seed":        sd,
		"level":       level,
		"coverage":    cov,
		"assumptions": assumptions,
		"wall_s":      wall,
		"violations":  nviol,
	}
	b, _ := json.MarshalIndent(ev, "", " ")
	os.WriteFile(filepath.Join(dir, ck.ID+".json"), append(b, '\n'), 0o644)
}

func max64(a, b int64) int64 {
	if a > b {
		return a
	}
	return b
}
