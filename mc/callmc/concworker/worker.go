//go:build verifsched

// Package concworker explores the schedule dimension of check C16 (see
// verif/mc/callmc/conc): it is check "C16" of the binary build/mc-sched, the
// explorer linked against the INSTRUMENTED copy of the library (scheduling
// point before every library statement, verifsched shims for sync and
// sync/atomic). The parent side is verif/mc/callmc (Pre builds the binary and
// launches these workers beside the sequential one, Post merges their
// results into C16's).
//
// One execution of (scenario, variant v, schedule) is
//
//  1. prewarm, sequentially, scheduler inactive: the harness's neutral site
//     calls every function of the scenario (so that "the most recent caller"
//     is nobody of the scenario); if v > 0, thread v-1's own calls are then
//     made once, so that ITS site is the most recent caller;
//  2. the threads, under the scheduler, with the schedule's deviations from
//     run-to-completion;
//  3. the sequential re-check: every (site, function) of the scenario is
//     called once more, threads in rotation starting at thread v mod N (which
//     site is asked first decides whether it sees a stale entry another
//     site's re-check would overwrite).
//
// Oracle: every call of step 2 returns exactly what it returns when its
// thread runs alone (full rendering: domain, message, types, every frame of
// every stack), and what the reference model says (own package's domain, own
// site function as innermost frame); every call of step 3 satisfies the model
// and equals its free sequential baseline. No panic, no deadlock.
//
// Nothing is stored between executions; what the LIBRARY may store between
// executions is what steps 1 and 3 are about. A failing execution is
// re-executed failReplays times and must fail identically (else: harness
// error, not a violation).
package concworker

import (
	"crypto/sha256"
	"encoding/hex"
	"encoding/json"
	"fmt"
	"os"
	"os/exec"
	"runtime"
	"runtime/pprof"
	"strconv"
	"strings"
	"time"

	"github.com/cockroachdb/errors/verifsched"

	"verif/mc/callmc/conc"
	"verif/mc/core"
)

func init() {
	core.Register(&core.Check{ID: "C16", Technique: conc.Technique, Run: Run})
}

const failReplays = 5

// cold pass: blind round-robin quanta, fresh-process confirmations.
var coldQ = []int{1, 2, 3, 5}

const coldConfirmations = 3

type soloInfo struct {
	res   []string // full rendering per call
	steps int
	ok    bool
}

type siteRef struct {
	thread int
	call   int // index in the thread's Calls of the first use of that function
	fn     int
}

type explorer struct {
	c *core.Ctx
	r *core.Result

	solo map[string]*soloInfo
	free map[string]string // (site, fn) -> innermost-frame rendering of a free sequential call

	// current scenario
	threads   []conc.Thread
	name      string
	rel       string
	family    string
	variant   int
	bound     int
	symmetric bool
	fns       []int // distinct functions, ascending
	outs      [][]conc.Out
	bodies    []func()
	want      [][]string
	wantSteps []int
	sites     [][]siteRef // per thread: distinct functions in call order
	after     []string    // renderings of the re-check, in the order made
	afterRef  []siteRef
	execs     []*verifsched.Exec
	tuples    map[string]int64

	// best witness per violation key (fewest preemptions, then shortest
	// schedule), flushed into r at the end: which one is reported does not
	// depend on the order units are explored in.
	wit map[string]*witness

	stopped  bool
	sampled  bool
	execsRun int64
}

type witness struct {
	key, msg string
	payload  conc.Replay
	count    int64
	order    int
}

func better(a, b *conc.Replay) bool {
	if a.Preemptions != b.Preemptions {
		return a.Preemptions < b.Preemptions
	}
	if len(a.Threads) != len(b.Threads) {
		return len(a.Threads) < len(b.Threads)
	}
	ca, cb := 0, 0
	for _, t := range a.Threads {
		ca += len(t.Calls)
	}
	for _, t := range b.Threads {
		cb += len(t.Calls)
	}
	if ca != cb {
		return ca < cb
	}
	return len(a.Schedule) < len(b.Schedule)
}

// flush hands the witnesses to the result.
func (e *explorer) flush() {
	ws := make([]*witness, 0, len(e.wit))
	for _, w := range e.wit {
		ws = append(ws, w)
	}
	for i := 1; i < len(ws); i++ {
		for j := i; j > 0 && ws[j].order < ws[j-1].order; j-- {
			ws[j], ws[j-1] = ws[j-1], ws[j]
		}
	}
	for _, w := range ws {
		e.r.Violate(w.key, w.msg, w.payload)
		for _, v := range e.r.Violations {
			if v.Key == w.key {
				v.Count = w.count
			}
		}
	}
	e.wit = map[string]*witness{}
}

func (e *explorer) stop() bool {
	if e.stopped {
		return true
	}
	if e.c.Expired() {
		e.stopped = true
		e.r.Cap("soft deadline reached: schedule exploration stopped, completed part reported")
	}
	return e.stopped
}

// runThread is the body of managed thread i.
//
//go:noinline
func (e *explorer) runThread(i int) {
	t := &e.threads[i]
	for k := range t.Calls {
		e.outs[i][k] = conc.Call(t, k)
	}
}

// setThreads installs the threads (bodies, slots, re-check list) without
// computing expectations.
func (e *explorer) setThreads(ts []conc.Thread) {
	e.threads = ts
	e.name = (&conc.Scenario{Threads: ts}).Name()
	e.rel = conc.Relation(ts)
	e.family = conc.Family(ts)
	e.symmetric = len(ts) > 1 && conc.Symmetric(ts)
	n := len(ts)
	e.outs = make([][]conc.Out, n)
	e.bodies = make([]func(), n)
	e.sites = make([][]siteRef, n)
	seen := map[int]bool{}
	e.fns = e.fns[:0]
	for i := range ts {
		e.outs[i] = make([]conc.Out, len(ts[i].Calls))
		i := i
		e.bodies[i] = func() { e.runThread(i) }
		mine := map[int]bool{}
		for k, fn := range ts[i].Calls {
			if !mine[fn] {
				mine[fn] = true
				e.sites[i] = append(e.sites[i], siteRef{i, k, fn})
			}
			if !seen[fn] {
				seen[fn] = true
				e.fns = append(e.fns, fn)
			}
		}
	}
	for i := 1; i < len(e.fns); i++ {
		for j := i; j > 0 && e.fns[j] < e.fns[j-1]; j-- {
			e.fns[j], e.fns[j-1] = e.fns[j-1], e.fns[j]
		}
	}
}

// setScenario installs the threads and their solo expectations.
func (e *explorer) setScenario(ts []conc.Thread, variant int) bool {
	solos := make([]*soloInfo, len(ts))
	for i := range ts {
		solos[i] = e.soloOf(ts[i])
		if !solos[i].ok {
			return false
		}
	}
	e.setThreads(ts)
	e.variant = variant
	e.want = make([][]string, len(ts))
	e.wantSteps = make([]int, len(ts))
	for i, s := range solos {
		e.want[i], e.wantSteps[i] = s.res, s.steps
	}
	e.tuples = map[string]int64{}
	return true
}

// prewarm is step 1.
func (e *explorer) prewarm() {
	for _, fn := range e.fns {
		conc.Neutral(fn)
	}
	if e.variant > 0 && e.variant <= len(e.threads) {
		t := &e.threads[e.variant-1]
		for k := range t.Calls {
			conc.Call(t, k)
		}
	}
}

// recheck is step 3.
func (e *explorer) recheck() {
	e.after, e.afterRef = e.after[:0], e.afterRef[:0]
	n := len(e.threads)
	for d := 0; d < n; d++ {
		i := (e.variant + d) % n
		for _, s := range e.sites[i] {
			o := conc.Call(&e.threads[i], s.call)
			e.after = append(e.after, conc.Render(o, false))
			e.afterRef = append(e.afterRef, s)
			if why := conc.Model(&e.threads[i], s.fn, o); why != "" {
				e.after[len(e.after)-1] = "MODEL: " + why + " — " + e.after[len(e.after)-1]
			}
			e.r.Count("concurrent_sequential_rechecks", 1)
		}
	}
}

// run is one execution (steps 1–3).
func (e *explorer) run(devs []verifsched.Dev, x *verifsched.Exec) {
	e.prewarm()
	e.runRaw(devs, x)
	e.recheck()
}

// runRaw is step 2 alone.
func (e *explorer) runRaw(devs []verifsched.Dev, x *verifsched.Exec) {
	for i := range e.outs {
		for k := range e.outs[i] {
			e.outs[i][k] = conc.Out{}
		}
	}
	verifsched.Run(e.bodies, devs, x)
	e.execsRun++
}

func (e *explorer) exec(depth int) *verifsched.Exec {
	for len(e.execs) <= depth {
		e.execs = append(e.execs, &verifsched.Exec{})
	}
	return e.execs[depth]
}

func (e *explorer) rendered() [][]string {
	res := make([][]string, len(e.outs))
	for i := range e.outs {
		res[i] = make([]string, len(e.outs[i]))
		for k := range e.outs[i] {
			res[i][k] = conc.Render(e.outs[i][k], true)
		}
	}
	return res
}

func freeKey(t *conc.Thread, fn int) string { return fmt.Sprintf("%d/%d/%d", t.Pkg, t.Site, fn) }

// freeOf is the baseline of the sequential re-check: (site, function) called
// sequentially with the scheduler inactive.
func (e *explorer) freeOf(t *conc.Thread, call int) string {
	k := freeKey(t, t.Calls[call])
	if s, ok := e.free[k]; ok {
		return s
	}
	s := conc.Render(conc.Call(t, call), false)
	e.free[k] = s
	return s
}

// soloOf computes (once) what a thread's calls return when the thread runs
// alone under the scheduler, checks it against the reference model, against
// a second and third run, and against a free run.
func (e *explorer) soloOf(t conc.Thread) *soloInfo {
	key := t.String()
	if s := e.solo[key]; s != nil {
		return s
	}
	s := &soloInfo{}
	e.solo[key] = s
	e.setThreads([]conc.Thread{t})
	e.variant = 0
	var x verifsched.Exec
	var first []string
	var steps [3]int
	for rep := 0; rep < 3; rep++ {
		e.prewarm()
		e.runRaw(nil, &x)
		e.r.Count("concurrent_solo_runs", 1)
		if x.Err != "" || x.Deadlock {
			e.r.HarnessError("C16 concurrent: solo run of %s: scheduler error %q deadlock=%v", key, x.Err, x.Deadlock)
			return s
		}
		if x.Panics[0] != "" {
			fn := firstUnfinished(e.outs[0], t)
			e.r.Violate("concurrent-panic|"+fn+"|alone", fmt.Sprintf("thread %s panics even when run alone: %s", key, conc.Short(x.Panics[0], 1500)),
				conc.Replay{Concurrent: true, Threads: []conc.Thread{t}})
			return s
		}
		res := e.rendered()[0]
		for k, fn := range t.Calls {
			if why := conc.Model(&e.threads[0], fn, e.outs[0][k]); why != "" {
				e.r.Violate("concurrent|"+conc.Funcs[fn]+"|alone", fmt.Sprintf("thread %s run ALONE (sequentially, no other thread): call %d (%s): %s", key, k, conc.Funcs[fn], why),
					conc.Replay{Concurrent: true, Threads: []conc.Thread{t}})
				return s
			}
		}
		steps[rep] = x.Steps[0]
		if rep == 0 {
			first = res
		} else if strings.Join(res, "\x01") != strings.Join(first, "\x01") {
			e.r.HarnessError("C16 concurrent: solo run of %s is not deterministic:\n  %v\n  %v", key, res, first)
			return s
		}
		if rep == 1 && steps[1] == steps[0] {
			steps[2] = steps[1]
			break
		}
	}
	if steps[2] != steps[1] {
		e.r.HarnessError("C16 concurrent: solo run of %s: step count not stable after warm-up: %v", key, steps)
		return s
	}
	// free run: instrumentation must not change what is attributed.
	for k := range t.Calls {
		free := e.freeOf(&e.threads[0], k)
		if under := conc.Render(e.outs[0][k], false); under != free {
			e.r.HarnessError("C16 concurrent: %s call %d: result under the scheduler differs from the free run:\n  %s\n  %s", key, k, under, free)
			return s
		}
	}
	s.res, s.steps, s.ok = first, steps[2], true
	if os.Getenv("VERIF_VERBOSE") != "" {
		fmt.Fprintf(os.Stderr, "solo %-60s %5d points\n", key, s.steps)
	}
	return s
}

func firstUnfinished(outs []conc.Out, t conc.Thread) string {
	for k, o := range outs {
		if !o.Done {
			return conc.Funcs[t.Calls[k]]
		}
	}
	return conc.Funcs[t.Calls[len(t.Calls)-1]]
}

func toDevs(d []conc.Dev) []verifsched.Dev {
	out := make([]verifsched.Dev, len(d))
	for i, v := range d {
		out[i] = verifsched.Dev{At: v.At, Choice: v.Choice}
	}
	return out
}

func fromDevs(d []verifsched.Dev) []conc.Dev {
	out := make([]conc.Dev, len(d))
	for i, v := range d {
		out[i] = conc.Dev{At: v.At, Choice: v.Choice}
	}
	return out
}

// describe renders a schedule through the switches of its execution.
func (e *explorer) describe(x *verifsched.Exec) string {
	var b strings.Builder
	for _, s := range x.Switches {
		if s.From < 0 {
			fmt.Fprintf(&b, "  start with T%d\n", s.To)
			continue
		}
		kind := "finished"
		if s.Preempt {
			kind = "PREEMPTED"
		}
		fmt.Fprintf(&b, "  decision %d: T%d %s after its step %d → T%d\n", s.At, s.From, kind, s.FromSteps, s.To)
	}
	return b.String()
}

// failure classifies the execution just run; clause "" = passes.
func (e *explorer) failure(x *verifsched.Exec, res [][]string) (clause, fn, msg string) {
	if x.Deadlock {
		return "concurrent-deadlock", "", fmt.Sprintf("threads %v blocked with no enabled thread", x.Blocked)
	}
	for i, p := range x.Panics {
		if p != "" {
			return "concurrent-panic", firstUnfinished(e.outs[i], e.threads[i]), fmt.Sprintf("T%d panicked: %s", i, conc.Short(p, 1500))
		}
	}
	for i := range res {
		for k := range res[i] {
			f := e.threads[i].Calls[k]
			why := conc.Model(&e.threads[i], f, e.outs[i][k])
			if res[i][k] != e.want[i][k] || why != "" {
				if why == "" {
					why = "differs from the solo result (the reference model is satisfied)"
				}
				return "concurrent", conc.Funcs[f], fmt.Sprintf("T%d = %s, call %d (%s): %s\n  returned\n    %s\n  alone it returns\n    %s",
					i, e.threads[i].String(), k, conc.Funcs[f], why, conc.Short(res[i][k], 700), conc.Short(e.want[i][k], 700))
			}
		}
	}
	for j, got := range e.after {
		s := e.afterRef[j]
		want := e.freeOf(&e.threads[s.thread], s.call)
		if got != want {
			return "concurrent-persistent", conc.Funcs[s.fn], fmt.Sprintf("every call made by the threads returned the right result, but the state left behind is wrong: "+
				"the sequential re-check AFTER the execution (re-check number %d, %s calling %s with no other thread running) returned\n    %s\n  before the execution the same call returned\n    %s",
				j, e.threads[s.thread].SiteName(), conc.Funcs[s.fn], conc.Short(got, 700), conc.Short(want, 700))
		}
	}
	return "", "", ""
}

func (e *explorer) key(clause, fn string) string {
	if fn == "" {
		return clause + "|" + e.rel
	}
	return clause + "|" + fn + "|" + e.rel
}

func (e *explorer) payload(devs []verifsched.Dev, preemptions int) conc.Replay {
	return conc.Replay{Concurrent: true, Threads: e.threads, Variant: e.variant, Schedule: fromDevs(devs), Preemptions: preemptions}
}

func (e *explorer) variantText() string {
	n := len(e.threads)
	pre := "the harness's neutral site was the last caller of each function before the threads started"
	if e.variant > 0 {
		pre = fmt.Sprintf("T%d's own site was the last caller before the threads started", e.variant-1)
	}
	return fmt.Sprintf("variant %d (%s; the sequential re-check starts with T%d)", e.variant, pre, e.variant%n)
}

// check applies the oracle to the execution just run with devs.
func (e *explorer) check(x *verifsched.Exec, devs []verifsched.Dev) {
	r := e.r
	if x.Err != "" {
		r.HarnessError("C16 concurrent: %s schedule %v: scheduler error: %s", e.name, devs, x.Err)
		return
	}
	res := e.rendered()
	clause, fn, msg := e.failure(x, res)
	if clause == "" {
		e.tuples["as-alone"]++
		for i := range x.Steps {
			if e.wantSteps[i] != x.Steps[i] {
				r.Count("concurrent_executions_with_step_count_unlike_solo", 1)
				break
			}
		}
		return
	}
	flat := func(res [][]string, after []string) string {
		var b strings.Builder
		for _, t := range res {
			b.WriteString(strings.Join(t, "\x01"))
			b.WriteString("\x02")
		}
		b.WriteString(strings.Join(after, "\x01"))
		return b.String()
	}
	obs := flat(res, e.after)
	h := sha256.Sum256([]byte(obs))
	e.tuples["differs-"+hex.EncodeToString(h[:3])]++
	key := e.key(clause, fn)
	r.Count(fmt.Sprintf("concurrent_failing_executions_with_%d_preemptions", x.Preemptions), 1)
	sched := append([]verifsched.Dev{}, devs...)
	pl := e.payload(sched, x.Preemptions)
	w := e.wit[key]
	if w != nil {
		w.count++
		if !better(&pl, &w.payload) {
			return
		}
	}
	full := fmt.Sprintf("threads: %s; %s; %d preemption(s); schedule (deviations from run-to-completion) %v:\n%s  %s",
		e.name, e.variantText(), x.Preemptions, sched, e.describe(x), msg)
	// self-check: the failing execution must fail the same way every time.
	steps := fmt.Sprint(x.Steps)
	var y verifsched.Exec
	for rep := 0; rep < failReplays; rep++ {
		e.run(sched, &y)
		r.Count("concurrent_failure_replays", 1)
		res2 := e.rendered()
		c2, f2, _ := e.failure(&y, res2)
		same := c2 == clause && f2 == fn && y.Err == "" && fmt.Sprint(y.Steps) == steps
		if clause != "concurrent-panic" && flat(res2, e.after) != obs {
			same = false
		}
		if !same {
			r.HarnessError("C16 concurrent: %s %s: failing schedule %v does not replay identically (replay %d: clause %q/%q vs %q/%q, steps %v vs %v, err %q): NOT reported as violation",
				e.name, e.variantText(), sched, rep+1, c2, f2, clause, fn, y.Steps, steps, y.Err)
			if w != nil {
				w.count--
			}
			return
		}
	}
	if w == nil {
		e.wit[key] = &witness{key: key, msg: full, payload: pl, count: 1, order: len(e.wit)}
		return
	}
	w.msg, w.payload = full, pl
}

// account adds one execution to the evidence.
func (e *explorer) account(x *verifsched.Exec, devs []verifsched.Dev) {
	r := e.r
	r.States++
	r.Evaluations += int64(len(e.after))
	for i := range e.outs {
		r.Evaluations += int64(len(e.outs[i]))
	}
	r.Transitions += int64(x.N)
	if x.Preemptions > 0 {
		r.Nontrivial++
	}
	r.Count("concurrent_executions", 1)
	r.Count(fmt.Sprintf("concurrent_executions_%dthreads_with_%d_preemptions", len(e.threads), x.Preemptions), 1)
	if !e.sampled && x.Preemptions >= 2 && len(e.threads[0].Calls) > 1 {
		e.sampled = true
		r.Sample(map[string]interface{}{"schedule_dimension": e.name, "variant": e.variantText(), "schedule": fromDevs(devs), "switches": strings.TrimSpace(e.describe(x)),
			"decisions": x.N, "steps_per_thread": append([]int{}, x.Steps...), "observations": e.rendered(), "sequential_recheck": append([]string{}, e.after...)})
	}
}

// explore is iterative preemption bounding: run the schedule given by its
// deviations, then branch at every later decision whose deviation is
// affordable (deviating where the running thread cannot continue is free).
func (e *explorer) explore(devs []verifsched.Dev, cost, depth int) {
	if e.stop() {
		return
	}
	x := e.exec(depth)
	e.run(devs, x)
	e.account(x, devs)
	e.check(x, devs)
	if x.Err != "" {
		return
	}
	if depth == 0 {
		// determinism self-check on a passing path as well: the root
		// schedule twice.
		steps, n, obs := fmt.Sprint(x.Steps), x.N, fmt.Sprint(e.rendered(), e.after)
		var y verifsched.Exec
		e.run(devs, &y)
		if fmt.Sprint(y.Steps) != steps || y.N != n || fmt.Sprint(e.rendered(), e.after) != obs {
			e.r.HarnessError("C16 concurrent: %s %s: the run-to-completion schedule is not deterministic (steps %v vs %s)", e.name, e.variantText(), y.Steps, steps)
			return
		}
		e.r.Count("concurrent_root_determinism_replays", 1)
		e.run(devs, x) // x is read below
	}
	start := 0
	if len(devs) > 0 {
		start = devs[len(devs)-1].At + 1
	}
	branch := func(i int) {
		info := x.Info[i]
		n := int(info >> 1)
		c := cost + int(info&1)
		if c > e.bound {
			return
		}
		if i == 0 && e.symmetric {
			return
		}
		for alt := 1; alt < n; alt++ {
			e.explore(append(append(make([]verifsched.Dev, 0, len(devs)+1), devs...), verifsched.Dev{At: i, Choice: alt}), c, depth+1)
			if e.stopped {
				return
			}
		}
	}
	if cost >= e.bound {
		for _, i := range x.Free {
			if i >= start {
				branch(i)
			}
		}
		return
	}
	for i := start; i < x.N && !e.stopped; i++ {
		branch(i)
	}
}

// Cost caps: a unit is explored to the largest bound b ≤ its nominal bound
// for which P^b/b! ≤ cap, P = the threads' solo point counts added up (about
// the number of executions with b preemptions of two threads). Only
// domains.Handled(plain-cause), whose barrier renders its cause through the
// library's formatting machinery (≈600 points that have nothing to do with
// attribution), is ever affected.
const (
	quickCostCap    = 30_000
	thoroughCostCap = 150_000
)

func effectiveBound(nominal int, steps []int, thorough bool) int {
	p := 0.0
	for _, s := range steps {
		p += float64(s)
	}
	limit := float64(quickCostCap)
	if thorough {
		limit = thoroughCostCap
	}
	b := nominal
	for b > 1 {
		est := 1.0
		for k := 1; k <= b; k++ {
			est *= p / float64(k)
		}
		if len(steps) > 2 {
			est *= float64(int(1) << uint(b)) // two alternatives per preemption
		}
		if est <= limit {
			break
		}
		b--
	}
	return b
}

// runUnit explores one (scenario, variant).
func (e *explorer) runUnit(sc *conc.Scenario, variant int) bool {
	if !e.setScenario(sc.Threads, variant) {
		return false
	}
	e.bound = effectiveBound(sc.Bound, e.wantSteps, e.c.Thorough())
	if e.bound < sc.Bound {
		e.r.Count(fmt.Sprintf("concurrent_units_bound_lowered_to_%d_by_cost_cap", e.bound), 1)
	}
	e.r.Count(fmt.Sprintf("concurrent_units_at_bound_%d", e.bound), 1)
	e.explore(nil, 0, 0)
	for t, n := range e.tuples {
		e.r.Outcomes[fmt.Sprintf("concurrent|%s|%s|%s", e.family, e.rel, t)] += n
	}
	return !e.stopped
}

// Run is the worker body.
func Run(c *core.Ctx, r *core.Result) {
	runtime.GOMAXPROCS(1)
	// VERIF_C16_PROF=<file>: CPU profile of this worker (tuning aid only).
	if f := os.Getenv("VERIF_C16_PROF"); f != "" {
		if w, err := os.Create(f); err == nil {
			pprof.StartCPUProfile(w)
			defer pprof.StopCPUProfile()
		}
	}
	conc.CacheStacks = true
	e := &explorer{c: c, r: r, solo: map[string]*soloInfo{}, free: map[string]string{}, wit: map[string]*witness{}}
	defer e.flush()
	if c.Replay != nil {
		replay(e, c, r)
		return
	}
	// first-use executions: before anything else touches the library.
	e.coldPass()
	for _, h := range conc.SelfCheck() {
		r.HarnessError("%s", h)
	}
	thorough := c.Thorough()
	scs := conc.Scenarios(thorough)
	var idx int64
	units, done := 0, 0
	perClass := map[string]int{}
	for _, sc := range scs {
		perClass[sc.Class]++
		for v := 0; v <= len(sc.Threads); v++ {
			mine := c.Mine(idx)
			idx++
			if !mine {
				continue
			}
			units++
			if e.stop() {
				continue
			}
			if e.runUnit(sc, v) {
				done++
				r.Count("concurrent_units_completed", 1)
				r.Count(fmt.Sprintf("concurrent_units_completed_%dthreads", len(sc.Threads)), 1)
			}
		}
	}
	r.Count("concurrent_units_assigned", int64(units))
	r.Count("concurrent_executions_including_solo_and_replays", e.execsRun)
	if c.Shard == 0 {
		r.Count("concurrent_scenarios", int64(len(scs)))
		r.Count("concurrent_units_total", idx)
		for k, n := range perClass {
			r.Count("concurrent_scenarios_"+k, int64(n))
		}
	}
	bound := conc.QuickBound
	if thorough {
		bound = conc.ThoroughBound
	}
	r.Bounds = fmt.Sprintf("%d scenarios (%d functions through identical site files in 4 packages; classes S1 single calls from two packages, every unordered function pair; "+
		"S2 same site twice in one thread vs one call; S3 twice vs twice; S4 two different calls each, same and opposite order; S5 two threads through the same site function; S6 two sites of one package%s) "+
		"× (threads+1) prewarm/re-check variants = %d units, each explored exhaustively up to preemption bound %d%s, lowered (never below 1) where (sum of the threads' solo points)^b/b! exceeds %d — "+
		"in practice the units containing domains.Handled(plain-cause), ≈600 points of cause formatting, which takes part in S1/S5/S6 only (counters concurrent_units_at_bound_*, concurrent_units_bound_lowered_to_*); sharded over %d workers",
		len(scs), len(conc.Funcs), map[bool]string{true: "; S7 three threads", false: ""}[thorough], idx, bound,
		map[bool]string{true: " (three threads that all capture stacks: bound 2)", false: ""}[thorough],
		map[bool]int{true: thoroughCostCap, false: quickCostCap}[thorough], c.NShards)
}

// ---- first-use ("cold") executions -------------------------------------

type coldRun struct {
	threads []conc.Thread
	outs    [][]conc.Out
	after   []string
	aref    []siteRef
	x       verifsched.Exec
	devs    []verifsched.Dev
	descr   string
}

func roundRobin(q int) []verifsched.Dev {
	var d []verifsched.Dev
	for at := q; at < 4000; at += q {
		d = append(d, verifsched.Dev{At: at, Choice: 1})
	}
	return d
}

func strictSchedule(x *verifsched.Exec) []verifsched.Dev {
	var d []verifsched.Dev
	for _, s := range x.Switches {
		if s.From < 0 && s.To != 0 {
			d = append(d, verifsched.Dev{At: 0, Choice: s.To})
		}
		if s.Preempt {
			d = append(d, verifsched.Dev{At: s.At, Choice: s.Choice})
		}
	}
	return d
}

// runCold executes the threads with no prewarm; the caller guarantees that
// nothing has used these sites (for the first one: the library) before.
func (e *explorer) runCold(ts []conc.Thread, devs []verifsched.Dev, lenient bool) *coldRun {
	e.setThreads(ts)
	e.variant = 0
	cr := &coldRun{threads: ts}
	verifsched.Lenient = lenient
	e.runRaw(devs, &cr.x)
	verifsched.Lenient = false
	e.recheck()
	cr.outs = e.outs
	cr.after, cr.aref = append([]string{}, e.after...), append([]siteRef{}, e.afterRef...)
	cr.devs = strictSchedule(&cr.x)
	cr.descr = e.describe(&cr.x)
	if cr.x.Err != "" {
		e.r.HarnessError("C16 concurrent: cold execution of %s: scheduler error: %s", e.name, cr.x.Err)
		return nil
	}
	return cr
}

// judge compares a cold execution with the solo results (computed now, in a
// warm process) and the model.
func (e *explorer) judge(cr *coldRun) (clause, fn, msg string) {
	var want [][]string
	for _, t := range cr.threads {
		s := e.soloOf(t)
		if !s.ok {
			return "", "", ""
		}
		want = append(want, s.res)
	}
	e.setThreads(cr.threads)
	e.outs, e.want = cr.outs, want
	e.after, e.afterRef = cr.after, cr.aref
	res := e.rendered()
	return e.failure(&cr.x, res)
}

func (e *explorer) coldMessage(cr *coldRun, msg string) string {
	return fmt.Sprintf("FIRST USE in a fresh process (no baseline, nothing prewarmed): threads: %s; %d preemption(s); schedule %v:\n%s  %s",
		(&conc.Scenario{Threads: cr.threads}).Name(), cr.x.Preemptions, cr.devs, cr.descr, msg)
}

// coldPass must be the first thing a worker does: one two-thread execution
// per function through the Site2 sites (which nothing else uses before), with
// a blind round-robin schedule; the first one is also the process's first use
// of the library.
func (e *explorer) coldPass() {
	r := e.r
	nf := len(conc.Funcs)
	var runs []*coldRun
	for j := 0; j < nf; j++ {
		f := (j + e.c.Shard) % nf
		g := f
		if (e.c.Shard/4)%2 == 1 {
			g = (f + 1 + e.c.Shard/8) % nf
		}
		pa, pb := (e.c.Shard+j)%4, (e.c.Shard+j+1+j%3)%4
		q := coldQ[(e.c.Shard+j+int(e.c.Seed%1000))%len(coldQ)]
		ts := []conc.Thread{{Pkg: pa, Site: 1, Calls: []int{f}}, {Pkg: pb, Site: 1, Calls: []int{g}}}
		if cr := e.runCold(ts, roundRobin(q), true); cr != nil {
			runs = append(runs, cr)
		}
	}
	for _, cr := range runs {
		r.States++
		r.Transitions += int64(cr.x.N)
		r.Evaluations += int64(len(cr.after) + len(cr.threads))
		if cr.x.Preemptions > 0 {
			r.Nontrivial++
		}
		r.Count("concurrent_cold_first_use_executions", 1)
		clause, fn, msg := e.judge(cr)
		if clause == "" {
			r.Outcomes["concurrent|cold-first-use|as-alone"]++
			continue
		}
		r.Outcomes["concurrent|cold-first-use|differs"]++
		key := e.key(clause, fn) + "|first-use"
		payload := conc.Replay{Concurrent: true, Cold: true, Threads: cr.threads, Schedule: fromDevs(cr.devs)}
		if !r.HasViolationKey(key) {
			if ok, why := confirmCold(e.c, payload, key); !ok {
				r.HarnessError("C16 concurrent: %s: failing first-use execution is not confirmed by fresh-process replays (%s): NOT reported as violation", e.name, why)
				continue
			}
		}
		r.Violate(key, e.coldMessage(cr, msg), payload)
	}
}

// confirmCold replays a cold execution in fresh worker processes.
func confirmCold(c *core.Ctx, p conc.Replay, key string) (bool, string) {
	self, err := os.Executable()
	if err != nil {
		return false, err.Error()
	}
	f, err := os.CreateTemp("", "c16-cold-*.json")
	if err != nil {
		return false, err.Error()
	}
	defer os.Remove(f.Name())
	json.NewEncoder(f).Encode(map[string]interface{}{"replay": p})
	f.Close()
	for i := 0; i < coldConfirmations; i++ {
		cmd := exec.Command(self, "worker", c.ID, c.Tier, "0", "1", strconv.FormatInt(c.Seed, 10),
			strconv.FormatInt(time.Now().Add(time.Minute).Unix(), 10))
		cmd.Env = append(os.Environ(), "VERIF_REPLAY_FILE="+f.Name())
		out, err := cmd.Output()
		if err != nil {
			return false, fmt.Sprintf("replay process: %v", err)
		}
		s := string(out)
		k := strings.LastIndex(s, "@@RESULT@@\n")
		if k < 0 {
			return false, "replay process: no result"
		}
		var res struct {
			Violations []struct {
				Key string `json:"key"`
			} `json:"violations"`
			HarnessErrors []string `json:"harness_errors"`
		}
		if err := json.Unmarshal([]byte(s[k+len("@@RESULT@@\n"):]), &res); err != nil {
			return false, err.Error()
		}
		found := false
		for _, v := range res.Violations {
			if v.Key == key {
				found = true
			}
		}
		if !found {
			return false, fmt.Sprintf("replay %d of %d passes (harness errors there: %v)", i+1, coldConfirmations, res.HarnessErrors)
		}
	}
	return true, ""
}

// ---- replay --------------------------------------------------------------

func replay(e *explorer, c *core.Ctx, r *core.Result) {
	var p conc.Replay
	if err := json.Unmarshal(c.Replay, &p); err != nil || !p.Concurrent {
		r.HarnessError("C16 concurrent: bad replay payload (%v): %s", err, conc.Short(string(c.Replay), 300))
		return
	}
	if p.RacePass {
		tier := p.Tier
		if tier == "" {
			tier = c.Tier
		}
		conc.RacePass(tier, r)
		r.States, r.Evaluations = 1, 1
		return
	}
	if len(p.Threads) == 0 || len(p.Threads) > 4 || p.Variant < 0 || p.Variant > len(p.Threads) {
		r.HarnessError("C16 concurrent: replay names no valid scenario")
		return
	}
	for _, t := range p.Threads {
		if !t.Valid() {
			r.HarnessError("C16 concurrent: replay names an unknown thread %+v", t)
			return
		}
	}
	devs := toDevs(p.Schedule)
	if p.Cold {
		// the replay worker is a fresh process and this is the first
		// thing it does.
		cr := e.runCold(p.Threads, devs, false)
		if cr == nil {
			return
		}
		r.States, r.Transitions = 1, int64(cr.x.N)
		r.Bounds = fmt.Sprintf("replay of one first-use schedule of %s: %v", e.name, p.Schedule)
		if clause, fn, msg := e.judge(cr); clause != "" {
			r.Violate(e.key(clause, fn)+"|first-use", e.coldMessage(cr, msg), p)
		}
		return
	}
	if len(p.Threads) == 1 {
		// a thread that is wrong alone: soloOf reports it.
		e.soloOf(p.Threads[0])
		r.States = 1
		r.Bounds = "replay of one thread alone: " + p.Threads[0].String()
		return
	}
	if !e.setScenario(p.Threads, p.Variant) {
		return
	}
	x := e.exec(0)
	e.run(devs, x)
	e.bound = x.Preemptions
	e.account(x, devs)
	// replaying a recorded schedule twice must give identical observations.
	steps, obs := fmt.Sprint(x.Steps), fmt.Sprint(e.rendered(), e.after)
	var y verifsched.Exec
	e.run(devs, &y)
	if y.Err == "" && len(y.Panics) == len(x.Panics) && noPanic(&y) && (fmt.Sprint(y.Steps) != steps || fmt.Sprint(e.rendered(), e.after) != obs) {
		r.HarnessError("C16 concurrent: replaying %s %v twice gives different observations", e.name, p.Schedule)
		return
	}
	e.run(devs, x)
	e.check(x, devs)
	r.Sample(map[string]interface{}{"replayed": e.name, "variant": e.variant, "schedule": p.Schedule, "switches": strings.TrimSpace(e.describe(x)),
		"observations": e.rendered(), "sequential_recheck": e.after})
	r.Bounds = fmt.Sprintf("replay of one schedule of %s, %s: %v", e.name, e.variantText(), p.Schedule)
}

func noPanic(x *verifsched.Exec) bool {
	for _, p := range x.Panics {
		if p != "" {
			return false
		}
	}
	return true
}
