package conc

// The auxiliary -race pass of C16's schedule dimension.
//
// The cooperative scheduler's hand-offs are happens-before edges: a data race
// on something the constructors share is invisible to it. The same thread
// bodies (conc.Call through the sites of p0..p3) therefore also run FREE —
// 16 goroutines, real parallelism, uninstrumented library — in the -race
// binary build/mc-race, mode `mc-race c16 <tier>` (RaceMain below). The parent
// (RacePass / StartRace) runs several fresh processes of it and turns every
// race report into a violation `data-race|<library function>`; results are
// also compared with the reference model and a sequential baseline, which is
// the only thing that can see a defect that is no data race (e.g. a pair of
// atomics that is torn). This is a dynamic analysis, not an enumeration.

import (
	"bytes"
	"encoding/json"
	"fmt"
	"os"
	"os/exec"
	"path/filepath"
	"regexp"
	"strings"
	"sync"
	"time"

	"verif/mc/core"
	"verif/mc/schedmc"
)

const raceGoroutines = 16

// RaceSummary is what one `mc-race c16` process prints.
type RaceSummary struct {
	Goroutines int            `json:"goroutines"`
	Rounds     int            `json:"rounds"`
	Iterations int            `json:"iterations"`
	ColdCalls  int64          `json:"cold_calls"`
	Calls      int64          `json:"calls"`
	Mismatches []RaceMismatch `json:"mismatches"`
	WallS      float64        `json:"wall_s"`
}

// RaceMismatch is a free-running call whose result is wrong.
type RaceMismatch struct {
	Func  string `json:"func"`
	Site  string `json:"site"`
	Phase string `json:"phase"`
	Why   string `json:"why"`
	Count int64  `json:"count"`
}

type raceBad struct {
	t     Thread
	fn    int
	phase string
	why   string
}

// RaceMain is `mc-race c16 <tier> [rounds iterations]`.
func RaceMain(args []string) {
	tier := "quick"
	if len(args) > 0 {
		tier = args[0]
	}
	rounds, iters := 6, 12
	if tier == "thorough" {
		rounds, iters = 24, 16
	}
	if len(args) > 2 {
		fmt.Sscan(args[1], &rounds)
		fmt.Sscan(args[2], &iters)
	}
	t0 := time.Now()
	nf := len(Funcs)
	sum := RaceSummary{Goroutines: raceGoroutines, Rounds: rounds, Iterations: iters}
	threadOf := func(g int) Thread {
		t := Thread{Pkg: g % 4, Site: (g / 4) % 2}
		for k := 0; k < nf; k++ {
			t.Calls = append(t.Calls, (k+g)%nf)
		}
		return t
	}

	// ---- cold phase: the first use of the library in this process. No
	// baseline has been computed; all goroutines are released together and
	// make every call three times, each goroutine in its own rotation.
	const coldReps = 3
	cold := make([][]Out, raceGoroutines)
	ths := make([]Thread, raceGoroutines)
	start := make(chan struct{})
	var wg sync.WaitGroup
	for g := 0; g < raceGoroutines; g++ {
		ths[g] = threadOf(g)
		cold[g] = make([]Out, coldReps*nf)
		wg.Add(1)
		go func(g int) {
			defer wg.Done()
			t, out := &ths[g], cold[g]
			<-start
			for rep := 0; rep < coldReps; rep++ {
				for k := 0; k < nf; k++ {
					out[rep*nf+k] = Call(t, k)
				}
			}
		}(g)
	}
	close(start)
	wg.Wait()
	sum.ColdCalls = int64(raceGoroutines * coldReps * nf)

	// ---- baselines, only now: each (site, function) sequentially.
	base := map[string]string{}
	bkey := func(t *Thread, fn int) string { return fmt.Sprintf("%d/%d/%d", t.Pkg, t.Site, fn) }
	var bad []raceBad
	for p := range Pkgs {
		for s := 0; s < 2; s++ {
			t := Thread{Pkg: p, Site: s}
			for k := 0; k < nf; k++ {
				t.Calls = append(t.Calls, k)
			}
			for k := 0; k < nf; k++ {
				o := Call(&t, k)
				if why := Model(&t, k, o); why != "" {
					bad = append(bad, raceBad{t, k, "sequential-baseline", why})
				}
				base[bkey(&t, k)] = Render(o, false)
			}
		}
	}
	judge := func(t *Thread, fn int, o Out) string {
		if why := Model(t, fn, o); why != "" {
			return why
		}
		if got, want := Render(o, false), base[bkey(t, fn)]; got != want {
			return "differs from the sequential baseline: " + Short(got, 400) + " vs " + Short(want, 400)
		}
		return ""
	}
	for g := range cold {
		for j, o := range cold[g] {
			fn := ths[g].Calls[j%nf]
			if why := judge(&ths[g], fn, o); why != "" {
				bad = append(bad, raceBad{ths[g], fn, "cold", why})
			}
		}
	}
	cold = nil

	// ---- rounds: all goroutines released together.
	//   round%3 == 0: every goroutine walks the functions in the same order
	//                 (all inside the same function at the same time), from
	//                 its own package and site;
	//   round%3 == 1: each goroutine in its own rotation;
	//   round%3 == 2: ALL goroutines through the same site function of one
	//                 package (the same program counters).
	for round := 0; round < rounds; round++ {
		start := make(chan struct{})
		bads := make([][]raceBad, raceGoroutines)
		for g := 0; g < raceGoroutines; g++ {
			t := threadOf(g)
			switch round % 3 {
			case 0:
				for k := range t.Calls {
					t.Calls[k] = k
				}
			case 2:
				t.Pkg, t.Site = (round/3)%4, 0
			}
			wg.Add(1)
			go func(g int, t Thread) {
				defer wg.Done()
				<-start
				for it := 0; it < iters; it++ {
					for k := range t.Calls {
						o := Call(&t, k)
						if why := judge(&t, t.Calls[k], o); why != "" && len(bads[g]) < 50 {
							bads[g] = append(bads[g], raceBad{t, t.Calls[k], fmt.Sprintf("round-kind-%d", round%3), why})
						}
					}
				}
			}(g, t)
		}
		close(start)
		wg.Wait()
		sum.Calls += int64(raceGoroutines * iters * nf)
		for _, b := range bads {
			bad = append(bad, b...)
		}
	}
	mm := map[string]*RaceMismatch{}
	for _, b := range bad {
		k := Funcs[b.fn] + "|" + b.t.SiteName() + "|" + b.phase
		if m := mm[k]; m != nil {
			m.Count++
			continue
		}
		mm[k] = &RaceMismatch{Func: Funcs[b.fn], Site: b.t.SiteName(), Phase: b.phase, Why: b.why, Count: 1}
	}
	for _, m := range mm {
		sum.Mismatches = append(sum.Mismatches, *m)
	}
	sum.WallS = time.Since(t0).Seconds()
	b, _ := json.Marshal(sum)
	fmt.Printf("@@RACE-SUMMARY@@\n%s\n", b)
}

// RaceProcesses is the number of fresh `mc-race c16` processes per run.
func RaceProcesses(tier string) int {
	if tier == "thorough" {
		return 8
	}
	return 2
}

type raceProc struct {
	logBase        string
	stdout, stderr bytes.Buffer
	err            error
}

// RaceRun is a set of running race-pass processes.
type RaceRun struct {
	tier  string
	procs []*raceProc
	done  chan struct{}
}

// StartRace launches the processes in the background.
func StartRace(tier string) *RaceRun {
	run := &RaceRun{tier: tier, done: make(chan struct{})}
	dir := filepath.Join(core.VerifDir, "build")
	old, _ := filepath.Glob(filepath.Join(dir, "race-c16.log*"))
	for _, f := range old {
		os.Remove(f)
	}
	for i := 0; i < RaceProcesses(tier); i++ {
		run.procs = append(run.procs, &raceProc{logBase: filepath.Join(dir, fmt.Sprintf("race-c16.log.%d", i))})
	}
	go func() {
		defer close(run.done)
		sem := make(chan struct{}, 4)
		var wg sync.WaitGroup
		for _, p := range run.procs {
			wg.Add(1)
			sem <- struct{}{}
			go func(p *raceProc) {
				defer func() { <-sem; wg.Done() }()
				cmd := exec.Command(schedmc.RaceBin(), "c16", tier)
				cmd.Env = append(os.Environ(), "GORACE=halt_on_error=0 exitcode=66 log_path="+p.logBase, "GOMAXPROCS=16")
				cmd.Stdout, cmd.Stderr = &p.stdout, &p.stderr
				p.err = cmd.Run()
			}(p)
		}
		wg.Wait()
	}()
	return run
}

// RacePass runs the race pass to completion and records its findings in r.
func RacePass(tier string, r *core.Result) { StartRace(tier).Collect(r) }

var (
	raceFuncRE  = regexp.MustCompile(`(?m)^  (\S+)\(\)$`)
	fatalFuncRE = regexp.MustCompile(`(?m)^(github\.com/cockroachdb/errors[^\s(]*(?:\([^)]*\))?[^\s(]*)\(`)
)

func cut(s string, n int) string {
	if len(s) <= n {
		return s
	}
	return s[:n/2] + "\n…\n" + s[len(s)-n/2:]
}

// Collect waits for the processes and records data races, runtime fatal
// errors and wrong results.
func (run *RaceRun) Collect(r *core.Result) {
	<-run.done
	replay := Replay{Concurrent: true, RacePass: true, Tier: run.tier}
	var total RaceSummary
	var nrep, nfatal, nok int64
	for i, p := range run.procs {
		stderr := p.stderr.String()
		logs, _ := filepath.Glob(p.logBase + ".*")
		var text strings.Builder
		for _, f := range logs {
			b, _ := os.ReadFile(f)
			text.Write(b)
		}
		text.WriteString(stderr)
		for _, blk := range strings.Split(text.String(), "==================") {
			if !strings.Contains(blk, "WARNING: DATA RACE") {
				continue
			}
			nrep++
			fn, first := "", ""
			for _, m := range raceFuncRE.FindAllStringSubmatch(blk, -1) {
				if first == "" {
					first = m[1]
				}
				if strings.HasPrefix(m[1], "github.com/cockroachdb/errors") && !strings.Contains(m[1], "/verifsched") {
					fn = m[1]
					break
				}
			}
			if fn == "" {
				fn = "outside-library:" + first
			}
			r.Violate("data-race|"+fn, "the Go race detector reports, with goroutines of different packages calling the domain / stack constructors concurrently:\n"+
				cut(strings.TrimSpace(blk), 2400), replay)
		}
		if k := strings.Index(stderr, "fatal error: "); k >= 0 {
			nfatal++
			fn := "unknown"
			if m := fatalFuncRE.FindStringSubmatch(stderr[k:]); m != nil {
				fn = m[1]
			}
			line := stderr[k:]
			if nl := strings.IndexByte(line, '\n'); nl > 0 {
				line = line[:nl]
			}
			r.Violate("data-race|"+fn, "the Go runtime aborted the free-running constructor calls: "+line+"\n"+cut(stderr[k:], 2400), replay)
			continue
		}
		if p.err != nil {
			if ee, ok := p.err.(*exec.ExitError); !ok || ee.ExitCode() != 66 {
				r.HarnessError("C16 race pass process %d: %v\n%s", i, p.err, cut(stderr, 2000))
				continue
			}
		}
		var sum RaceSummary
		out := p.stdout.String()
		k := strings.LastIndex(out, "@@RACE-SUMMARY@@\n")
		if k < 0 || json.Unmarshal([]byte(out[k+len("@@RACE-SUMMARY@@\n"):]), &sum) != nil {
			r.HarnessError("C16 race pass process %d: no summary\n%s", i, cut(stderr, 2000))
			continue
		}
		nok++
		total.Goroutines, total.Iterations = sum.Goroutines, sum.Iterations
		total.Rounds += sum.Rounds
		total.Calls += sum.Calls
		total.ColdCalls += sum.ColdCalls
		for _, m := range sum.Mismatches {
			r.Violate("concurrent|"+m.Func+"|free-running", fmt.Sprintf("race pass (free-running goroutines in different packages, no scheduler), phase %s: %s through %s (%d times): %s",
				m.Phase, m.Func, m.Site, m.Count, m.Why), replay)
		}
	}
	r.Count("concurrent_race_processes", int64(len(run.procs)))
	r.Count("concurrent_race_processes_completed", nok)
	r.Count("concurrent_race_goroutines", int64(total.Goroutines))
	r.Count("concurrent_race_cold_calls", total.ColdCalls)
	r.Count("concurrent_race_calls", total.Calls)
	r.Count("concurrent_race_rounds", int64(total.Rounds))
	r.Count("concurrent_race_reports", nrep)
	r.Count("concurrent_race_runtime_fatal_errors", nfatal)
	r.Assumptions = append(r.Assumptions, fmt.Sprintf(
		"data races between concurrent constructor calls: auxiliary dynamic analysis, NOT an enumeration — the thread bodies of the schedule dimension run free under the Go race detector in %d fresh processes "+
			"(%d goroutines spread over the 4 packages × 2 sites; a cold phase released together before any baseline, then %d rounds × %d iterations × %d functions: same function order, rotated order, and all goroutines through one site); "+
			"every result is also checked against the reference model and a sequential baseline",
		len(run.procs), total.Goroutines, total.Rounds, total.Iterations, len(Funcs)))
}
