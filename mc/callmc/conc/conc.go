// Package conc is the schedule dimension of check C16 ("stacks and package
// domains are attributed to the right caller — for every call depth and call
// path"): what a constructor attributes to its caller must not depend on
// what OTHER callers, in other packages, are doing at the same time.
//
// N threads (2, thorough also 3) each make 1–2 calls of a domain / stack
// constructor through the Site function of their own package (callmc/p0..p3:
// four directories, hence four package domains; the site files are textually
// identical). This package holds everything that does not need the
// scheduler: the call sites, the thread descriptors, the scenario
// enumeration, the rendering of an observation, the reference model, and the
// free-running body of the -race pass (race.go). It is linked into three
// binaries:
//
//	build/mc       (parent of check C16: Pre/Post in verif/mc/callmc)
//	build/mc-sched (the explorer, verif/mc/callmc/concworker, instrumented library)
//	build/mc-race  (`mc-race c16 <tier>`, uninstrumented, -race)
package conc

import (
	"bytes"
	"fmt"
	"os"
	"path/filepath"
	"reflect"
	"runtime"
	"sort"
	"strings"

	"github.com/cockroachdb/errors"
	"github.com/cockroachdb/errors/domains"
	"github.com/cockroachdb/errors/errbase"
	"github.com/cockroachdb/redact"

	"verif/mc/callmc/p0"
	"verif/mc/callmc/p1"
	"verif/mc/callmc/p2"
	"verif/mc/callmc/p3"
)

// Technique is appended to C16's technique line.
const Technique = "plus stateless model checking of concurrent constructor calls from different packages under the controlled cooperative scheduler of C18 " +
	"(instrumented library, scheduling point before every library statement, iterative preemption bounding, every schedule run from a canonical prewarmed state " +
	"and followed by a sequential re-check of every site), plus an auxiliary free-running -race pass of the same thread bodies"

// SiteFn is a call-site function of one package.
type SiteFn func(int) (string, error)

// Pkg is one of the caller packages.
type Pkg struct {
	Name      string
	Dir, File string    // of its site.go, as the runtime sees them
	Sites     [2]SiteFn // Site, Site2
	SiteNames [2]string // full function names
}

// Pkgs are the four caller packages.
var Pkgs [4]Pkg

// Funcs / Kinds: the library functions behind the sites.
var (
	Funcs = p0.SiteFuncs
	Kinds = p0.SiteKinds
	Heavy = p0.SiteHeavy // single-call scenarios only
)

func funcName(f interface{}) string {
	return runtime.FuncForPC(reflect.ValueOf(f).Pointer()).Name()
}

func init() {
	mk := func(name string, where func() (string, string), s, s2 SiteFn) Pkg {
		p := Pkg{Name: name, Sites: [2]SiteFn{s, s2}, SiteNames: [2]string{funcName(s), funcName(s2)}}
		p.Dir, p.File = where()
		return p
	}
	Pkgs = [4]Pkg{
		mk("p0", p0.SiteWhere, p0.Site, p0.Site2),
		mk("p1", p1.SiteWhere, p1.Site, p1.Site2),
		mk("p2", p2.SiteWhere, p2.Site, p2.Site2),
		mk("p3", p3.SiteWhere, p3.Site, p3.Site2),
	}
}

// SelfCheck verifies what the scenarios rely on: four distinct directories,
// identical function tables, textually identical site files. It returns
// harness errors.
func SelfCheck() (errs []string) {
	tables := [][]string{p0.SiteFuncs, p1.SiteFuncs, p2.SiteFuncs, p3.SiteFuncs}
	kinds := [][]string{p0.SiteKinds, p1.SiteKinds, p2.SiteKinds, p3.SiteKinds}
	var ref []byte
	for i, p := range Pkgs {
		if !reflect.DeepEqual(tables[i], Funcs) || !reflect.DeepEqual(kinds[i], Kinds) || len(Funcs) != len(Kinds) {
			errs = append(errs, fmt.Sprintf("C16 concurrent: site table of %s differs from p0's", p.Name))
		}
		if !strings.HasSuffix(p.Dir, "callmc/"+p.Name) || p.File != "site.go" {
			errs = append(errs, fmt.Sprintf("C16 concurrent: sites of %s live in %s/%s", p.Name, p.Dir, p.File))
		}
		for j := 0; j < i; j++ {
			if Pkgs[j].Dir == p.Dir || Pkgs[j].SiteNames[0] == p.SiteNames[0] {
				errs = append(errs, fmt.Sprintf("C16 concurrent: %s and %s are not distinct", p.Name, Pkgs[j].Name))
			}
		}
		if p.SiteNames[0] == p.SiteNames[1] {
			errs = append(errs, fmt.Sprintf("C16 concurrent: the two sites of %s are one function", p.Name))
		}
		b, err := os.ReadFile(filepath.Join(p.Dir, p.File))
		if err != nil {
			continue // sources not on disk: the table comparison stands
		}
		if k := bytes.IndexByte(b, '\n'); k >= 0 {
			b = b[k:]
		}
		if i == 0 {
			ref = b
		} else if ref != nil && !bytes.Equal(ref, b) {
			errs = append(errs, fmt.Sprintf("C16 concurrent: %s/site.go is not a copy of p0/site.go", p.Name))
		}
	}
	for k := range Funcs {
		if d, _ := Neutral(k); strings.HasPrefix(d, "\x00") {
			errs = append(errs, fmt.Sprintf("C16 concurrent: the neutral site has no case %d", k))
		}
		for _, p := range Pkgs {
			for s := 0; s < 2; s++ {
				if d, _ := p.Sites[s](k); strings.HasPrefix(d, "\x00") {
					errs = append(errs, fmt.Sprintf("C16 concurrent: %s site %d has no case %d", p.Name, s, k))
				}
			}
		}
	}
	return errs
}

var (
	neutralCause error = neutralErr{}
	neutralPlain       = fmt.Errorf("neutral plain cause")
)

type neutralErr struct{}

func (neutralErr) Error() string                           { return "neutral cause" }
func (neutralErr) SafeFormat(p redact.SafePrinter, _ rune) { p.SafeString("neutral cause") }

// Neutral is a call site of every function in THIS package (a fifth
// directory): calling it before an execution makes "the most recent caller"
// somebody who takes no part in the scenario.
//
//go:noinline
func Neutral(k int) (dom string, err error) {
	switch k {
	case 0:
		return string(errors.PackageDomain()), nil
	case 1:
		return string(errors.PackageDomainAtDepth(0)), nil
	case 2:
		return neutralInner(k)
	case 3:
		return string(domains.PackageDomain()), nil
	case 4:
		return string(domains.PackageDomainAtDepth(0)), nil
	case 5:
		return "", domains.New("x")
	case 6:
		return "", domains.Handled(neutralCause)
	case 7:
		return "", domains.WithDomain(neutralCause, domains.PackageDomain())
	case 8:
		return "", errors.New("x")
	case 9:
		return "", errors.WithStack(neutralCause)
	case 10:
		return "", errors.Wrap(neutralCause, "x")
	case 11:
		return neutralInner(k)
	case 12:
		return "", domains.Handled(neutralPlain)
	}
	return "\x00unknown site function", nil
}

//go:noinline
func neutralInner(k int) (dom string, err error) {
	switch k {
	case 2:
		return string(errors.PackageDomainAtDepth(1)), nil
	case 11:
		return "", errors.NewWithDepth(1, "x")
	}
	return "\x00unknown site function", nil
}

// Thread is one thread of a scenario: Calls (function indexes) made in order
// through site Site (0 = Site, 1 = Site2) of package Pkg.
type Thread struct {
	Pkg   int   `json:"pkg"`
	Site  int   `json:"site"`
	Calls []int `json:"calls"`
}

func (t Thread) SiteName() string {
	return Pkgs[t.Pkg].Name + [2]string{".Site", ".Site2"}[t.Site]
}

func (t Thread) String() string {
	var fs []string
	for _, k := range t.Calls {
		fs = append(fs, Funcs[k])
	}
	return t.SiteName() + "[" + strings.Join(fs, ", ") + "]"
}

// Valid reports whether t names existing sites and functions.
func (t Thread) Valid() bool {
	if t.Pkg < 0 || t.Pkg >= len(Pkgs) || t.Site < 0 || t.Site > 1 || len(t.Calls) == 0 || len(t.Calls) > 8 {
		return false
	}
	for _, k := range t.Calls {
		if k < 0 || k >= len(Funcs) {
			return false
		}
	}
	return true
}

// Out is the raw result of one call.
type Out struct {
	Dom  string
	Err  error
	Done bool
}

// Call makes call k of thread t. Every use of a site goes through this one
// function, so that the frames between a thread body and the site are the
// same in every execution.
//
//go:noinline
func Call(t *Thread, k int) Out {
	d, err := Pkgs[t.Pkg].Sites[t.Site](t.Calls[k])
	return Out{d, err, true}
}

// Unfinished is the rendering of a call that never returned.
const Unfinished = "<call did not return>"

// stacks is what Render and Model need to know about the stack traces on the
// cause chain of one error.
type stacks struct {
	full, inner string // rendered: every frame / innermost frame of each stack, plus the one-line source
	has         bool   // some layer carries a stack
	fn, path    string // innermost frame of the outermost stack
	line        int
}

// CacheStacks memoizes the (expensive) symbolisation of stack traces under
// the raw program counters of every layer. The rendering is always produced
// by the library's public observers (GetReportableStackTrace,
// GetOneLineSource) the first time a vector of PCs is seen. Only the
// single-threaded explorer turns it on: the free-running race pass must not
// share harness state between goroutines.
var CacheStacks bool

var stackCache = map[string]*stacks{}

func stacksOf(err error) *stacks {
	var key []byte
	if CacheStacks {
		for e := err; e != nil; e = errors.UnwrapOnce(e) {
			key = append(key, reflect.TypeOf(e).String()...)
			key = append(key, 0)
			if sp, ok := e.(interface{ StackTrace() errbase.StackTrace }); ok {
				for _, pc := range sp.StackTrace() {
					v := uint64(pc)
					key = append(key, byte(v), byte(v>>8), byte(v>>16), byte(v>>24), byte(v>>32), byte(v>>40), byte(v>>48), byte(v>>56))
				}
			}
			key = append(key, 1)
		}
		if st := stackCache[string(key)]; st != nil {
			return st
		}
	}
	st := &stacks{}
	var full, inner strings.Builder
	for e := err; e != nil; e = errors.UnwrapOnce(e) {
		rs := errors.GetReportableStackTrace(e)
		if rs == nil {
			continue
		}
		fmt.Fprintf(&full, "; stack(%T)=", e)
		fmt.Fprintf(&inner, "; stack(%T)=", e)
		for i := len(rs.Frames) - 1; i >= 0; i-- { // innermost first
			fr := rs.Frames[i]
			f := fmt.Sprintf("[%s.%s %s:%d]", fr.Module, fr.Function, fr.AbsPath, fr.Lineno)
			full.WriteString(f)
			if i == len(rs.Frames)-1 {
				inner.WriteString(f)
				if !st.has {
					st.has, st.fn, st.path, st.line = true, fr.Module+"."+fr.Function, fr.AbsPath, fr.Lineno
				}
			}
		}
	}
	if file, line, fn, ok := errors.GetOneLineSource(err); ok {
		src := fmt.Sprintf("; source=%s:%d %s", file, line, fn)
		full.WriteString(src)
		inner.WriteString(src)
	}
	st.full, st.inner = full.String(), inner.String()
	if CacheStacks {
		stackCache[string(key)] = st
	}
	return st
}

// Render turns a raw result into a comparable, pointer-free string. full:
// every frame of every stack on the cause chain (threads of one execution and
// their solo twins run below the same frames); otherwise only the innermost
// frame of each stack (what a sequential re-check from elsewhere can be
// compared on).
func Render(o Out, full bool) string {
	if !o.Done {
		return Unfinished
	}
	if o.Err == nil {
		return "domain=" + o.Dom
	}
	var b strings.Builder
	b.WriteString("domain=")
	b.WriteString(string(errors.GetDomain(o.Err)))
	fmt.Fprintf(&b, "; msg=%q; types=", o.Err.Error())
	n := 0
	for e := o.Err; e != nil; e = errors.UnwrapOnce(e) {
		if n > 0 {
			b.WriteString(">")
		}
		b.WriteString(reflect.TypeOf(e).String())
		n++
	}
	st := stacksOf(o.Err)
	if full {
		b.WriteString(st.full)
	} else {
		b.WriteString(st.inner)
	}
	return b.String()
}

// WhoseDomain names the package a domain string denotes.
func WhoseDomain(dom string) string {
	dir := strings.TrimPrefix(dom, "error domain: pkg ")
	for _, p := range Pkgs {
		if p.Dir == dir {
			return "the domain of package " + p.Name
		}
	}
	if d, _ := Neutral(0); d == dom {
		return "the domain of the harness's neutral site"
	}
	return "no package of the scenario"
}

func whoseFunc(fn string) string {
	for _, p := range Pkgs {
		for s, n := range p.SiteNames {
			if n == fn {
				return p.Name + [2]string{".Site", ".Site2"}[s]
			}
		}
	}
	return "not a site of the scenario"
}

// Model is the reference model, independent of any baseline run: the result
// of call fn made by t must name t's own package / t's own site function.
// why == "" when it does.
func Model(t *Thread, fn int, o Out) (why string) {
	if !o.Done {
		return "the call did not return"
	}
	p := &Pkgs[t.Pkg]
	if Kinds[fn] == "domain" {
		dom := o.Dom
		if o.Err != nil {
			dom = string(errors.GetDomain(o.Err))
		}
		if want := "error domain: pkg " + p.Dir; dom != want {
			return fmt.Sprintf("domain is %q (%s), want %q (package %s, the caller)", dom, WhoseDomain(dom), want, p.Name)
		}
		return ""
	}
	if o.Err == nil {
		return "no error returned"
	}
	st := stacksOf(o.Err)
	if !st.has {
		return "no layer of the result carries a stack trace"
	}
	if st.fn != p.SiteNames[t.Site] || st.path != filepath.Join(p.Dir, p.File) {
		return fmt.Sprintf("innermost recorded frame is %s (%s:%d; %s), want %s in %s (the caller)", st.fn, st.path, st.line, whoseFunc(st.fn),
			p.SiteNames[t.Site], filepath.Join(p.Dir, p.File))
	}
	return ""
}

// Dev is one deviation of a schedule (mirror of verifsched.Dev, which only
// exists in the instrumented build).
type Dev struct {
	At     int `json:"at"`
	Choice int `json:"choice"`
}

// Replay is the replay payload of a violation of the schedule dimension.
type Replay struct {
	// Concurrent distinguishes it from the payload of the sequential cases.
	Concurrent bool     `json:"concurrent"`
	Threads    []Thread `json:"threads,omitempty"`
	// Variant: 0 = the neutral site was the last caller before the
	// threads start; v > 0 = thread v-1's own site was. The sequential
	// re-check after the execution starts with thread Variant mod N.
	Variant  int   `json:"variant"`
	Schedule []Dev `json:"schedule"`
	// Preemptions of that schedule (the reported witness of a key is one
	// with the fewest).
	Preemptions int `json:"preemptions"`
	// Cold: a first-use execution: replay it before anything else in a
	// fresh process, without prewarming.
	Cold     bool   `json:"cold,omitempty"`
	RacePass bool   `json:"race_pass,omitempty"`
	Tier     string `json:"tier,omitempty"`
}

// Scenario is the threads plus the bound they are explored to; each of its
// N+1 variants is explored separately.
type Scenario struct {
	Threads []Thread
	Bound   int
	Class   string // S1…S7, see Scenarios
}

// Name is threads joined by " ∥ ".
func (s *Scenario) Name() string {
	var ts []string
	for _, t := range s.Threads {
		ts = append(ts, t.String())
	}
	return strings.Join(ts, " ∥ ")
}

// Relation classifies how the threads' sites relate; it is the last part of
// a violation key (stable across package rotation and tiers).
func Relation(ts []Thread) string {
	samePkg, sameSite := false, false
	for i := range ts {
		for j := 0; j < i; j++ {
			if ts[i].Pkg == ts[j].Pkg {
				samePkg = true
				if ts[i].Site == ts[j].Site {
					sameSite = true
				}
			}
		}
	}
	rel := "distinct-packages"
	switch {
	case sameSite:
		rel = "same-site-function"
	case samePkg:
		rel = "same-package-two-sites"
	}
	if len(ts) == 1 {
		rel = "alone"
	}
	if len(ts) > 2 {
		rel += fmt.Sprintf("-%dthreads", len(ts))
	}
	return rel
}

// Family is the outcome-class prefix of a scenario: kinds of the functions
// involved.
func Family(ts []Thread) string {
	set := map[string]bool{}
	for _, t := range ts {
		for _, k := range t.Calls {
			set[Kinds[k]] = true
		}
	}
	var ks []string
	for k := range set {
		ks = append(ks, k)
	}
	sort.Strings(ks)
	return strings.Join(ks, "+")
}

// Symmetric: all threads are the same thread (the choice of who starts is
// immaterial).
func Symmetric(ts []Thread) bool {
	for i := 1; i < len(ts); i++ {
		if !reflect.DeepEqual(ts[i], ts[0]) {
			return false
		}
	}
	return true
}

// ordered package pairs, in the order scenarios rotate through them.
var pkgPairs = [][2]int{{0, 1}, {2, 3}, {1, 2}, {3, 0}, {0, 2}, {1, 3}, {1, 0}, {3, 2}, {2, 1}, {0, 3}, {2, 0}, {3, 1}}

// package triples (distinct), rotation order.
var pkgTriples = [][3]int{{0, 1, 2}, {1, 2, 3}, {2, 3, 0}, {3, 0, 1}, {2, 1, 0}, {0, 3, 2}}

func isDomain(k int) bool { return Kinds[k] == "domain" }
func heavy(k int) bool    { return k < len(Heavy) && Heavy[k] }

// Bounds of the tiers.
const (
	QuickBound    = 2
	ThoroughBound = 3
)

// Scenarios enumerates the scenarios of a tier, in a fixed order.
//
//	S1  a.Site[f] ∥ b.Site[g]            every unordered {f,g} incl. f=g; quick: one package pair per scenario
//	                                     (rotating through all 12 ordered pairs), thorough: all of them
//	S2  a.Site[f,f] ∥ b.Site[g]          every ordered (f,g): the same site twice in one thread
//	S3  a.Site[f,f] ∥ b.Site[g,g]        every unordered {f,g}
//	S4  a.Site[f,g] ∥ b.Site[g,f] and a.Site[f,g] ∥ b.Site[f,g]   f ≠ g
//	S5  a.Site[f] ∥ a.Site[g]            two threads through the SAME site function of one package
//	    (f = g: the same program counter), also a.Site[f,f] ∥ a.Site[f,f]
//	S6  a.Site[f] ∥ a.Site2[f]           two sites of one package
//	S7  (thorough) three threads in three packages, every multiset {f,g,h}; and
//	    a.Site[f] ∥ a.Site[f] ∥ b.Site[g]
//
// S2–S4 take `rot` package pairs per scenario (quick 1, thorough 3).
func Scenarios(thorough bool) []*Scenario {
	var out []*Scenario
	nf := len(Funcs)
	bound := QuickBound
	rot := 1
	if thorough {
		bound = ThoroughBound
		rot = 3
	}
	ri := 0
	next := func() [2]int { p := pkgPairs[ri%len(pkgPairs)]; ri++; return p }
	add := func(class string, b int, ts ...Thread) {
		out = append(out, &Scenario{Threads: ts, Bound: b, Class: class})
	}
	th := func(p, site int, calls ...int) Thread { return Thread{Pkg: p, Site: site, Calls: calls} }

	for f := 0; f < nf; f++ {
		for g := f; g < nf; g++ {
			if !thorough {
				pp := next()
				add("S1", bound, th(pp[0], 0, f), th(pp[1], 0, g))
				continue
			}
			for _, pp := range pkgPairs {
				if f == g && pp[0] > pp[1] {
					continue
				}
				add("S1", bound, th(pp[0], 0, f), th(pp[1], 0, g))
			}
		}
	}
	for f := 0; f < nf; f++ {
		for g := 0; g < nf; g++ {
			if heavy(f) || heavy(g) {
				continue
			}
			for k := 0; k < rot; k++ {
				pp := next()
				add("S2", bound, th(pp[0], 0, f, f), th(pp[1], 0, g))
			}
		}
	}
	for f := 0; f < nf; f++ {
		for g := f; g < nf; g++ {
			if heavy(f) || heavy(g) {
				continue
			}
			for k := 0; k < rot; k++ {
				pp := next()
				add("S3", bound, th(pp[0], 0, f, f), th(pp[1], 0, g, g))
			}
		}
	}
	for f := 0; f < nf; f++ {
		for g := 0; g < nf; g++ {
			if f == g || heavy(f) || heavy(g) {
				continue
			}
			for k := 0; k < rot; k++ {
				pp := next()
				add("S4", bound, th(pp[0], 0, f, g), th(pp[1], 0, f, g))
				if f < g {
					pp = next()
					add("S4", bound, th(pp[0], 0, f, g), th(pp[1], 0, g, f))
				}
			}
		}
	}
	pi := 0
	for f := 0; f < nf; f++ {
		for g := f; g < nf; g++ {
			for k := 0; k < rot; k++ {
				add("S5", bound, th(pi%4, 0, f), th(pi%4, 0, g))
				pi++
			}
		}
		if !heavy(f) {
			add("S5", bound, th(pi%4, 0, f, f), th(pi%4, 0, f, f))
			pi++
		}
		for k := 0; k < rot; k++ {
			add("S6", bound, th(pi%4, 0, f), th(pi%4, 1, f))
			pi++
		}
	}
	if thorough {
		ti := 0
		for f := 0; f < nf; f++ {
			for g := f; g < nf; g++ {
				for h := g; h < nf; h++ {
					if heavy(f) || heavy(g) || heavy(h) {
						continue
					}
					// three stack captures at bound 3 are the expensive
					// corner: they stay at bound 2.
					b := ThoroughBound
					if !isDomain(f) && !isDomain(g) && !isDomain(h) {
						b = 2
					}
					pt := pkgTriples[ti%len(pkgTriples)]
					ti++
					add("S7", b, th(pt[0], 0, f), th(pt[1], 0, g), th(pt[2], 0, h))
				}
			}
		}
		for f := 0; f < nf; f++ {
			for g := 0; g < nf; g++ {
				if heavy(f) || heavy(g) {
					continue
				}
				b := ThoroughBound
				if !isDomain(f) && !isDomain(g) {
					b = 2
				}
				pp := next()
				add("S7", b, th(pp[0], 0, f), th(pp[0], 0, f), th(pp[1], 0, g))
			}
		}
	}
	return out
}

// Short abbreviates a rendering for messages.
func Short(s string, n int) string {
	if len(s) <= n {
		return s
	}
	return s[:n/2] + " … " + s[len(s)-n/2:]
}
