package callmc

import (
	"go/ast"
	"go/parser"
	"go/token"
	"os"
	"path/filepath"
	"sort"
	"strconv"
	"strings"
)

// scanCapturing parses the non-test sources of the library and returns
// pkg.Func for every exported package-level function from which
// runtime.Callers / runtime.Caller is reachable through calls that stay
// inside the module.
//
// Call resolution is by name: f(...) is a function of the same package,
// alias.F(...) a function of the imported module package, x.M(...) any
// method called M of the same package (an over-approximation).
//
// Functions named in cut (pkg.Func) are treated as not capturing and do not
// propagate: scanning with and without a cut tells which functions reach a
// capture only through the cut ones.
func scanCapturing(root string, cut map[string]bool) ([]string, error) {
	module := "github.com/cockroachdb/errors"
	if b, err := os.ReadFile(filepath.Join(root, "go.mod")); err == nil {
		for _, ln := range strings.Split(string(b), "\n") {
			if f := strings.Fields(ln); len(f) == 2 && f[0] == "module" {
				module = f[1]
			}
		}
	}

	type node struct {
		label    string // pkgname.Func, for exported package-level functions
		calls    []string
		captures bool
		cut      bool
	}
	nodes := map[string]*node{}
	fset := token.NewFileSet()

	err := filepath.Walk(root, func(path string, info os.FileInfo, err error) error {
		if err != nil {
			return err
		}
		if info.IsDir() {
			switch filepath.Base(path) {
			case "testutils", "fmttests", "internal", ".git", "testdata":
				return filepath.SkipDir
			}
			return nil
		}
		if !strings.HasSuffix(path, ".go") || strings.HasSuffix(path, "_test.go") || strings.HasSuffix(path, ".pb.go") {
			return nil
		}
		f, err := parser.ParseFile(fset, path, nil, 0)
		if err != nil {
			return nil
		}
		rel, _ := filepath.Rel(root, filepath.Dir(path))
		ipath := module
		if rel != "." {
			ipath = module + "/" + filepath.ToSlash(rel)
		}
		// local name -> import path
		imports := map[string]string{}
		for _, im := range f.Imports {
			p, _ := strconv.Unquote(im.Path.Value)
			name := p[strings.LastIndex(p, "/")+1:]
			if im.Name != nil {
				name = im.Name.Name
			}
			imports[name] = p
		}
		for _, d := range f.Decls {
			fd, ok := d.(*ast.FuncDecl)
			if !ok || fd.Body == nil {
				continue
			}
			key := ipath + "." + fd.Name.Name
			if fd.Recv != nil {
				key = ipath + ".~" + fd.Name.Name
			}
			n := nodes[key]
			if n == nil {
				n = &node{}
				nodes[key] = n
			}
			if fd.Recv == nil && fd.Name.IsExported() {
				n.label = f.Name.Name + "." + fd.Name.Name
			}
			if fd.Recv == nil && cut[f.Name.Name+"."+fd.Name.Name] {
				n.cut = true
			}
			ast.Inspect(fd.Body, func(x ast.Node) bool {
				call, ok := x.(*ast.CallExpr)
				if !ok {
					return true
				}
				switch fn := call.Fun.(type) {
				case *ast.Ident:
					n.calls = append(n.calls, ipath+"."+fn.Name)
				case *ast.SelectorExpr:
					if id, ok := fn.X.(*ast.Ident); ok && id.Obj == nil {
						if p, isPkg := imports[id.Name]; isPkg {
							switch {
							case p == "runtime" && (fn.Sel.Name == "Callers" || fn.Sel.Name == "Caller"):
								n.captures = true
							case p == module || strings.HasPrefix(p, module+"/"):
								n.calls = append(n.calls, p+"."+fn.Sel.Name)
							}
							return true
						}
					}
					n.calls = append(n.calls, ipath+".~"+fn.Sel.Name)
				}
				return true
			})
		}
		return nil
	})

	// fixed point
	for changed := true; changed; {
		changed = false
		for _, n := range nodes {
			if n.captures || n.cut {
				continue
			}
			for _, c := range n.calls {
				if m := nodes[c]; m != nil && m.captures {
					n.captures = true
					changed = true
					break
				}
			}
		}
	}
	var out []string
	for _, n := range nodes {
		if n.captures && !n.cut && n.label != "" {
			out = append(out, n.label)
		}
	}
	sort.Strings(out)
	return out, err
}
