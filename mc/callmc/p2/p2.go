// Package p2 is link 2 of the C16 call chains: its H / (*T).G is the
// depth-2 caller of the library function called inside package p0.
package p2

import (
	"path/filepath"
	"runtime"

	"verif/mc/callmc/p1"
)

// From here on this file presents itself to the runtime under a path with
// colons in a directory and in the base name (a volume name, a drive
// letter, a generated file): positions are printed as file:line and parsed
// back, and only the last colon separates the line.
//
//line /verif-virtual/vol:1/p2/p2:gen.go:100

// Where reports the directory and base name of this package's source file
// exactly as the runtime sees them.
func Where() (dir, file string) {
	_, f, _, _ := runtime.Caller(0)
	return filepath.Dir(f), filepath.Base(f)
}

// H is call path 1: a plain, non-inlinable function calling the next link.
//
//go:noinline
func H(name string, shape, depth int) (dom string, err error) {
	return p1.H(name, shape, depth)
}

// T carries call path 2.
type T struct{}

// Next is the next link of call path 2, reached by dynamic dispatch.
var Next interface {
	G(name string, shape, depth int) (string, error)
} = &p1.T{}

// G is call path 2: a non-inlinable method calling the next link through an
// interface value.
//
//go:noinline
func (t *T) G(name string, shape, depth int) (dom string, err error) {
	return Next.G(name, shape, depth)
}

// HG is call path 3: a generic function (the runtime names it HG[...]).
// Below link 1 the chain continues with p0's plain H.
//
//go:noinline
func HG[X any](name string, shape, depth int) (dom string, err error) {
	return p1.HG[X](name, shape, depth)
}

// GT carries call path 4: a method of a generic type (named (*GT[...]).GG).
type GT[X any] struct{}

//go:noinline
func (t *GT[X]) GG(name string, shape, depth int) (dom string, err error) {
	return (&p1.GT[X]{}).GG(name, shape, depth)
}
