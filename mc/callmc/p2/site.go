package p2

// Call sites of the SCHEDULE dimension of check C16 (verif/mc/callmc/conc):
// threads in different packages call the domain / stack constructors
// concurrently, each through the Site (or Site2) function of its own package.
//
// THIS FILE IS IDENTICAL IN p0, p1, p2 AND p3 EXCEPT FOR THE PACKAGE CLAUSE
// (conc checks it at run time). That is on purpose: the four copies of a call
// site agree on base file name, line number, short function name and short
// package-relative position, and differ only in directory, import path and
// program counter — so anything the library memoizes under a key coarser than
// "the caller" collides between threads of different packages.
//
// Every case of the switch is one call site (one program counter): calling
// Site(k) twice is the same site twice, Site(k) and Site2(k) are two sites of
// one package.

import (
	goerrors "errors"
	"path/filepath"
	"runtime"

	"github.com/cockroachdb/errors"
	"github.com/cockroachdb/errors/domains"
	"github.com/cockroachdb/redact"
)

// SiteFuncs names the library functions behind Site / Site2, by index.
var SiteFuncs = []string{
	0:  "errors.PackageDomain",
	1:  "errors.PackageDomainAtDepth(0)",
	2:  "errors.PackageDomainAtDepth(1)",
	3:  "domains.PackageDomain",
	4:  "domains.PackageDomainAtDepth(0)",
	5:  "domains.New",
	6:  "domains.Handled",
	7:  "domains.WithDomain(PackageDomain())",
	8:  "errors.New",
	9:  "errors.WithStack",
	10: "errors.Wrap",
	11: "errors.NewWithDepth(1)",
	12: "domains.Handled(plain-cause)",
}

// SiteKinds says what each function attributes to its caller: "domain" (the
// caller's package) or "stack" (the caller's frame).
var SiteKinds = []string{"domain", "domain", "domain", "domain", "domain", "domain", "domain", "domain", "stack", "stack", "stack", "stack", "domain"}

// SiteHeavy marks the functions whose call is long for reasons that have
// nothing to do with attribution (a barrier over a plain error renders its
// cause through the library's whole formatting machinery, ≈600 scheduling
// points): they take part in the single-call scenarios only.
var SiteHeavy = []bool{12: true}

// siteCause carries no stack and no domain, and formats itself (a barrier
// built over it does not run the library's error formatting); plainCause is
// an ordinary error.
var (
	siteCause  error = siteErr{}
	plainCause       = goerrors.New("plain cause")
)

type siteErr struct{}

func (siteErr) Error() string                           { return "site cause" }
func (siteErr) SafeFormat(p redact.SafePrinter, _ rune) { p.SafeString("site cause") }

// SiteWhere reports the directory and base name of THIS file as the runtime
// sees them (the domain of a caller is the directory of its file).
func SiteWhere() (dir, file string) {
	_, f, _, _ := runtime.Caller(0)
	return filepath.Dir(f), filepath.Base(f)
}

// Site calls library function k with this function as the attributed caller.
//
//go:noinline
func Site(k int) (dom string, err error) {
	switch k {
	case 0:
		return string(errors.PackageDomain()), nil
	case 1:
		return string(errors.PackageDomainAtDepth(0)), nil
	case 2:
		return siteInner(k)
	case 3:
		return string(domains.PackageDomain()), nil
	case 4:
		return string(domains.PackageDomainAtDepth(0)), nil
	case 5:
		return "", domains.New("x")
	case 6:
		return "", domains.Handled(siteCause)
	case 7:
		return "", domains.WithDomain(siteCause, domains.PackageDomain())
	case 8:
		return "", errors.New("x")
	case 9:
		return "", errors.WithStack(siteCause)
	case 10:
		return "", errors.Wrap(siteCause, "x")
	case 11:
		return siteInner(k)
	case 12:
		return "", domains.Handled(plainCause)
	}
	return "\x00unknown site function", nil
}

// Site2 is a second, textually separate set of call sites in this package.
//
//go:noinline
func Site2(k int) (dom string, err error) {
	switch k {
	case 0:
		return string(errors.PackageDomain()), nil
	case 1:
		return string(errors.PackageDomainAtDepth(0)), nil
	case 2:
		return siteInner(k)
	case 3:
		return string(domains.PackageDomain()), nil
	case 4:
		return string(domains.PackageDomainAtDepth(0)), nil
	case 5:
		return "", domains.New("x")
	case 6:
		return "", domains.Handled(siteCause)
	case 7:
		return "", domains.WithDomain(siteCause, domains.PackageDomain())
	case 8:
		return "", errors.New("x")
	case 9:
		return "", errors.WithStack(siteCause)
	case 10:
		return "", errors.Wrap(siteCause, "x")
	case 11:
		return siteInner(k)
	case 12:
		return "", domains.Handled(plainCause)
	}
	return "\x00unknown site function", nil
}

// siteInner holds the depth-1 calls: the attributed caller is whoever called
// siteInner (Site or Site2).
//
//go:noinline
func siteInner(k int) (dom string, err error) {
	switch k {
	case 2:
		return string(errors.PackageDomainAtDepth(1)), nil
	case 11:
		return "", errors.NewWithDepth(1, "x")
	}
	return "\x00unknown site function", nil
}
