// Package callmc is engine E4 of the model checker: call-path programs for
// property C16 ("stacks and package domains are attributed to the right
// caller").
//
// Four helper packages p0..p3 (distinct directories, distinct files) form
// two non-inlinable call chains
//
//	path 1:  p3.H      -> p2.H      -> p1.H      -> p0.H      -> library function
//	path 2:  p3.(*T).G -> p2.(*T).G -> p1.(*T).G -> p0.(*T).G -> library function
//
// (path 2 goes through interface values). A library function called with
// depth d inside p0 must attribute its stack / domain to link d of the chain.
package callmc

import (
	"encoding/json"
	"fmt"
	"path/filepath"
	"reflect"
	"runtime"
	"sort"
	"strings"

	"github.com/cockroachdb/errors"

	"verif/mc/callmc/conc"
	"verif/mc/callmc/p0"
	"verif/mc/callmc/p1"
	"verif/mc/callmc/p2"
	"verif/mc/callmc/p3"
	"verif/mc/core"
)

func init() {
	core.Register(&core.Check{ID: "C16",
		Technique: "exhaustive enumeration of (exported constructor x argument shape x depth 0..3 x 2 call paths x stack depth below/above the 32-PC buffer) through generated non-inlinable call chains on the real code; " + conc.Technique,
		Shards:    func(string) int { return 1 },
		Run:       runC16,
		// the schedule dimension (concurrent.go): explored by build/mc-sched
		// beside this binary's sequential worker.
		Pre:  preC16,
		Post: postC16})
}

const (
	maxDepth = 3
	nPaths   = 4
	// hops per executed case: p3 -> p2 -> p1 -> p0 -> library function
	hopsPerCase = 4
)

// fcase is one library function under test.
type fcase struct {
	name     string // pkg.Func as the AST scan names it
	hasDepth bool   // takes a depth argument (else only d=0 is meaningful)
	kind     string // "stack" | "domain"
	family   string // outcome class
	shapes   []int  // argument shapes that exist for it (see p0.ShapeNames)
}

// table lists every exported stack-capturing or domain-computing function.
// It must agree with the switch in p0 (checked at run time) and is
// cross-checked against an AST reachability scan of /repo.
var table = []fcase{
	{"errors.New", false, "stack", "root/new", []int{0, 1}},
	{"errors.NewWithDepth", true, "stack", "root/new", []int{0, 1}},
	{"errors.Newf", false, "stack", "root/new", []int{0, 1, 2, 3}},
	{"errors.NewWithDepthf", true, "stack", "root/new", []int{0, 1, 2, 3}},
	{"errors.Errorf", false, "stack", "root/new", []int{0, 1, 2, 3}},
	{"errors.Wrap", false, "stack", "root/wrap", []int{0, 1}},
	{"errors.WrapWithDepth", true, "stack", "root/wrap", []int{0, 1}},
	{"errors.Wrapf", false, "stack", "root/wrap", []int{0, 1, 2, 6}},
	{"errors.WrapWithDepthf", true, "stack", "root/wrap", []int{0, 1, 2, 6}},
	{"errors.WithStack", false, "stack", "root/withstack", []int{0}},
	{"errors.WithStackDepth", true, "stack", "root/withstack", []int{0}},
	{"errors.AssertionFailedf", false, "stack", "root/assert", []int{0, 1, 2, 3}},
	{"errors.AssertionFailedWithDepthf", true, "stack", "root/assert", []int{0, 1, 2, 3}},
	{"errors.NewAssertionErrorWithWrappedErrf", false, "stack", "root/assert", []int{0, 1, 2, 6}},
	{"errors.HandleAsAssertionFailure", false, "stack", "root/assert", []int{0, 7}},
	{"errors.HandleAsAssertionFailureDepth", true, "stack", "root/assert", []int{0, 7}},
	{"errors.Join", false, "stack", "root/join", []int{0, 4, 5}},
	{"errors.JoinWithDepth", true, "stack", "root/join", []int{0, 4, 5}},
	{"errors.PackageDomain", false, "domain", "root/domain", []int{0}},
	{"errors.PackageDomainAtDepth", true, "domain", "root/domain", []int{0}},

	{"errutil.New", false, "stack", "errutil/new", []int{0, 1}},
	{"errutil.NewWithDepth", true, "stack", "errutil/new", []int{0, 1}},
	{"errutil.Newf", false, "stack", "errutil/new", []int{0, 1, 2, 3}},
	{"errutil.NewWithDepthf", true, "stack", "errutil/new", []int{0, 1, 2, 3}},
	{"errutil.Wrap", false, "stack", "errutil/wrap", []int{0, 1}},
	{"errutil.WrapWithDepth", true, "stack", "errutil/wrap", []int{0, 1}},
	{"errutil.Wrapf", false, "stack", "errutil/wrap", []int{0, 1, 2, 6}},
	{"errutil.WrapWithDepthf", true, "stack", "errutil/wrap", []int{0, 1, 2, 6}},
	{"errutil.AssertionFailedf", false, "stack", "errutil/assert", []int{0, 1, 2, 3}},
	{"errutil.AssertionFailedWithDepthf", true, "stack", "errutil/assert", []int{0, 1, 2, 3}},
	{"errutil.NewAssertionErrorWithWrappedErrf", false, "stack", "errutil/assert", []int{0, 1, 2, 6}},
	{"errutil.NewAssertionErrorWithWrappedErrDepthf", true, "stack", "errutil/assert", []int{0, 1, 2, 6}},
	{"errutil.HandleAsAssertionFailure", false, "stack", "errutil/assert", []int{0, 7}},
	{"errutil.HandleAsAssertionFailureDepth", true, "stack", "errutil/assert", []int{0, 7}},
	{"errutil.JoinWithDepth", true, "stack", "errutil/join", []int{0, 4, 5}},

	{"withstack.WithStack", false, "stack", "withstack", []int{0}},
	{"withstack.WithStackDepth", true, "stack", "withstack", []int{0}},

	{"domains.New", false, "domain", "domains", []int{0, 1}},
	{"domains.Handled", false, "domain", "domains", []int{0}},
	{"domains.PackageDomain", false, "domain", "domains", []int{0}},
	{"domains.PackageDomainAtDepth", true, "domain", "domains", []int{0}},

	{"status.Error", false, "stack", "grpc-status", []int{0, 1}},
	{"status.Errorf", false, "stack", "grpc-status", []int{0, 1, 2, 3}},
	{"status.WrapErr", false, "stack", "grpc-status", []int{0, 1}},
	{"status.WrapErrf", false, "stack", "grpc-status", []int{0, 1, 2, 6}},
}

// notConstructors are exported functions that capture a stack but do not
// construct an error for their caller: errutil.As captures one only for the
// panic object it raises on API misuse (nil / non-pointer target). Functions
// that reach a capture only through them (errors.As, oserror.Is*) are
// counted, not enumerated.
var notConstructors = map[string]bool{"errutil.As": true}

// link describes what the runtime knows about link d of a chain.
type link struct {
	dir, file string    // of package p_d
	fn        [nPaths]string // full function name of p_d's link, per call path
	short     [nPaths]string // the function's own name as written in the source
}

func funcName(f interface{}) string {
	return runtime.FuncForPC(reflect.ValueOf(f).Pointer()).Name()
}

// links asks the helper packages (nothing is hard-coded).
func links() [maxDepth + 1]link {
	var l [maxDepth + 1]link
	l[0].dir, l[0].file = p0.Where()
	l[1].dir, l[1].file = p1.Where()
	l[2].dir, l[2].file = p2.Where()
	l[3].dir, l[3].file = p3.Where()
	// paths 3 and 4 (generic function, method of a generic type) end in p0's plain H
	l[0].fn = [nPaths]string{funcName(p0.H), funcName((*p0.T).G), funcName(p0.H), funcName(p0.H)}
	l[1].fn = [nPaths]string{funcName(p1.H), funcName((*p1.T).G), funcName(p1.HG[int]), funcName((*p1.GT[int]).GG)}
	l[2].fn = [nPaths]string{funcName(p2.H), funcName((*p2.T).G), funcName(p2.HG[int]), funcName((*p2.GT[int]).GG)}
	l[3].fn = [nPaths]string{funcName(p3.H), funcName((*p3.T).G), funcName(p3.HG[int]), funcName((*p3.GT[int]).GG)}
	l[0].short = [nPaths]string{"H", "G", "H", "H"}
	for d := 1; d <= maxDepth; d++ {
		l[d].short = [nPaths]string{"H", "G", "HG", "GG"}
	}
	return l
}

// enter runs one case from the top of the chain.
//
//go:noinline
func enter(path int, name string, shape, depth int) (string, error) {
	switch path {
	case 1:
		return p3.H(name, shape, depth)
	case 3:
		return p3.HG[int](name, shape, depth)
	case 4:
		return (&p3.GT[int]{}).GG(name, shape, depth)
	}
	var top interface {
		G(string, int, int) (string, error)
	} = &p3.T{}
	return top.G(name, shape, depth)
}

// nested reaches enter through n extra non-inlinable recursive frames, so
// that the captured stack is
//
//	library function <- p0 <- p1 <- p2 <- p3 <- enter <- nested x (n+1) <- check
//
// and can be made deeper than the library's 32-entry PC buffer.
//
//go:noinline
func nested(n int, path int, name string, shape, depth int) (string, error) {
	if n > 0 {
		return nested(n-1, path, name, shape, depth)
	}
	var pcs [512]uintptr
	framesAboveChain = runtime.Callers(1, pcs[:])
	return enter(path, name, shape, depth)
}

// framesAboveChain is the number of frames from the innermost nested frame
// up to goexit in the last case run (evidence only).
var framesAboveChain int

// nests are the extra stack depths. The library keeps 32 PCs per stack:
// quick takes one value on each side, thorough sweeps every value up to 40
// (which contains the boundary whatever the depth of the harness itself, and
// 31, 32, 33) plus 70 (more than two buffers). 0 comes first (the un-nested
// twin decides the key), then the quick values, so that a defect seen by both
// tiers gets the same key in both.
func nests(thorough bool) []int {
	ns := []int{0, 40}
	if !thorough {
		return ns
	}
	for n := 1; n < 40; n++ {
		ns = append(ns, n)
	}
	return append(ns, 70)
}

type replay struct {
	Func  string `json:"func"`
	Shape int    `json:"shape"`
	Depth int    `json:"depth"`
	Path  int    `json:"path"`
	Nest  int    `json:"nest"`
}

// vkey is clause|pkg.Func, with |shape=<n> appended for the non-default
// argument shapes only (keys of shape 0 are the historical ones) and
// |nest=<n> only for a nested case whose un-nested twin passes (nestTag 0
// otherwise); n is the first nest value, in enumeration order, at which that
// (function, shape) fails: later nest values add to its count.
func vkey(clause string, fc fcase, shape, nestTag int) string {
	k := clause + "|" + fc.name
	if shape != 0 {
		k += fmt.Sprintf("|shape=%d", shape)
	}
	if nestTag != 0 {
		k += fmt.Sprintf("|nest=%d", nestTag)
	}
	return k
}

func hasShape(fc fcase, shape int) bool {
	for _, s := range fc.shapes {
		if s == shape {
			return true
		}
	}
	return false
}

// lastDot splits "a/b.(*T).G" into the part after the last dot, the way
// withstack.GetOneLineSource reports a function.
func lastDot(s string) string {
	if i := strings.LastIndex(s, "."); i >= 0 {
		return s[i+1:]
	}
	return s
}

// whoIs names the link (or says "none") that full function name fn or
// directory dir belongs to: it makes messages readable.
func whoIs(ls [maxDepth + 1]link, fn, dir string) string {
	for d, l := range ls {
		if (fn != "" && (l.fn[0] == fn || l.fn[1] == fn || l.fn[2] == fn || l.fn[3] == fn)) || (dir != "" && l.dir == dir) {
			return fmt.Sprintf("link %d of the chain", d)
		}
	}
	return "not a link of the chain"
}

// runCase executes one (function, shape, depth, path, nest) and applies the
// oracle. nestTag is what the violation keys carry (see vkey). It returns the
// clauses evaluated.
func runCase(r *core.Result, ls [maxDepth + 1]link, fc fcase, shape, depth, path, nest, nestTag int) (evals int64, ok bool) {
	rp := replay{fc.name, shape, depth, path, nest}
	where := fmt.Sprintf("%s (argument shape %d %q) at depth %d via call path %d, chain entered below %d extra frames", fc.name, shape, p0.ShapeNames[shape], depth, path, nest)
	want := ls[depth]
	wantFn := want.fn[path-1]

	var dom string
	var err error
	var pnc interface{}
	func() {
		defer func() { pnc = recover() }()
		dom, err = nested(nest, path, fc.name, shape, depth)
	}()
	if pnc != nil {
		clause := "stack-frame"
		if fc.kind == "domain" {
			clause = "domain"
		}
		r.Violate(vkey(clause, fc, shape, nestTag), fmt.Sprintf("%s panics: %v", where, pnc), rp)
		return 1, false
	}
	if dom == p0.Unknown || dom == p0.NoShape {
		r.HarnessError("C16: p0 has no case for table entry %q shape %d (path %d)", fc.name, shape, path)
		return 0, false
	}

	ok = true
	if fc.kind == "domain" {
		if err != nil {
			dom = string(errors.GetDomain(err))
		}
		wantDom := "error domain: pkg " + want.dir
		evals++
		if dom != wantDom {
			ok = false
			got := strings.TrimPrefix(dom, "error domain: pkg ")
			r.Violate(vkey("domain", fc, shape, nestTag), fmt.Sprintf("%s: domain is %q (%s), want %q (the package of link %d, function %s)",
				where, dom, whoIs(ls, "", got), wantDom, depth, wantFn), rp)
		}
		return evals, ok
	}

	// stack functions
	if err == nil {
		r.HarnessError("C16: %s returned a nil error", where)
		return 0, false
	}
	var stacks []*errors.ReportableStackTrace
	for e := err; e != nil; e = errors.UnwrapOnce(e) {
		if st := errors.GetReportableStackTrace(e); st != nil && len(st.Frames) > 0 {
			stacks = append(stacks, st)
		}
	}
	evals++
	if len(stacks) == 0 {
		r.Violate(vkey("stack-frame", fc, shape, nestTag), fmt.Sprintf("%s: no layer of the result (%T) carries a stack trace", where, err), rp)
		return evals, false
	}
	if len(stacks) != 1 {
		r.HarnessError("C16: %s produced %d stacks; the harness causes are meant to be stackless and secondary errors are not on the cause chain", where, len(stacks))
	}
	outer := stacks[0]
	fr := outer.Frames[len(outer.Frames)-1] // Sentry order: innermost frame last
	gotFn := fr.Module + "." + fr.Function
	gotDir, gotFile := filepath.Dir(fr.AbsPath), filepath.Base(fr.AbsPath)
	// (the function part of the frame is the function's own name, also for
	// generic functions and methods of generic types)
	// (module + function give back the runtime's name, the "[...]" that
	// stands for type arguments apart)
	unbr := func(s string) string { return strings.ReplaceAll(s, "[...]", "") }
	frameOK := unbr(gotFn) == unbr(wantFn) && fr.Function == want.short[path-1] && gotDir == want.dir && gotFile == want.file
	if !frameOK {
		ok = false
		r.Violate(vkey("stack-frame", fc, shape, nestTag), fmt.Sprintf("%s: first recorded frame is %s (%s:%d; %s), want %s in %s (link %d)",
			where, gotFn, fr.AbsPath, fr.Lineno, whoIs(ls, gotFn, ""), wantFn, filepath.Join(want.dir, want.file), depth), rp)
	}

	// GetOneLineSource: file, line, function of the innermost frame of the
	// innermost stack (there is exactly one stack here). When the frame
	// itself is already wrong this is the same defect: not reported twice.
	if frameOK {
		evals++
		file, line, fn, found := errors.GetOneLineSource(err)
		inner := stacks[len(stacks)-1]
		ifr := inner.Frames[len(inner.Frames)-1]
		switch {
		case !found:
			ok = false
			r.Violate(vkey("oneline", fc, shape, nestTag), fmt.Sprintf("%s: GetOneLineSource finds nothing although a stack is recorded", where), rp)
		case file != want.file || fn != want.short[path-1] || line != ifr.Lineno || line <= 0:
			ok = false
			r.Violate(vkey("oneline", fc, shape, nestTag), fmt.Sprintf("%s: GetOneLineSource = (%s, %d, %s), want (%s, %d, %s)",
				where, file, line, fn, want.file, ifr.Lineno, want.short[path-1]), rp)
		}
	}
	return evals, ok
}

func runC16(c *core.Ctx, r *core.Result) {
	if c.Shard != 0 {
		return
	}
	ns := nests(c.Thorough())
	nfs := 0
	for _, fc := range table {
		nfs += len(fc.shapes)
	}
	r.Bounds = fmt.Sprintf("%d exported functions (root, errutil, withstack, domains, grpc/status) x every argument shape that selects a different library branch (%d (function, shape) pairs; shapes %s) x depth 0..%d (depth 0 only for functions without a depth parameter) x %d call paths (plain functions; methods through interface values; generic functions; methods of generic types) x chain entered below N extra recursive frames, N in %v (the library keeps 32 PCs per stack), each through a 4-package non-inlinable chain", len(table), nfs, strings.Join(p0.ShapeNames, ", "), maxDepth, nPaths, ns)
	r.Rule = "state = (function, argument shape, depth, call path, nest); transition = one call-chain hop (4 + nest per state); non-trivial = depth>=1 or call path 2 or shape != plain or nest != 0; outcome class = function family"
	r.Assumptions = []string{
		"//go:noinline keeps every link of the chain a real frame; the library functions themselves may be inlined (runtime.Callers/Caller expand inlined frames)",
		"causes handed to Wrap*/WithStack*/HandleAs*/Join* and the %w argument carry no stack and no domain, so each result has exactly one stack on its cause chain; the error-valued %v argument (shape error-arg) does have a stack of its own, which must not be picked up",
		"argument shapes were chosen by reading the branches of errutil/utilities.go, errutil/assertions.go, join, withstack, domains and grpc/status; a branch keyed on something else is not covered",
		"errutil.As captures a stack only to build the panic object for API misuse; it and the functions reaching a capture only through it (errors.As, oserror.Is*) are not constructors and are excluded (counted in functions_capturing_only_via_As_panic)",
		"only the innermost recorded frame is checked: how many outer frames a deep stack keeps (the library truncates at 32) is not part of C16",
		"expected directories, files and function names are asked from the runtime (runtime.Caller(0), FuncForPC), not hard-coded",
	}
	ls := links()
	// the chain itself must be what we think it is
	for d := 0; d <= maxDepth; d++ {
		// (link 2 presents itself under a //line path with colons)
		if !(strings.HasSuffix(ls[d].dir, fmt.Sprintf("callmc/p%d", d)) && ls[d].file == fmt.Sprintf("p%d.go", d)) &&
			!(d == 2 && ls[d].dir == "/verif-virtual/vol:1/p2" && ls[d].file == "p2:gen.go") {
			r.HarnessError("C16: link %d lives in %s/%s", d, ls[d].dir, ls[d].file)
		}
		for e := 0; e < d; e++ {
			if ls[d].dir == ls[e].dir || ls[d].fn[0] == ls[e].fn[0] || ls[d].fn[1] == ls[e].fn[1] {
				r.HarnessError("C16: links %d and %d are not distinct", d, e)
			}
		}
	}

	if c.Replay != nil {
		var rp replay
		if err := json.Unmarshal(c.Replay, &rp); err != nil {
			r.HarnessError("C16: bad replay payload: %v", err)
			return
		}
		for _, fc := range table {
			if fc.name == rp.Func && hasShape(fc, rp.Shape) && rp.Depth >= 0 && rp.Depth <= maxDepth && (rp.Path == 1 || rp.Path == 2) && rp.Nest >= 0 && rp.Nest <= 1000 {
				tag := 0
				if rp.Nest != 0 {
					// the key says nest only when the un-nested twin passes
					if _, ok0 := runCase(core.NewResult(), ls, fc, rp.Shape, rp.Depth, rp.Path, 0, 0); ok0 {
						tag = rp.Nest
					}
				}
				ev, _ := runCase(r, ls, fc, rp.Shape, rp.Depth, rp.Path, rp.Nest, tag)
				r.States++
				r.Transitions += hopsPerCase + int64(rp.Nest)
				r.Evaluations += ev
				r.Sample(rp)
				return
			}
		}
		r.HarnessError("C16: replay names an unknown case %+v", rp)
		return
	}

	covered := map[string]bool{}
	firstNest := map[[2]interface{}]int{} // (function, shape) -> nest value its nested failures are keyed with
	for i, fc := range table {
		covered[fc.name] = true
		top := 0
		if fc.hasDepth {
			top = maxDepth
		}
		for shape := range p0.ShapeNames {
			if !hasShape(fc, shape) {
				// p0 must agree that the combination does not exist
				for path := 1; path <= nPaths; path++ {
					if dom, _ := enter(path, fc.name, shape, 0); dom != p0.NoShape {
						r.HarnessError("C16: p0 (path %d) accepts shape %d of %s, the table does not list it", path, shape, fc.name)
					}
				}
				continue
			}
			r.Count("function_shape_pairs", 1)
			for d := 0; d <= top; d++ {
				for path := 1; path <= nPaths; path++ {
					ok0 := false
					for _, nest := range ns { // ns[0] == 0
						tag := 0
						if nest != 0 && ok0 {
							tag = nest
							if t, seen := firstNest[[2]interface{}{fc.name, shape}]; seen {
								tag = t
							}
						}
						ev, ok := runCase(r, ls, fc, shape, d, path, nest, tag)
						if nest == 0 {
							ok0 = ok
						}
						if !ok && tag != 0 {
							firstNest[[2]interface{}{fc.name, shape}] = tag
						}
						r.States++
						r.Transitions += hopsPerCase + int64(nest)
						r.Evaluations += ev
						if ok && (d >= 1 || path == 2 || shape != 0 || nest != 0) {
							r.Nontrivial++
						}
						r.Outcome(fc.family)
						r.Count("cases_"+fc.kind, 1)
						r.Count(fmt.Sprintf("cases_shape_%d_%s", shape, p0.ShapeNames[shape]), 1)
						r.Count(fmt.Sprintf("cases_nest_%02d", nest), 1)
						// frames from the attributed caller (link d) up to goexit
						if above := int64(framesAboveChain + 1 + maxDepth - d + 1); above > 32 {
							r.Count("cases_with_more_than_32_frames_above_the_attributed_caller", 1)
						} else {
							r.Count("cases_with_at_most_32_frames_above_the_attributed_caller", 1)
						}
						if (i%9 == 0 && d == top && path == 2 && shape == fc.shapes[len(fc.shapes)-1] && nest == ns[len(ns)-1]) || (fc.name == "errors.PackageDomain" && path == 1 && nest == 0) {
							r.Sample(map[string]interface{}{"func": fc.name, "shape": p0.ShapeNames[shape], "depth": d, "path": path, "nest": nest, "frames_from_attributed_caller_to_goexit": framesAboveChain + 1 + maxDepth - d + 1, "expect_function": ls[d].fn[path-1], "expect_dir": ls[d].dir, "ok": ok})
						}
					}
				}
			}
		}
	}

	// cross-check the table with the source
	scanned, err := scanCapturing("/repo", notConstructors)
	if err != nil {
		r.HarnessError("C16: AST scan of /repo failed: %v", err)
	}
	if all, err := scanCapturing("/repo", nil); err == nil {
		// reach a capture only through errutil.As's misuse panic
		r.Count("functions_capturing_only_via_As_panic", int64(len(all)-len(scanned)))
	}
	r.Count("functions_in_table", int64(len(table)))
	r.Count("functions_scanned", int64(len(scanned)))
	seen := map[string]bool{}
	for _, s := range scanned {
		seen[s] = true
		if !covered[s] {
			r.Uncovered = append(r.Uncovered, "C16:"+s)
		}
	}
	// the other direction: a table entry the scan does not see means the
	// scan (or the table) is wrong.
	var extra []string
	for _, fc := range table {
		if !seen[fc.name] {
			extra = append(extra, fc.name)
		}
	}
	sort.Strings(extra)
	if len(scanned) > 0 && len(extra) > 0 {
		r.HarnessError("C16: table entries not found by the reachability scan: %v", extra)
	}
}
