// Package p0 is the innermost link of the C16 call chains. Every library
// function under test is called lexically inside H (call path 1, plain
// functions) and inside (*T).G (call path 2, methods reached through an
// interface value), so that "the caller" of the library function is p0.H /
// p0.(*T).G, the caller above that is p1's, and so on up to p3.
//
// shape selects the argument shape, one per argument-dependent branch of the
// library (see ShapeNames). The two switch bodies are identical on purpose
// (the check compares what they accept).
package p0

import (
	goerrors "errors"
	"path/filepath"
	"runtime"

	"github.com/cockroachdb/errors"
	"github.com/cockroachdb/errors/domains"
	"github.com/cockroachdb/errors/errutil"
	"github.com/cockroachdb/errors/grpc/status"
	"github.com/cockroachdb/errors/withstack"
	"google.golang.org/grpc/codes"
)

// Cause, Cause2 and Other carry no stack trace and no domain, so that the
// only stack / domain on the cause chain of a constructed error is the one
// under test.
var (
	Cause  = goerrors.New("cause")
	Cause2 = goerrors.New("cause2")
	Other  = goerrors.New("other")
	// Marked is a stackless cause that is already an assertion failure.
	Marked = errors.WithAssertionFailure(goerrors.New("marked cause"))
)

// OtherStack is an error-valued format argument that has a stack of its own
// (captured in this package's init): it ends up as a secondary error and its
// stack must never be taken for the constructor's.
var OtherStack = errors.New("other with stack")

// Formats live in variables so that vet's printf check leaves %w alone.
var (
	FmtV = "x %v"
	FmtW = "x: %w"
)

// ShapeNames names the argument shapes.
var ShapeNames = []string{
	0: "plain",          // "x" / "x %d", 1 / two errors
	1: "empty",          // empty message, or empty format without arguments
	2: "error-arg",      // format with an error-valued argument (secondary error)
	3: "percent-w",      // format with %w
	4: "join-one",       // Join of a single error
	5: "join-nil-among", // Join of two errors with a nil between them
	6: "empty-fmt-args", // empty format with arguments
	7: "marked-cause",   // the cause already carries an assertion-failure marker (no stack)
}

// Unknown is returned as domain for a name that has no case, NoShape for a
// (function, shape) combination that does not exist.
const (
	Unknown = "\x00unknown case"
	NoShape = "\x00no such shape"
)

// Where reports the directory and base name of this package's source file
// exactly as the runtime sees them.
func Where() (dir, file string) {
	_, f, _, _ := runtime.Caller(0)
	return filepath.Dir(f), filepath.Base(f)
}

// T carries call path 2.
type T struct{}

// H calls the library function called name with argument shape shape and
// the given depth (call path 1). It returns either a domain or an error.
//
//go:noinline
func H(name string, shape, depth int) (dom string, err error) {
	switch name {
	case "errors.New":
		switch shape {
		case 0:
			return "", errors.New("x")
		case 1:
			return "", errors.New("")
		}
		return NoShape, nil
	case "errors.NewWithDepth":
		switch shape {
		case 0:
			return "", errors.NewWithDepth(depth, "x")
		case 1:
			return "", errors.NewWithDepth(depth, "")
		}
		return NoShape, nil
	case "errors.Newf":
		switch shape {
		case 0:
			return "", errors.Newf("x %d", 1)
		case 1:
			return "", errors.Newf("")
		case 2:
			return "", errors.Newf(FmtV, OtherStack)
		case 3:
			return "", errors.Newf(FmtW, Other)
		}
		return NoShape, nil
	case "errors.NewWithDepthf":
		switch shape {
		case 0:
			return "", errors.NewWithDepthf(depth, "x %d", 1)
		case 1:
			return "", errors.NewWithDepthf(depth, "")
		case 2:
			return "", errors.NewWithDepthf(depth, FmtV, OtherStack)
		case 3:
			return "", errors.NewWithDepthf(depth, FmtW, Other)
		}
		return NoShape, nil
	case "errors.Errorf":
		switch shape {
		case 0:
			return "", errors.Errorf("x %d", 1)
		case 1:
			return "", errors.Errorf("")
		case 2:
			return "", errors.Errorf(FmtV, OtherStack)
		case 3:
			return "", errors.Errorf(FmtW, Other)
		}
		return NoShape, nil
	case "errors.Wrap":
		switch shape {
		case 0:
			return "", errors.Wrap(Cause, "x")
		case 1:
			return "", errors.Wrap(Cause, "")
		}
		return NoShape, nil
	case "errors.WrapWithDepth":
		switch shape {
		case 0:
			return "", errors.WrapWithDepth(depth, Cause, "x")
		case 1:
			return "", errors.WrapWithDepth(depth, Cause, "")
		}
		return NoShape, nil
	case "errors.Wrapf":
		switch shape {
		case 0:
			return "", errors.Wrapf(Cause, "x %d", 1)
		case 1:
			return "", errors.Wrapf(Cause, "")
		case 2:
			return "", errors.Wrapf(Cause, FmtV, OtherStack)
		case 6:
			return "", errors.Wrapf(Cause, "", 1)
		}
		return NoShape, nil
	case "errors.WrapWithDepthf":
		switch shape {
		case 0:
			return "", errors.WrapWithDepthf(depth, Cause, "x %d", 1)
		case 1:
			return "", errors.WrapWithDepthf(depth, Cause, "")
		case 2:
			return "", errors.WrapWithDepthf(depth, Cause, FmtV, OtherStack)
		case 6:
			return "", errors.WrapWithDepthf(depth, Cause, "", 1)
		}
		return NoShape, nil
	case "errors.WithStack":
		switch shape {
		case 0:
			return "", errors.WithStack(Cause)
		}
		return NoShape, nil
	case "errors.WithStackDepth":
		switch shape {
		case 0:
			return "", errors.WithStackDepth(Cause, depth)
		}
		return NoShape, nil
	case "errors.AssertionFailedf":
		switch shape {
		case 0:
			return "", errors.AssertionFailedf("x %d", 1)
		case 1:
			return "", errors.AssertionFailedf("")
		case 2:
			return "", errors.AssertionFailedf(FmtV, OtherStack)
		case 3:
			return "", errors.AssertionFailedf(FmtW, Other)
		}
		return NoShape, nil
	case "errors.AssertionFailedWithDepthf":
		switch shape {
		case 0:
			return "", errors.AssertionFailedWithDepthf(depth, "x %d", 1)
		case 1:
			return "", errors.AssertionFailedWithDepthf(depth, "")
		case 2:
			return "", errors.AssertionFailedWithDepthf(depth, FmtV, OtherStack)
		case 3:
			return "", errors.AssertionFailedWithDepthf(depth, FmtW, Other)
		}
		return NoShape, nil
	case "errors.NewAssertionErrorWithWrappedErrf":
		switch shape {
		case 0:
			return "", errors.NewAssertionErrorWithWrappedErrf(Cause, "x %d", 1)
		case 1:
			return "", errors.NewAssertionErrorWithWrappedErrf(Cause, "")
		case 2:
			return "", errors.NewAssertionErrorWithWrappedErrf(Cause, FmtV, OtherStack)
		case 6:
			return "", errors.NewAssertionErrorWithWrappedErrf(Cause, "", 1)
		}
		return NoShape, nil
	case "errors.HandleAsAssertionFailure":
		switch shape {
		case 0:
			return "", errors.HandleAsAssertionFailure(Cause)
		case 7:
			return "", errors.HandleAsAssertionFailure(Marked)
		}
		return NoShape, nil
	case "errors.HandleAsAssertionFailureDepth":
		switch shape {
		case 0:
			return "", errors.HandleAsAssertionFailureDepth(depth, Cause)
		case 7:
			return "", errors.HandleAsAssertionFailureDepth(depth, Marked)
		}
		return NoShape, nil
	case "errors.Join":
		switch shape {
		case 0:
			return "", errors.Join(Cause, Cause2)
		case 4:
			return "", errors.Join(Cause)
		case 5:
			return "", errors.Join(Cause, nil, Cause2)
		}
		return NoShape, nil
	case "errors.JoinWithDepth":
		switch shape {
		case 0:
			return "", errors.JoinWithDepth(depth, Cause, Cause2)
		case 4:
			return "", errors.JoinWithDepth(depth, Cause)
		case 5:
			return "", errors.JoinWithDepth(depth, Cause, nil, Cause2)
		}
		return NoShape, nil
	case "errors.PackageDomain":
		switch shape {
		case 0:
			return string(errors.PackageDomain()), nil
		}
		return NoShape, nil
	case "errors.PackageDomainAtDepth":
		switch shape {
		case 0:
			return string(errors.PackageDomainAtDepth(depth)), nil
		}
		return NoShape, nil
	case "errutil.New":
		switch shape {
		case 0:
			return "", errutil.New("x")
		case 1:
			return "", errutil.New("")
		}
		return NoShape, nil
	case "errutil.NewWithDepth":
		switch shape {
		case 0:
			return "", errutil.NewWithDepth(depth, "x")
		case 1:
			return "", errutil.NewWithDepth(depth, "")
		}
		return NoShape, nil
	case "errutil.Newf":
		switch shape {
		case 0:
			return "", errutil.Newf("x %d", 1)
		case 1:
			return "", errutil.Newf("")
		case 2:
			return "", errutil.Newf(FmtV, OtherStack)
		case 3:
			return "", errutil.Newf(FmtW, Other)
		}
		return NoShape, nil
	case "errutil.NewWithDepthf":
		switch shape {
		case 0:
			return "", errutil.NewWithDepthf(depth, "x %d", 1)
		case 1:
			return "", errutil.NewWithDepthf(depth, "")
		case 2:
			return "", errutil.NewWithDepthf(depth, FmtV, OtherStack)
		case 3:
			return "", errutil.NewWithDepthf(depth, FmtW, Other)
		}
		return NoShape, nil
	case "errutil.Wrap":
		switch shape {
		case 0:
			return "", errutil.Wrap(Cause, "x")
		case 1:
			return "", errutil.Wrap(Cause, "")
		}
		return NoShape, nil
	case "errutil.WrapWithDepth":
		switch shape {
		case 0:
			return "", errutil.WrapWithDepth(depth, Cause, "x")
		case 1:
			return "", errutil.WrapWithDepth(depth, Cause, "")
		}
		return NoShape, nil
	case "errutil.Wrapf":
		switch shape {
		case 0:
			return "", errutil.Wrapf(Cause, "x %d", 1)
		case 1:
			return "", errutil.Wrapf(Cause, "")
		case 2:
			return "", errutil.Wrapf(Cause, FmtV, OtherStack)
		case 6:
			return "", errutil.Wrapf(Cause, "", 1)
		}
		return NoShape, nil
	case "errutil.WrapWithDepthf":
		switch shape {
		case 0:
			return "", errutil.WrapWithDepthf(depth, Cause, "x %d", 1)
		case 1:
			return "", errutil.WrapWithDepthf(depth, Cause, "")
		case 2:
			return "", errutil.WrapWithDepthf(depth, Cause, FmtV, OtherStack)
		case 6:
			return "", errutil.WrapWithDepthf(depth, Cause, "", 1)
		}
		return NoShape, nil
	case "errutil.AssertionFailedf":
		switch shape {
		case 0:
			return "", errutil.AssertionFailedf("x %d", 1)
		case 1:
			return "", errutil.AssertionFailedf("")
		case 2:
			return "", errutil.AssertionFailedf(FmtV, OtherStack)
		case 3:
			return "", errutil.AssertionFailedf(FmtW, Other)
		}
		return NoShape, nil
	case "errutil.AssertionFailedWithDepthf":
		switch shape {
		case 0:
			return "", errutil.AssertionFailedWithDepthf(depth, "x %d", 1)
		case 1:
			return "", errutil.AssertionFailedWithDepthf(depth, "")
		case 2:
			return "", errutil.AssertionFailedWithDepthf(depth, FmtV, OtherStack)
		case 3:
			return "", errutil.AssertionFailedWithDepthf(depth, FmtW, Other)
		}
		return NoShape, nil
	case "errutil.NewAssertionErrorWithWrappedErrf":
		switch shape {
		case 0:
			return "", errutil.NewAssertionErrorWithWrappedErrf(Cause, "x %d", 1)
		case 1:
			return "", errutil.NewAssertionErrorWithWrappedErrf(Cause, "")
		case 2:
			return "", errutil.NewAssertionErrorWithWrappedErrf(Cause, FmtV, OtherStack)
		case 6:
			return "", errutil.NewAssertionErrorWithWrappedErrf(Cause, "", 1)
		}
		return NoShape, nil
	case "errutil.NewAssertionErrorWithWrappedErrDepthf":
		switch shape {
		case 0:
			return "", errutil.NewAssertionErrorWithWrappedErrDepthf(depth, Cause, "x %d", 1)
		case 1:
			return "", errutil.NewAssertionErrorWithWrappedErrDepthf(depth, Cause, "")
		case 2:
			return "", errutil.NewAssertionErrorWithWrappedErrDepthf(depth, Cause, FmtV, OtherStack)
		case 6:
			return "", errutil.NewAssertionErrorWithWrappedErrDepthf(depth, Cause, "", 1)
		}
		return NoShape, nil
	case "errutil.HandleAsAssertionFailure":
		switch shape {
		case 0:
			return "", errutil.HandleAsAssertionFailure(Cause)
		case 7:
			return "", errutil.HandleAsAssertionFailure(Marked)
		}
		return NoShape, nil
	case "errutil.HandleAsAssertionFailureDepth":
		switch shape {
		case 0:
			return "", errutil.HandleAsAssertionFailureDepth(depth, Cause)
		case 7:
			return "", errutil.HandleAsAssertionFailureDepth(depth, Marked)
		}
		return NoShape, nil
	case "errutil.JoinWithDepth":
		switch shape {
		case 0:
			return "", errutil.JoinWithDepth(depth, Cause, Cause2)
		case 4:
			return "", errutil.JoinWithDepth(depth, Cause)
		case 5:
			return "", errutil.JoinWithDepth(depth, Cause, nil, Cause2)
		}
		return NoShape, nil
	case "withstack.WithStack":
		switch shape {
		case 0:
			return "", withstack.WithStack(Cause)
		}
		return NoShape, nil
	case "withstack.WithStackDepth":
		switch shape {
		case 0:
			return "", withstack.WithStackDepth(Cause, depth)
		}
		return NoShape, nil
	case "domains.New":
		switch shape {
		case 0:
			return "", domains.New("x")
		case 1:
			return "", domains.New("")
		}
		return NoShape, nil
	case "domains.Handled":
		switch shape {
		case 0:
			return "", domains.Handled(Cause)
		}
		return NoShape, nil
	case "domains.PackageDomain":
		switch shape {
		case 0:
			return string(domains.PackageDomain()), nil
		}
		return NoShape, nil
	case "domains.PackageDomainAtDepth":
		switch shape {
		case 0:
			return string(domains.PackageDomainAtDepth(depth)), nil
		}
		return NoShape, nil
	case "status.Error":
		switch shape {
		case 0:
			return "", status.Error(codes.NotFound, "x")
		case 1:
			return "", status.Error(codes.NotFound, "")
		}
		return NoShape, nil
	case "status.Errorf":
		switch shape {
		case 0:
			return "", status.Errorf(codes.NotFound, "x %d", 1)
		case 1:
			return "", status.Errorf(codes.NotFound, "")
		case 2:
			return "", status.Errorf(codes.NotFound, FmtV, OtherStack)
		case 3:
			return "", status.Errorf(codes.NotFound, FmtW, Other)
		}
		return NoShape, nil
	case "status.WrapErr":
		switch shape {
		case 0:
			return "", status.WrapErr(codes.NotFound, "x", Cause)
		case 1:
			return "", status.WrapErr(codes.NotFound, "", Cause)
		}
		return NoShape, nil
	case "status.WrapErrf":
		switch shape {
		case 0:
			return "", status.WrapErrf(codes.NotFound, Cause, "x %d", 1)
		case 1:
			return "", status.WrapErrf(codes.NotFound, Cause, "")
		case 2:
			return "", status.WrapErrf(codes.NotFound, Cause, FmtV, OtherStack)
		case 6:
			return "", status.WrapErrf(codes.NotFound, Cause, "", 1)
		}
		return NoShape, nil
	}
	return Unknown, nil
}

// G is H for call path 2.
//
//go:noinline
func (t *T) G(name string, shape, depth int) (dom string, err error) {
	switch name {
	case "errors.New":
		switch shape {
		case 0:
			return "", errors.New("x")
		case 1:
			return "", errors.New("")
		}
		return NoShape, nil
	case "errors.NewWithDepth":
		switch shape {
		case 0:
			return "", errors.NewWithDepth(depth, "x")
		case 1:
			return "", errors.NewWithDepth(depth, "")
		}
		return NoShape, nil
	case "errors.Newf":
		switch shape {
		case 0:
			return "", errors.Newf("x %d", 1)
		case 1:
			return "", errors.Newf("")
		case 2:
			return "", errors.Newf(FmtV, OtherStack)
		case 3:
			return "", errors.Newf(FmtW, Other)
		}
		return NoShape, nil
	case "errors.NewWithDepthf":
		switch shape {
		case 0:
			return "", errors.NewWithDepthf(depth, "x %d", 1)
		case 1:
			return "", errors.NewWithDepthf(depth, "")
		case 2:
			return "", errors.NewWithDepthf(depth, FmtV, OtherStack)
		case 3:
			return "", errors.NewWithDepthf(depth, FmtW, Other)
		}
		return NoShape, nil
	case "errors.Errorf":
		switch shape {
		case 0:
			return "", errors.Errorf("x %d", 1)
		case 1:
			return "", errors.Errorf("")
		case 2:
			return "", errors.Errorf(FmtV, OtherStack)
		case 3:
			return "", errors.Errorf(FmtW, Other)
		}
		return NoShape, nil
	case "errors.Wrap":
		switch shape {
		case 0:
			return "", errors.Wrap(Cause, "x")
		case 1:
			return "", errors.Wrap(Cause, "")
		}
		return NoShape, nil
	case "errors.WrapWithDepth":
		switch shape {
		case 0:
			return "", errors.WrapWithDepth(depth, Cause, "x")
		case 1:
			return "", errors.WrapWithDepth(depth, Cause, "")
		}
		return NoShape, nil
	case "errors.Wrapf":
		switch shape {
		case 0:
			return "", errors.Wrapf(Cause, "x %d", 1)
		case 1:
			return "", errors.Wrapf(Cause, "")
		case 2:
			return "", errors.Wrapf(Cause, FmtV, OtherStack)
		case 6:
			return "", errors.Wrapf(Cause, "", 1)
		}
		return NoShape, nil
	case "errors.WrapWithDepthf":
		switch shape {
		case 0:
			return "", errors.WrapWithDepthf(depth, Cause, "x %d", 1)
		case 1:
			return "", errors.WrapWithDepthf(depth, Cause, "")
		case 2:
			return "", errors.WrapWithDepthf(depth, Cause, FmtV, OtherStack)
		case 6:
			return "", errors.WrapWithDepthf(depth, Cause, "", 1)
		}
		return NoShape, nil
	case "errors.WithStack":
		switch shape {
		case 0:
			return "", errors.WithStack(Cause)
		}
		return NoShape, nil
	case "errors.WithStackDepth":
		switch shape {
		case 0:
			return "", errors.WithStackDepth(Cause, depth)
		}
		return NoShape, nil
	case "errors.AssertionFailedf":
		switch shape {
		case 0:
			return "", errors.AssertionFailedf("x %d", 1)
		case 1:
			return "", errors.AssertionFailedf("")
		case 2:
			return "", errors.AssertionFailedf(FmtV, OtherStack)
		case 3:
			return "", errors.AssertionFailedf(FmtW, Other)
		}
		return NoShape, nil
	case "errors.AssertionFailedWithDepthf":
		switch shape {
		case 0:
			return "", errors.AssertionFailedWithDepthf(depth, "x %d", 1)
		case 1:
			return "", errors.AssertionFailedWithDepthf(depth, "")
		case 2:
			return "", errors.AssertionFailedWithDepthf(depth, FmtV, OtherStack)
		case 3:
			return "", errors.AssertionFailedWithDepthf(depth, FmtW, Other)
		}
		return NoShape, nil
	case "errors.NewAssertionErrorWithWrappedErrf":
		switch shape {
		case 0:
			return "", errors.NewAssertionErrorWithWrappedErrf(Cause, "x %d", 1)
		case 1:
			return "", errors.NewAssertionErrorWithWrappedErrf(Cause, "")
		case 2:
			return "", errors.NewAssertionErrorWithWrappedErrf(Cause, FmtV, OtherStack)
		case 6:
			return "", errors.NewAssertionErrorWithWrappedErrf(Cause, "", 1)
		}
		return NoShape, nil
	case "errors.HandleAsAssertionFailure":
		switch shape {
		case 0:
			return "", errors.HandleAsAssertionFailure(Cause)
		case 7:
			return "", errors.HandleAsAssertionFailure(Marked)
		}
		return NoShape, nil
	case "errors.HandleAsAssertionFailureDepth":
		switch shape {
		case 0:
			return "", errors.HandleAsAssertionFailureDepth(depth, Cause)
		case 7:
			return "", errors.HandleAsAssertionFailureDepth(depth, Marked)
		}
		return NoShape, nil
	case "errors.Join":
		switch shape {
		case 0:
			return "", errors.Join(Cause, Cause2)
		case 4:
			return "", errors.Join(Cause)
		case 5:
			return "", errors.Join(Cause, nil, Cause2)
		}
		return NoShape, nil
	case "errors.JoinWithDepth":
		switch shape {
		case 0:
			return "", errors.JoinWithDepth(depth, Cause, Cause2)
		case 4:
			return "", errors.JoinWithDepth(depth, Cause)
		case 5:
			return "", errors.JoinWithDepth(depth, Cause, nil, Cause2)
		}
		return NoShape, nil
	case "errors.PackageDomain":
		switch shape {
		case 0:
			return string(errors.PackageDomain()), nil
		}
		return NoShape, nil
	case "errors.PackageDomainAtDepth":
		switch shape {
		case 0:
			return string(errors.PackageDomainAtDepth(depth)), nil
		}
		return NoShape, nil
	case "errutil.New":
		switch shape {
		case 0:
			return "", errutil.New("x")
		case 1:
			return "", errutil.New("")
		}
		return NoShape, nil
	case "errutil.NewWithDepth":
		switch shape {
		case 0:
			return "", errutil.NewWithDepth(depth, "x")
		case 1:
			return "", errutil.NewWithDepth(depth, "")
		}
		return NoShape, nil
	case "errutil.Newf":
		switch shape {
		case 0:
			return "", errutil.Newf("x %d", 1)
		case 1:
			return "", errutil.Newf("")
		case 2:
			return "", errutil.Newf(FmtV, OtherStack)
		case 3:
			return "", errutil.Newf(FmtW, Other)
		}
		return NoShape, nil
	case "errutil.NewWithDepthf":
		switch shape {
		case 0:
			return "", errutil.NewWithDepthf(depth, "x %d", 1)
		case 1:
			return "", errutil.NewWithDepthf(depth, "")
		case 2:
			return "", errutil.NewWithDepthf(depth, FmtV, OtherStack)
		case 3:
			return "", errutil.NewWithDepthf(depth, FmtW, Other)
		}
		return NoShape, nil
	case "errutil.Wrap":
		switch shape {
		case 0:
			return "", errutil.Wrap(Cause, "x")
		case 1:
			return "", errutil.Wrap(Cause, "")
		}
		return NoShape, nil
	case "errutil.WrapWithDepth":
		switch shape {
		case 0:
			return "", errutil.WrapWithDepth(depth, Cause, "x")
		case 1:
			return "", errutil.WrapWithDepth(depth, Cause, "")
		}
		return NoShape, nil
	case "errutil.Wrapf":
		switch shape {
		case 0:
			return "", errutil.Wrapf(Cause, "x %d", 1)
		case 1:
			return "", errutil.Wrapf(Cause, "")
		case 2:
			return "", errutil.Wrapf(Cause, FmtV, OtherStack)
		case 6:
			return "", errutil.Wrapf(Cause, "", 1)
		}
		return NoShape, nil
	case "errutil.WrapWithDepthf":
		switch shape {
		case 0:
			return "", errutil.WrapWithDepthf(depth, Cause, "x %d", 1)
		case 1:
			return "", errutil.WrapWithDepthf(depth, Cause, "")
		case 2:
			return "", errutil.WrapWithDepthf(depth, Cause, FmtV, OtherStack)
		case 6:
			return "", errutil.WrapWithDepthf(depth, Cause, "", 1)
		}
		return NoShape, nil
	case "errutil.AssertionFailedf":
		switch shape {
		case 0:
			return "", errutil.AssertionFailedf("x %d", 1)
		case 1:
			return "", errutil.AssertionFailedf("")
		case 2:
			return "", errutil.AssertionFailedf(FmtV, OtherStack)
		case 3:
			return "", errutil.AssertionFailedf(FmtW, Other)
		}
		return NoShape, nil
	case "errutil.AssertionFailedWithDepthf":
		switch shape {
		case 0:
			return "", errutil.AssertionFailedWithDepthf(depth, "x %d", 1)
		case 1:
			return "", errutil.AssertionFailedWithDepthf(depth, "")
		case 2:
			return "", errutil.AssertionFailedWithDepthf(depth, FmtV, OtherStack)
		case 3:
			return "", errutil.AssertionFailedWithDepthf(depth, FmtW, Other)
		}
		return NoShape, nil
	case "errutil.NewAssertionErrorWithWrappedErrf":
		switch shape {
		case 0:
			return "", errutil.NewAssertionErrorWithWrappedErrf(Cause, "x %d", 1)
		case 1:
			return "", errutil.NewAssertionErrorWithWrappedErrf(Cause, "")
		case 2:
			return "", errutil.NewAssertionErrorWithWrappedErrf(Cause, FmtV, OtherStack)
		case 6:
			return "", errutil.NewAssertionErrorWithWrappedErrf(Cause, "", 1)
		}
		return NoShape, nil
	case "errutil.NewAssertionErrorWithWrappedErrDepthf":
		switch shape {
		case 0:
			return "", errutil.NewAssertionErrorWithWrappedErrDepthf(depth, Cause, "x %d", 1)
		case 1:
			return "", errutil.NewAssertionErrorWithWrappedErrDepthf(depth, Cause, "")
		case 2:
			return "", errutil.NewAssertionErrorWithWrappedErrDepthf(depth, Cause, FmtV, OtherStack)
		case 6:
			return "", errutil.NewAssertionErrorWithWrappedErrDepthf(depth, Cause, "", 1)
		}
		return NoShape, nil
	case "errutil.HandleAsAssertionFailure":
		switch shape {
		case 0:
			return "", errutil.HandleAsAssertionFailure(Cause)
		case 7:
			return "", errutil.HandleAsAssertionFailure(Marked)
		}
		return NoShape, nil
	case "errutil.HandleAsAssertionFailureDepth":
		switch shape {
		case 0:
			return "", errutil.HandleAsAssertionFailureDepth(depth, Cause)
		case 7:
			return "", errutil.HandleAsAssertionFailureDepth(depth, Marked)
		}
		return NoShape, nil
	case "errutil.JoinWithDepth":
		switch shape {
		case 0:
			return "", errutil.JoinWithDepth(depth, Cause, Cause2)
		case 4:
			return "", errutil.JoinWithDepth(depth, Cause)
		case 5:
			return "", errutil.JoinWithDepth(depth, Cause, nil, Cause2)
		}
		return NoShape, nil
	case "withstack.WithStack":
		switch shape {
		case 0:
			return "", withstack.WithStack(Cause)
		}
		return NoShape, nil
	case "withstack.WithStackDepth":
		switch shape {
		case 0:
			return "", withstack.WithStackDepth(Cause, depth)
		}
		return NoShape, nil
	case "domains.New":
		switch shape {
		case 0:
			return "", domains.New("x")
		case 1:
			return "", domains.New("")
		}
		return NoShape, nil
	case "domains.Handled":
		switch shape {
		case 0:
			return "", domains.Handled(Cause)
		}
		return NoShape, nil
	case "domains.PackageDomain":
		switch shape {
		case 0:
			return string(domains.PackageDomain()), nil
		}
		return NoShape, nil
	case "domains.PackageDomainAtDepth":
		switch shape {
		case 0:
			return string(domains.PackageDomainAtDepth(depth)), nil
		}
		return NoShape, nil
	case "status.Error":
		switch shape {
		case 0:
			return "", status.Error(codes.NotFound, "x")
		case 1:
			return "", status.Error(codes.NotFound, "")
		}
		return NoShape, nil
	case "status.Errorf":
		switch shape {
		case 0:
			return "", status.Errorf(codes.NotFound, "x %d", 1)
		case 1:
			return "", status.Errorf(codes.NotFound, "")
		case 2:
			return "", status.Errorf(codes.NotFound, FmtV, OtherStack)
		case 3:
			return "", status.Errorf(codes.NotFound, FmtW, Other)
		}
		return NoShape, nil
	case "status.WrapErr":
		switch shape {
		case 0:
			return "", status.WrapErr(codes.NotFound, "x", Cause)
		case 1:
			return "", status.WrapErr(codes.NotFound, "", Cause)
		}
		return NoShape, nil
	case "status.WrapErrf":
		switch shape {
		case 0:
			return "", status.WrapErrf(codes.NotFound, Cause, "x %d", 1)
		case 1:
			return "", status.WrapErrf(codes.NotFound, Cause, "")
		case 2:
			return "", status.WrapErrf(codes.NotFound, Cause, FmtV, OtherStack)
		case 6:
			return "", status.WrapErrf(codes.NotFound, Cause, "", 1)
		}
		return NoShape, nil
	}
	return Unknown, nil
}
