// Package p0 is the innermost link of the C16 call chains. Every library
// function under test is called lexically inside H (call path 1, plain
// functions) and inside (*T).G (call path 2, methods reached through an
// interface value), so that "the caller" of the library function is p0.H /
// p0.(*T).G, the caller above that is p1's, and so on up to p3.
//
// The two switch bodies are identical on purpose.
package p0

import (
	goerrors "errors"
	"path/filepath"
	"runtime"

	"github.com/cockroachdb/errors"
	"github.com/cockroachdb/errors/domains"
	"github.com/cockroachdb/errors/errutil"
	"github.com/cockroachdb/errors/grpc/status"
	"github.com/cockroachdb/errors/withstack"
	"google.golang.org/grpc/codes"
)

// Cause and Cause2 carry no stack trace and no domain, so that the only
// stack / domain in a constructed error is the one under test.
var (
	Cause  = goerrors.New("cause")
	Cause2 = goerrors.New("cause2")
)

// Unknown is returned as domain for a name that has no case.
const Unknown = "\x00unknown case"

// Where reports the directory and base name of this package's source file
// exactly as the runtime sees them.
func Where() (dir, file string) {
	_, f, _, _ := runtime.Caller(0)
	return filepath.Dir(f), filepath.Base(f)
}

// T carries call path 2.
type T struct{}

// H calls the library function called name with the given depth (call
// path 1). It returns either a domain or an error.
//
//go:noinline
func H(name string, depth int) (dom string, err error) {
	switch name {
	// root package
	case "errors.New":
		return "", errors.New("x")
	case "errors.NewWithDepth":
		return "", errors.NewWithDepth(depth, "x")
	case "errors.Newf":
		return "", errors.Newf("x %d", 1)
	case "errors.NewWithDepthf":
		return "", errors.NewWithDepthf(depth, "x %d", 1)
	case "errors.Errorf":
		return "", errors.Errorf("x %d", 1)
	case "errors.Wrap":
		return "", errors.Wrap(Cause, "x")
	case "errors.WrapWithDepth":
		return "", errors.WrapWithDepth(depth, Cause, "x")
	case "errors.Wrapf":
		return "", errors.Wrapf(Cause, "x %d", 1)
	case "errors.WrapWithDepthf":
		return "", errors.WrapWithDepthf(depth, Cause, "x %d", 1)
	case "errors.WithStack":
		return "", errors.WithStack(Cause)
	case "errors.WithStackDepth":
		return "", errors.WithStackDepth(Cause, depth)
	case "errors.AssertionFailedf":
		return "", errors.AssertionFailedf("x %d", 1)
	case "errors.AssertionFailedWithDepthf":
		return "", errors.AssertionFailedWithDepthf(depth, "x %d", 1)
	case "errors.NewAssertionErrorWithWrappedErrf":
		return "", errors.NewAssertionErrorWithWrappedErrf(Cause, "x %d", 1)
	case "errors.HandleAsAssertionFailure":
		return "", errors.HandleAsAssertionFailure(Cause)
	case "errors.HandleAsAssertionFailureDepth":
		return "", errors.HandleAsAssertionFailureDepth(depth, Cause)
	case "errors.Join":
		return "", errors.Join(Cause, Cause2)
	case "errors.JoinWithDepth":
		return "", errors.JoinWithDepth(depth, Cause, Cause2)
	case "errors.PackageDomain":
		return string(errors.PackageDomain()), nil
	case "errors.PackageDomainAtDepth":
		return string(errors.PackageDomainAtDepth(depth)), nil

	// errutil
	case "errutil.New":
		return "", errutil.New("x")
	case "errutil.NewWithDepth":
		return "", errutil.NewWithDepth(depth, "x")
	case "errutil.Newf":
		return "", errutil.Newf("x %d", 1)
	case "errutil.NewWithDepthf":
		return "", errutil.NewWithDepthf(depth, "x %d", 1)
	case "errutil.Wrap":
		return "", errutil.Wrap(Cause, "x")
	case "errutil.WrapWithDepth":
		return "", errutil.WrapWithDepth(depth, Cause, "x")
	case "errutil.Wrapf":
		return "", errutil.Wrapf(Cause, "x %d", 1)
	case "errutil.WrapWithDepthf":
		return "", errutil.WrapWithDepthf(depth, Cause, "x %d", 1)
	case "errutil.AssertionFailedf":
		return "", errutil.AssertionFailedf("x %d", 1)
	case "errutil.AssertionFailedWithDepthf":
		return "", errutil.AssertionFailedWithDepthf(depth, "x %d", 1)
	case "errutil.HandleAsAssertionFailure":
		return "", errutil.HandleAsAssertionFailure(Cause)
	case "errutil.HandleAsAssertionFailureDepth":
		return "", errutil.HandleAsAssertionFailureDepth(depth, Cause)
	case "errutil.NewAssertionErrorWithWrappedErrf":
		return "", errutil.NewAssertionErrorWithWrappedErrf(Cause, "x %d", 1)
	case "errutil.NewAssertionErrorWithWrappedErrDepthf":
		return "", errutil.NewAssertionErrorWithWrappedErrDepthf(depth, Cause, "x %d", 1)
	case "errutil.JoinWithDepth":
		return "", errutil.JoinWithDepth(depth, Cause, Cause2)

	// withstack
	case "withstack.WithStack":
		return "", withstack.WithStack(Cause)
	case "withstack.WithStackDepth":
		return "", withstack.WithStackDepth(Cause, depth)

	// domains
	case "domains.New":
		return "", domains.New("x")
	case "domains.Handled":
		return "", domains.Handled(Cause)
	case "domains.PackageDomain":
		return string(domains.PackageDomain()), nil
	case "domains.PackageDomainAtDepth":
		return string(domains.PackageDomainAtDepth(depth)), nil

	// grpc/status
	case "status.Error":
		return "", status.Error(codes.NotFound, "x")
	case "status.Errorf":
		return "", status.Errorf(codes.NotFound, "x %d", 1)
	case "status.WrapErr":
		return "", status.WrapErr(codes.NotFound, "x", Cause)
	case "status.WrapErrf":
		return "", status.WrapErrf(codes.NotFound, Cause, "x %d", 1)
	}
	return Unknown, nil
}

// G is H for call path 2.
//
//go:noinline
func (t *T) G(name string, depth int) (dom string, err error) {
	switch name {
	// root package
	case "errors.New":
		return "", errors.New("x")
	case "errors.NewWithDepth":
		return "", errors.NewWithDepth(depth, "x")
	case "errors.Newf":
		return "", errors.Newf("x %d", 1)
	case "errors.NewWithDepthf":
		return "", errors.NewWithDepthf(depth, "x %d", 1)
	case "errors.Errorf":
		return "", errors.Errorf("x %d", 1)
	case "errors.Wrap":
		return "", errors.Wrap(Cause, "x")
	case "errors.WrapWithDepth":
		return "", errors.WrapWithDepth(depth, Cause, "x")
	case "errors.Wrapf":
		return "", errors.Wrapf(Cause, "x %d", 1)
	case "errors.WrapWithDepthf":
		return "", errors.WrapWithDepthf(depth, Cause, "x %d", 1)
	case "errors.WithStack":
		return "", errors.WithStack(Cause)
	case "errors.WithStackDepth":
		return "", errors.WithStackDepth(Cause, depth)
	case "errors.AssertionFailedf":
		return "", errors.AssertionFailedf("x %d", 1)
	case "errors.AssertionFailedWithDepthf":
		return "", errors.AssertionFailedWithDepthf(depth, "x %d", 1)
	case "errors.NewAssertionErrorWithWrappedErrf":
		return "", errors.NewAssertionErrorWithWrappedErrf(Cause, "x %d", 1)
	case "errors.HandleAsAssertionFailure":
		return "", errors.HandleAsAssertionFailure(Cause)
	case "errors.HandleAsAssertionFailureDepth":
		return "", errors.HandleAsAssertionFailureDepth(depth, Cause)
	case "errors.Join":
		return "", errors.Join(Cause, Cause2)
	case "errors.JoinWithDepth":
		return "", errors.JoinWithDepth(depth, Cause, Cause2)
	case "errors.PackageDomain":
		return string(errors.PackageDomain()), nil
	case "errors.PackageDomainAtDepth":
		return string(errors.PackageDomainAtDepth(depth)), nil

	// errutil
	case "errutil.New":
		return "", errutil.New("x")
	case "errutil.NewWithDepth":
		return "", errutil.NewWithDepth(depth, "x")
	case "errutil.Newf":
		return "", errutil.Newf("x %d", 1)
	case "errutil.NewWithDepthf":
		return "", errutil.NewWithDepthf(depth, "x %d", 1)
	case "errutil.Wrap":
		return "", errutil.Wrap(Cause, "x")
	case "errutil.WrapWithDepth":
		return "", errutil.WrapWithDepth(depth, Cause, "x")
	case "errutil.Wrapf":
		return "", errutil.Wrapf(Cause, "x %d", 1)
	case "errutil.WrapWithDepthf":
		return "", errutil.WrapWithDepthf(depth, Cause, "x %d", 1)
	case "errutil.AssertionFailedf":
		return "", errutil.AssertionFailedf("x %d", 1)
	case "errutil.AssertionFailedWithDepthf":
		return "", errutil.AssertionFailedWithDepthf(depth, "x %d", 1)
	case "errutil.HandleAsAssertionFailure":
		return "", errutil.HandleAsAssertionFailure(Cause)
	case "errutil.HandleAsAssertionFailureDepth":
		return "", errutil.HandleAsAssertionFailureDepth(depth, Cause)
	case "errutil.NewAssertionErrorWithWrappedErrf":
		return "", errutil.NewAssertionErrorWithWrappedErrf(Cause, "x %d", 1)
	case "errutil.NewAssertionErrorWithWrappedErrDepthf":
		return "", errutil.NewAssertionErrorWithWrappedErrDepthf(depth, Cause, "x %d", 1)
	case "errutil.JoinWithDepth":
		return "", errutil.JoinWithDepth(depth, Cause, Cause2)

	// withstack
	case "withstack.WithStack":
		return "", withstack.WithStack(Cause)
	case "withstack.WithStackDepth":
		return "", withstack.WithStackDepth(Cause, depth)

	// domains
	case "domains.New":
		return "", domains.New("x")
	case "domains.Handled":
		return "", domains.Handled(Cause)
	case "domains.PackageDomain":
		return string(domains.PackageDomain()), nil
	case "domains.PackageDomainAtDepth":
		return string(domains.PackageDomainAtDepth(depth)), nil

	// grpc/status
	case "status.Error":
		return "", status.Error(codes.NotFound, "x")
	case "status.Errorf":
		return "", status.Errorf(codes.NotFound, "x %d", 1)
	case "status.WrapErr":
		return "", status.WrapErr(codes.NotFound, "x", Cause)
	case "status.WrapErrf":
		return "", status.WrapErrf(codes.NotFound, Cause, "x %d", 1)
	}
	return Unknown, nil
}
