package callmc

// Parent side of C16's schedule dimension (verif/mc/callmc/conc): the
// sequential call-path enumeration of this package says what a constructor
// attributes to its caller when nobody else is calling; the property says
// "its immediate caller", which must also hold while callers in OTHER
// packages are inside the same constructors.
//
//   - Pre builds build/mc-sched and build/mc-race exactly as C18 does
//     (schedmc.Build: instrumented copy of /repo's working tree), launches
//     `mc-sched worker C16 …` shards (verif/mc/callmc/concworker) and the
//     `mc-race c16` processes in the background, and lets the framework run
//     the sequential worker of this binary beside them;
//   - Post waits for both and folds their results into C16's result: the
//     violations (keys concurrent|<function>|<site relation>, concurrent-
//     persistent|…, concurrent-panic|…, data-race|<function>), the counters
//     (prefix concurrent_), bounds, assumptions;
//   - `--replay` of a violation of the schedule dimension (payload
//     {"concurrent":true,…}) makes Pre hand the single replay worker to
//     mc-sched, which re-runs exactly that schedule; a sequential payload is
//     replayed by this binary as before, without building anything.

import (
	"encoding/json"
	"fmt"
	"os"
	"runtime"
	"sort"
	"strconv"
	"strings"
	"time"

	"verif/mc/callmc/conc"
	"verif/mc/core"
	"verif/mc/schedmc"
)

type concPending struct {
	done    chan struct{}
	results []*core.Result
	errs    []string
	race    *conc.RaceRun
	started time.Time
	workers int
}

var pendingConc *concPending

func replayArg() string {
	for i, a := range os.Args {
		if a == "--replay" && i+1 < len(os.Args) {
			return os.Args[i+1]
		}
	}
	return ""
}

// replayIsConcurrent peeks at a replay file.
func replayIsConcurrent(path string) (bool, error) {
	b, err := os.ReadFile(path)
	if err != nil {
		return false, err
	}
	var f struct {
		Replay struct {
			Concurrent bool `json:"concurrent"`
		} `json:"replay"`
	}
	if err := json.Unmarshal(b, &f); err != nil {
		return false, err
	}
	return f.Replay.Concurrent, nil
}

// betterWitness orders two violations of one key: fewer preemptions, then
// fewer threads, calls, deviations.
func betterWitness(a, b *core.Violation) bool {
	dec := func(v *core.Violation) (p conc.Replay) {
		j, _ := json.Marshal(v.Replay)
		json.Unmarshal(j, &p)
		return
	}
	pa, pb := dec(a), dec(b)
	size := func(p conc.Replay) [4]int {
		calls := 0
		for _, t := range p.Threads {
			calls += len(t.Calls)
		}
		return [4]int{p.Preemptions, len(p.Threads), calls, len(p.Schedule)}
	}
	sa, sb := size(pa), size(pb)
	for i := range sa {
		if sa[i] != sb[i] {
			return sa[i] < sb[i]
		}
	}
	return false
}

func concWorkers() int {
	n := runtime.NumCPU()
	if n > 16 {
		n = 16
	}
	if s := os.Getenv("VERIF_WORKERS"); s != "" {
		if v, err := strconv.Atoi(s); err == nil && v > 0 {
			n = v
		}
	}
	return n
}

func preC16(tier string) ([]string, error) {
	if rf := replayArg(); rf != "" {
		isConc, err := replayIsConcurrent(rf)
		if err != nil {
			return nil, err
		}
		if !isConc {
			return nil, nil
		}
		if _, err := schedmc.Build(); err != nil {
			return nil, err
		}
		return []string{schedmc.SchedBin()}, nil
	}
	t0 := time.Now()
	st, err := schedmc.Build()
	if err != nil {
		return nil, err
	}
	fmt.Printf("C16: schedule dimension: instrumented %d files / %d packages with %d scheduling points; binaries built in %.1fs\n",
		st.Files, st.Packages, st.Points, time.Since(t0).Seconds())
	p := &concPending{done: make(chan struct{}), started: time.Now(), workers: concWorkers()}
	p.race = conc.StartRace(tier)
	budget := core.SoftBudget(tier)
	deadline := time.Now().Add(budget)
	go func() {
		defer close(p.done)
		p.results, p.errs = core.RunWorkers([]string{schedmc.SchedBin()}, "C16", tier, p.workers, core.Seed(), deadline, budget, "", "")
	}()
	pendingConc = p
	return nil, nil
}

func postC16(tier string, merged *core.Result) {
	p := pendingConc
	pendingConc = nil
	if p == nil {
		return // replay
	}
	<-p.done
	sub := core.NewResult()
	best := map[string]*core.Violation{}
	for i, r := range p.results {
		if p.errs[i] != "" {
			merged.HarnessError("C16 schedule dimension: %s", p.errs[i])
		}
		if r == nil {
			sub.Exhaustive = false
			continue
		}
		for _, v := range r.Violations {
			if b := best[v.Key]; b == nil || betterWitness(v, b) {
				best[v.Key] = &core.Violation{Msg: v.Msg, Replay: v.Replay}
			}
		}
		core.Merge(sub, r)
	}
	// the reported witness of a key is the one with the fewest preemptions
	// any worker found, not the one of the lowest shard.
	for _, v := range sub.Violations {
		if b := best[v.Key]; b != nil {
			v.Msg, v.Replay = b.Msg, b.Replay
		}
	}
	p.race.Collect(sub)
	wall := time.Since(p.started).Seconds()

	// one-line summary for the log.
	var bounds []string
	var execs int64
	for k, v := range sub.Counters {
		if strings.HasPrefix(k, "concurrent_executions_") && strings.Contains(k, "threads_with_") {
			bounds = append(bounds, fmt.Sprintf("%s=%d", strings.TrimPrefix(k, "concurrent_executions_"), v))
		}
	}
	sort.Strings(bounds)
	execs = sub.Counters["concurrent_executions"]
	classes := 0
	differing := 0
	for k := range sub.Outcomes {
		classes++
		if !strings.HasSuffix(k, "|as-alone") {
			differing++
		}
	}
	fmt.Printf("C16: schedule dimension: %d scenarios / %d units (%d completed) on %d workers; %d schedules executed (%s); %d outcome classes (%d unlike the solo run); "+
		"%d sequential re-checks; race pass: %d calls in %d processes, %d reports; %.1fs\n",
		sub.Counters["concurrent_scenarios"], sub.Counters["concurrent_units_total"], sub.Counters["concurrent_units_completed"], p.workers,
		execs, strings.Join(bounds, " "), classes, differing, sub.Counters["concurrent_sequential_rechecks"],
		sub.Counters["concurrent_race_calls"]+sub.Counters["concurrent_race_cold_calls"], sub.Counters["concurrent_race_processes"], sub.Counters["concurrent_race_reports"], wall)
	sub.Count("concurrent_wall_ms", int64(wall*1000))
	if sub.Counters["concurrent_units_completed"] != sub.Counters["concurrent_units_total"] {
		sub.Cap(fmt.Sprintf("schedule dimension: %d of %d (scenario, variant) units completed", sub.Counters["concurrent_units_completed"], sub.Counters["concurrent_units_total"]))
	}

	// the sequential worker fills the sample slots: make room for one
	// execution of the schedule dimension.
	if len(sub.Samples) > 0 && len(merged.Samples) >= 6 {
		merged.Samples[len(merged.Samples)-1] = sub.Samples[0]
		sub.Samples = nil
	}
	seqBounds, seqRule := merged.Bounds, merged.Rule
	subBounds := sub.Bounds
	sub.Bounds, sub.Rule = "", ""
	core.Merge(merged, sub)
	merged.Bounds = seqBounds + " ‖ SCHEDULE DIMENSION: " + subBounds
	merged.Rule = seqRule + " ‖ schedule dimension: state = one execution (scenario, prewarm/re-check variant, schedule); transition = one scheduling decision; " +
		"non-trivial = at least one preemption; outcome class = (kinds of the functions, relation of the sites, tuple of observations: as-alone or a hash)"
	merged.Assumptions = append(merged.Assumptions,
		"schedule dimension: scheduling points are statement boundaries of library code and every sync/atomic operation of library code (instrumented copy of /repo's working tree); runtime.Callers/Caller, fmt and the harness's own code run atomically between them",
		"schedule dimension: what the library may remember between executions is put into a stated condition before every execution (neutral site last, or one thread's own site last) and examined after it (sequential re-check of every site, each site first once); "+
			"memory that reaches further back than one prewarm sequence is only covered as far as a failing execution must fail identically "+fmt.Sprint(5)+" more times to be reported",
		"schedule dimension: first-use behaviour is only SAMPLED (per worker process one blind round-robin two-thread execution per function through sites nothing has used, before any baseline; package initialisation of the harness itself calls errors.New once), plus the cold phase of the race pass",
		"schedule dimension: interleavings finer than a statement are invisible to the cooperative scheduler; they are the job of the auxiliary -race pass")
}
